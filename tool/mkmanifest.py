#!/usr/bin/env python3
"""Regenerates /verif/MANIFEST.json from the table below (claimed checks) and
properties.jsonl (everything else goes to not_applicable with its reason)."""
import json, os
HERE = os.path.dirname(os.path.dirname(os.path.abspath(__file__)))

TRUST = ('Trusted: clang 14 front end (AST, constant folding, CFG), compile flags from cmake, tool/opusfacts.cc, the python '
         'rule code, and the frozen instance tables under spec/. ')

CLAIMS = {
 'C11': dict(category='other',
   text='Partial: over all ctl dispatchers and every case arm - the set of request values that can reach a state store or a forwarded sub-request equals the documented accepted set (interval-set abstract interpretation per arm), GET out-pointers are null-checked, GET reads the path SET wrote, unknown requests give OPUS_UNIMPLEMENTED, the bad_arg exit stores nothing, create/init validate before clear/alloc and free on failure, settings fields are written only by the dispatcher and init, forwarded multistream requests are atomic (one known finding). That a stored setting actually shapes later packets is NOT decided.',
   note=TRUST + 'spec/ctl_ranges.json is a hand transcription of include/opus_defines.h. Three genuine defects found by these rules were repaired by fix: commits (see known_findings.json).',
   technique='per-arm interval-set abstract interpretation of the ctl switch + edge-dominance guard facts + who-may-write (field ownership) over the whole program'),
 'C14': dict(category='proof',
   text='Static non-interference argument discharged over every library TU: no static-storage object is ever written (whole-program may-point-to over all stores incl. mem*/intrinsic/asm destinations), no hidden-state libc call, no pseudostack; so distinct objects share read-only memory only.',
   note=TRUST + 'Points-to is unsound only for pointers laundered through integers/unions/varargs; libc mem*/malloc/libm thread-safe; one thread per object.',
   technique='whole-program may-point-to + store classification over the typed AST (custom libTooling checker)'),
 'C05': dict(category='other',
   text='Partial (memory-safety skeleton of the buffer limit): explicit TOC/frame-count byte stores are at indices proved inside the buffer (pointer offset as ghost integer, trace partitioning on the packet code); every length opus_encode_native hands to a writer of the caller buffer is proved <= out_data_bytes by relational difference tracking through the IMIN/IMAX clamps; the range coder gets exactly max_data_bytes-1 bytes at data+1 and callers pass 1..1276; the multistream encoder clamps the per-stream budget to its scratch packet, passes exactly the remaining space and advances data/tot_size together; the 1275-byte scratch copies match the caps. CBR padding is keyed on use_vbr (no stale mirror); the OPUS_BITRATE_MAX rate round-trips to the buffer size over all 45x1276 partitions; the multistream per-stream split is conservative (sum of rate[i] - requested total vanishes as a polynomial identity, clamps and rounding aside). Exact CBR size, BITRATE_MAX fill, CVBR average and redundancy placement inside the coder buffer are NOT decided.',
   note=TRUST + 'Assumes no signed-integer overflow (UB) when clipping stored values to the variable type. One unchecked repacketizer result in the multistream encoder is a frozen stated-belief exception (no failing input known).',
   technique='interval-set abstract interpretation with tracked differences (out_data_bytes - len), min/max relation back-propagation and trace partitioning (product CFG) + finite-domain evaluation of extracted expressions + polynomial normal forms (rate-split conservation)'),
 'C06': dict(category='other',
   text='Partial (memory-safety and agreement clauses of the parser): every packet-byte read of opus_packet_parse_impl / parse_size / opus_packet_get_nb_frames happens with the length variable proved >= the bytes needed and never overstating what is left (linear ghost len+consumed-initial <= 0 with symbolic cancellation); the frame count is proved in [1,48] and all subscripts of size[]/frames[] inside the declared 48 entries; explicit sizes are validated before the pointer advances and implicit sizes checked <= 1275 before narrowing; the frame-count helper agrees with the parser per TOC code and both enforce the same 120 ms; out-parameters are stored after the last failure return; internal callers pass 48-entry arrays. The self-delimited last frame is bounded by what is left after its own length bytes; opus_packet_has_lbrr derives its SILK frame count from the per-frame duration. Equality of the accepted set with RFC 6716 R1-R7 and of the reported offsets is NOT decided.',
   note=TRUST + 'Assumes no signed overflow when clipping stored values.',
   technique='interval-set abstract interpretation with a linear ghost (consumed bytes) and product refinement (framesize*count <= 5760) + dominance facts + decision-table agreement of sibling functions'),
 'C07': dict(category='other',
   text='Partial: a rejected cat leaves observable contents unchanged (commit-after-validate, slot index < 48 from the 120 ms check); every output store of out_range_impl is reached only after a tot_size-vs-maxlen check returning OPUS_BUFFER_TOO_SMALL since the last growth of tot_size (typestate product over the CFG with interval pruning); pad/unpad guards and copy-before-cat; no repacketizer/parser/extension error is dropped. Padding arithmetic is exact over a full period of both divisors; indexing is relative to begin; the sizing and emission passes of the self-delimited output use the same frame; opus_packet_unpad returns a length only through parse + re-emit. Byte-for-byte frame preservation, canonical unpad and the 1277*n bound are NOT decided.',
   note=TRUST + 'One growth of tot_size is a frozen, reasoned exception (anticipated by the dominating padding check).',
   technique='typestate product of the CFG with a budget-checked automaton, analysed by interval abstract interpretation; never-after / must-pass-through rules; unchecked-error rule'),
 'C08': dict(category='other',
   text='Partial: only the range coder\'s five writers (plus four frozen save/restore sites that restore bytes they saved) can store into the memory ec_ctx.buf points to (who-may-write via points-to), the decoder reads packet bytes only in ec_read_byte/_from_end; each access is guarded by the offs/end_offs/storage test; encoder and decoder update nbits_total/rng identically in the normalise loops and raw-bit coders, split uints at the same EC_UINT_BITS, renormalise after every rng update and start from the same (rng, nbits_total). decode(encode(x)) = x and tell_frac monotonicity are NOT decided.',
   note=TRUST,
   technique='who-may-write by field-tracked points-to + dominance guards + sibling agreement (encoder/decoder) of field-update projections'),
 'C10': dict(category='other',
   text='Partial: for all five built-in ambisonics orders demixing x mixing = gain*I (exhaustive over the constant matrices) with consistent headers/sizes and matching order selection; the 8 Vorbis layouts are valid permutation layouts equal to RFC 7845; one self-delimiting predicate at all five multistream sites; (selector, lane, stride) routing pairs in encoder and decoder and the selector bodies; creation guards dominate allocation/layout stores. Bit-exact equality with stand-alone decoding is NOT decided.',
   note=TRUST + 'RFC 7845 family-1 table transcribed into the checker.',
   technique='table predicates on evaluated initialisers + edge-dominance guard facts + sibling agreement of call-site arguments'),
 'C15': dict(category='other',
   text='Partial (dispatch soundness and saturation agreement, necessary conditions only): every RTCD table entry at level i comes from a TU whose -m ISA flags are within level i, selectable entries non-NULL, max(opus_select_arch) indexes an initialised entry, every table use is masked, no direct call into a TU with more ISA flags, and each level is returned only after CPUID tests covering the flags its kernels were compiled with. Where a C kernel and its SIMD twin both saturate what they store into an 8/16-bit array they saturate to the same range (float and fixed-point configurations); one genuine defect found this way (fixed-point celt_fir_sse4_1 vs celt_fir_c) was repaired. Numerical/bit identity of SIMD kernels vs C in general is NOT decided (run-time relation).',
   note=TRUST + 'CPUID feature-bit table (leaf/register/bit) in the checker; -m flags from the cmake compilation database.',
   technique='function-pointer table predicates joined with compile-database ISA flags + must-dataflow over the CPU-detection CFG + sibling agreement of store ranges (interval analysis of scalar stores, reaching definitions of stored vectors through pack/min/max intrinsics)'),
 'C16': dict(category='other',
   text='Partial: every byte store of the extension generator happens with len-pos >= 1 (interval analysis of the ghost difference len-pos) or under a dominating len-pos check built from the loop/copy length terms, failing checks return OPUS_BUFFER_TOO_SMALL; data!=NULL controls only stores through data (dry-run size = written size); argument validation precedes use and all 35 subscripts of the 48-entry tables are proven in range; iterator/skip helpers read packet bytes only under a positive-length fact; an extension is reported only after its payload was validated and frame-counter changes are range-checked; repacketizer count/parse passes agree. Round-trip equality parse(generate(x))=x is NOT decided.',
   note=TRUST + 'One inter-procedural read (curr_data0[1]) is a frozen, reasoned exception re-checked against the callee-result test.',
   technique='interval-set abstract interpretation with a tracked difference variable (len-pos) + control-dependence (dry-run) rule + edge-dominance guard facts'),
 'C17': dict(category='other',
   text='Partial: the data clauses are decided exhaustively (every iCDF table reaching a coder call is strictly decreasing/zero-terminated from every offset; PVQ U table equals the exact recurrence, V<2^32 and in-row for every reachable (N,K); pulse cache equals ceil(8 log2 V)-1 and is monotone; Laplace parameters within preconditions). Bijectivity of cwrsi/icwrs and Laplace tiling are NOT decided.',
   note=TRUST + 'Python port of log2_frac as generator oracle for the pulse cache.',
   technique='table predicates over evaluated initialisers + points-to resolution of table arguments + dominance for stack-built tables'),
 'C19': dict(category='other',
   text='Partial: the soft clipper\'s degenerate-argument guard dominates every store; inside the per-channel loop all sample subscripts are multiples of the stride C from base _x+c, declip_mem is touched only at [c] and no scalar carries over between channel iterations (channel independence); the decoder gain is read only by its ctl arms and by one region of opus_decode_frame whose only effects are stores into pcm samples (non-interference with return value, final range and state); the soft_clip flag only selects clipper call vs zeroing its memory. Output range, pass-through exactness, sign preservation and the gain value are NOT decided (numeric).',
   note=TRUST,
   technique='control-dependence region effects (non-interference), stride-form subscript rule, may-stale dataflow inside the channel loop, dominance guards'),
 'C03': dict(category='translation_validation',
   text='Partial (table conformance only): every normative PDF / codebook / constant table that RFC 6716 prints (read from the xml2rfc source shipped in doc/, an oracle written independently of the C tables) equals the evaluated C initialiser after the per-entry transform (pdf->icdf, transposition, sub-table offsets, bit-field layout) - 163 translated tables; the ec_sel bit layout used to read the NLSF selection tables; the binding of each decoder function\'s iCDF call sites to those tables; the fs/frame-size selectors of silk_decoder_set_fs against the RFC rows; decoder reachability and coverage of the mapped tables. Structural conditions of the filters/state: symmetric-FIR tap pairing of the SILK down-sampler, interleave stride of the frame assembly, and every loop updating the CELT energy memories covers both channel slots. This is exactly the class "a changed table entry that keeps encoder and decoder mutually consistent". PCM within tolerance of the reference decoder, final range, filters, MDCT, resampler and transitions are NOT decided (numeric).',
   note=TRUST + 'doc/draft-ietf-codec-opus.xml as the oracle (its two known misprints - the 12-entry trim PDF and the row label "g" - are handled by reading the celt_symbols row and by positional rows). spec/c03_sites.json binds decoder functions to table sets.',
   technique='translation validation of constant tables against the RFC text + points-to resolution of table arguments + decision-table extraction (path feasibility under enumerated valuations)'),
 'C18': dict(category='other',
   text='Partial: for ANY index values a bitstream can carry (interval abstract interpretation of the dequantisers, not sampled inputs) - NLSFs are stored inside [0,32767] and stabilised on every path; the stabiliser returns only with verified spacing or after its four-pass sort-and-clamp fallback (whose skip edge is proved infeasible); the gain index stays in [0,63] and the log-gain argument <= 3967 for any delta chain; pitch lags end in [2*Fs,18*Fs] for all six (Fs, sub-frame) cases; NLSF2A fits to 16 bit before the inverse-gain loop, leaves it only with non-zero gain or at the cap whose last chirp is exactly 0; LPC_fit saturates on its give-up path; the decoder prediction filters have no other writer; the interpolation factor is in [0,4]; plus the codebook data preconditions (shapes vs selecting iCDFs, deltaMin sums, non-zero weights, ec_sel ranges, reciprocal steps, cosine table, contour strides). Numeric stability of every LPC and encoder/decoder value equality are NOT decided.',
   note=TRUST + 'Assumes no signed overflow inside the analysed expressions beyond what the type clipping models.',
   technique='interval-set abstract interpretation with inlined callee summaries and expression facts (saturation idiom), partitioned per (Fs, sub-frame count); must-pass-through / dominance; table predicates; decision-table extraction'),
 'C20': dict(category='other',
   text='Partial: the two inactivity counters (Opus generalised DTX in decide_dtx_mode, SILK in silk_encode_do_VAD_FLP/FIX) are extracted from the source as finite automata by partitioned abstract interpretation and explored exhaustively for all nine legal frame durations: the first DTX decision falls within one frame of the 200 ms mark, a DTX run is shorter than 400 ms + one frame and is followed by a refresh frame, activity resets counter and decision; both detectors share thresholds and nothing else writes the counters; OPUS_GET_IN_DTX is true on every DTX frame; a DTX decision (and the SILK nBytes==0 path) emits only the TOC byte, zero final range, length 1; the counter is cleared when DTX is off / analysis invalid; the frame length is passed exactly in Q1 ms; multi-frame packets count DTX frames; the decoder routes <=1-byte payloads to concealment bounded by the TOC duration. Activity classification of a given signal, decoder output level in the gap, and absence of tiny packets with DTX off are NOT decided.',
   note=TRUST,
   technique='automaton extraction by value-partitioned abstract interpretation of the (loop-free) decision functions + exhaustive exploration of the extracted automaton; control-dependence region effects; dominance facts'),
 'C13': dict(category='other',
   text='Partial: (1) at every call site the format-specific helper handed to the native encoder/decoder (down-mix reader, channel copy-in/out) accesses the caller\'s untyped PCM buffer with that buffer\'s element type - the helper/buffer pairing is derived from the indirect calls and propagated through forwarding calls, over single-stream, multistream and projection entry points in four build configurations; (2) soft clipping is requested only by the 16-bit decoders of the float build and covers exactly the returned samples; (3) scale constants agree (x256 between 16- and 24-bit input, output x input = 1); (4) each entry point declares the depth of its format and lsb_depth is capped by the user setting before any use; (5) each helper converts every sample it reads the same way; (6) every public PCM entry point reaches the single native path exactly once. One genuine defect found by (1) was repaired (projection encode24). Packet identity across formats and exact rounding relations are NOT decided.',
   note=TRUST,
   technique='derived function-pointer/buffer pairing (fixpoint over indirect and forwarding calls) + type agreement of casts; constant-argument rule; expression normalisation for sibling agreement; constant folding of conversion scales'),
 'C09': dict(category='other',
   text='Partial (duration/capacity skeleton and side-information agreement): the 2.5 ms-multiple test lies on every path to concealment and FEC; the PLC loop and the chunked (>20 ms) concealment hand the frame decoder exactly the remaining capacity at the matching offset (one cursor), add what was produced and report the requested count; the FEC branch is PLC(frame_size-packet_frame_size) plus one frame decoded at exactly that offset, entered only when frame_size >= packet_frame_size; every SILK concealment attenuation factor is in (0,1) and clamp-indexed (interval analysis with the lossCnt >= 0 invariant derived from its writers); <=1-byte payloads go to concealment bounded by the TOC duration; encoder and decoder decide the presence of the mid-only symbol from the same flag (decision tables over side VAD/LBRR flags) in normal, FEC and LBRR-skip contexts; CELT loss counter saturation/reset, bounded rise of the noise floor after an outage, safe energy prediction after loss. The LBRR gain index is dequantised in the mode it was emitted in, and the three sites that choose conditional vs independent coding of LBRR frames agree for all (channel, frame, flags); the noise-PLC decay covers every synthesised channel. Output levels, decay, FEC accuracy and re-convergence are NOT decided (numeric, signal dependent).',
   note=TRUST,
   technique='cursor/budget pattern rules over the CFG (must-pass-through, dominance facts) + decision-table extraction with a resolver + interval abstract interpretation for table indices + table predicates'),
 'C12': dict(category='other',
   text='Partial: (1) no writable static storage / hidden-state libc call - outputs cannot depend on other objects or earlier unrelated calls through globals (the C14 obligations re-evaluated); (2) every init function clears the whole object, with the size query applied to its own arguments, before any other access; (3) no pointer field of any record embedded in a codec state is ever assigned an address derived from the state itself, so a memcpy clone does not alias the original; (4) size query = end of the carve-up used by init (linear normal form) for the Opus encoder/decoder; (5) every reset handler clears exactly from its marker to the end, with the same total as init (size-query arguments must be init-only fields); (6) init and reset agree on every re-derived field; (7) no user setting lies in the cleared region, and every out-of-region field the codec writes and can read across calls (path-sensitive must-define analysis, partitioned by coding mode) is re-established by reset, is a setting, or is a listed exception whose guard is re-checked on every run. Two genuine reset residues found by (7) were repaired. Equality of the outputs of twin objects is NOT decided (run-time).',
   note=TRUST + 'spec/c12_reset_exceptions.json lists 6 reasoned exceptions, each with a machine-checked guard.',
   technique='whole-program may-point-to (shared with C14) + dominance / must-define dataflow partitioned by coding mode + linear normal forms of size expressions + sibling agreement init/reset + offset reasoning on record layouts'),
 'C02': dict(category='other',
   text='Partial (lock-step skeleton): in every `if (encode) .. else ..` of the shared CELT band/rate code both arms issue the same entropy-coder operations with the same model parameters; 18 encoder/decoder function pairs (SILK indices, pulses, shell, signs, stereo; CELT coarse/fine/final energy, tf, Laplace, PVQ pulses; CELT and SILK frame headers; hybrid redundancy signalling) issue the same ordered list of distinct coder events (kind, resolved table set, constants), and every SILK index field is coded with the same model on both sides; both sides publish coder.rng ^ redundant_rng and 0 on every TOC-only / tiny-payload path (must-reach dataflow on the field); no encoder-side error is dropped (prefill-into-dummy calls are the reasoned exception); every TOC is generated from the frame size being coded. When a redundancy frame is present its final range is taken on every feasible path. The low-budget (TOC-only) packet announces exactly the submitted duration for all 9 frame sizes x 4 modes x {1 byte, more} (interval analysis of that region against the RFC TOC durations). That every packet decodes to the encoder\'s final range, packet validity for all inputs, absence of internal errors, and conformance of code shared by both sides are NOT decided.',
   note=TRUST + 'A change made consistently to code shared by encoder and decoder (e.g. the allocation arithmetic in celt/rate.c) is invisible to these rules; tables are covered by C03.',
   technique='sibling agreement of entropy-coder event sequences (points-to resolved tables) + control-dependence regions + must-reach dataflow on a state field + path feasibility + region-restricted interval abstract interpretation against the RFC TOC table + unchecked-error rule'),
 'C01': dict(category='other',
   text='Partial (necessary conditions of memory safety and totality, each decided over all paths): the argument/capacity guards are on every path to any write into the caller\'s PCM and to any stack allocation sized by frame_size (edge-dominance), and the frame loop, the PLC loop, the chunked concealment and the FEC branch hand the frame decoder exactly the remaining capacity at the matching offset; packet bytes are read only under a length bound (parser: linear-ghost interval analysis shared with C06; reads through parsed frame pointers guarded by size[]); range-decoder byte reads are guarded and zero-filled; every iCDF table reaching a decoder call terminates; 19 subscripts of constant tables by decoded symbols are proved in range by interval analysis with the decoder\'s results bounded by their own tables, field summaries over the decoder functions and parameter binding from all call sites; no decode error is dropped; last_packet_duration equals the returned count; CELT band energy is clamped before exponentiation. One genuine defect found by the frame-pointer rule (opus_packet_has_lbrr over-read) was repaired. The SILK bounce buffer is selected exactly when the capacity is below the buffer\'s own size, and the multistream scratch image is dimensioned from the very capacity handed to the stream decoders. In-bounds access and termination of the WHOLE decoder (CELT band loops, PLC buffers, resampler), finiteness of every sample and absence of OPUS_INTERNAL_ERROR are NOT decided.',
   note=TRUST + 'spec/c01_index_sites.json freezes the subscript sites proved on the reference tree; sites the interval domain cannot prove are listed in the evidence as not decided.',
   technique='edge-dominance guard rules + cursor/budget pattern rules + interprocedural interval abstract interpretation (call summaries from table data, field summaries, parameter binding) + rules shared with C06/C08/C09/C17'),
}

NA_REASON = {
 'C04': 'Numeric fidelity (SNR, per-band energy, 0.1 ms delay alignment, channel identity of decoded audio) is a relation between run-time signals; no clause reduces to code shape beyond what C10 (routing) and C13 (format scaling) decide. Static analysis does not apply.',
}


def main():
    props = [json.loads(l) for l in open(os.path.join(HERE, 'properties.jsonl'))]
    checks = []
    na = []
    for p in props:
        pid = p['id']
        c = CLAIMS.get(pid)
        if c and os.path.exists(os.path.join(HERE, 'sa', 'rules', pid.lower() + '.py')):
            checks.append({
                'property_id': pid,
                'quick_cmd': 'bin/check %s --tier quick' % pid,
                'thorough_cmd': 'bin/check %s --tier thorough' % pid,
                'evidence_file': 'evidence/%s.json' % pid,
                'replay_cmd_template': 'bin/check %s --replay {path}' % pid,
                'engine': 'sa',
                'level_claimed': {'category': c['category'], 'text': c['text'], 'design_ref': 'DESIGN.md section 5, ' + pid},
                'level_note': c['note'],
                'technique': c['technique'],
            })
        else:
            na.append({'property_id': pid, 'reason': NA_REASON.get(pid, 'check not built yet (planned in DESIGN.md section 5)')})
    m = {
        'version': 1,
        'setup_cmd': 'tool/build.sh',
        'hooks': {'guard': 'XIPH_OPUS_VERIF',
                  'enable': 'none needed: the analysis parses the unmodified tree with the real compile flags (cmake compilation database)',
                  'baseline_off_cmd': 'cmake --build /repo/_build && ctest --test-dir /repo/_build -j8 --timeout 900',
                  'source_commits': [], 'add_only': True},
        'engines': [
            {'name': 'opusfacts', 'path': 'tool/opusfacts.cc', 'serves_properties': [c['property_id'] for c in checks],
             'kind_free_text': 'libTooling fact extractor: typed AST + clang CFG + evaluated initialisers per TU, from the cmake compilation database'},
            {'name': 'sa', 'path': 'sa/', 'serves_properties': [c['property_id'] for c in checks],
             'kind_free_text': 'python rule engine over the extracted facts: points-to, dominance, value-set analysis, table predicates, sibling agreement'}],
        'checks': checks,
        'not_applicable': na,
        'notes': 'Static analysis only (see DESIGN.md). Exit 0 held / 1 VIOLATION / 2 analysis-broken (anchor vanished, rule matched fewer instances than its frozen minimum, seeded variant not flagged).',
    }
    json.dump(m, open(os.path.join(HERE, 'MANIFEST.json'), 'w'), indent=1)
    print('claimed', [c['property_id'] for c in checks], 'n/a', len(na))


if __name__ == '__main__':
    main()
