#!/bin/sh
# setup_cmd: build the libTooling fact extractor (offline; ~20 s).
set -e
here=$(cd "$(dirname "$0")" && pwd)
out="$here/opusfacts"
src="$here/opusfacts.cc"
if [ -x "$out" ] && [ "$out" -nt "$src" ]; then
  exit 0
fi
clang++ $(llvm-config-14 --cxxflags) -O1 -fno-rtti "$src" -o "$out.tmp.$$" \
  /usr/lib/llvm-14/lib/libclang-cpp.so.14 /usr/lib/llvm-14/lib/libLLVM-14.so
mv "$out.tmp.$$" "$out"
