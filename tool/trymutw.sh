#!/bin/bash
# usage: trymutw.sh <patch.diff> <Cxx> [Cxx...]  -- like trymut.sh, but on a scratch worktree of /repo HEAD (outside /repo and
# /verif, removed afterwards), so that /repo itself is never touched and other runs are not disturbed
diff=$1; shift
wt=$(mktemp -d /tmp/trymutw-XXXXXX)
git -C /repo worktree add --detach -f "$wt" HEAD >/dev/null 2>&1 || { echo WORKTREE-FAIL; exit 9; }
trap 'git -C /repo worktree remove --force "$wt" >/dev/null 2>&1; git -C /repo worktree prune' EXIT
git -C "$wt" apply "$diff" || { echo APPLY-FAIL; exit 8; }
mkdir -p "$wt/.verif-evidence"
for p in "$@"; do
  VERIF_REPO="$wt" VERIF_CACHE="$wt/.verif-cache" VERIF_EVIDENCE="$wt/.verif-evidence" /verif/bin/check $p --tier ${TIER:-quick} > /tmp/trymutw_$p.log 2>&1; rc=$?
  echo "$p exit=$rc  $(grep -c '^VIOLATION' /tmp/trymutw_$p.log) violation(s)"
  grep -E '^   violated|^ANALYSIS-BROKEN' /tmp/trymutw_$p.log | cut -c1-300 | head -6
done
