#!/usr/bin/env python3
"""debug: print the CFG of a function (blocks, statements, macros)"""
import sys, os
sys.path.insert(0, os.path.dirname(os.path.dirname(os.path.abspath(__file__))))
from sa.facts import Program
from sa import sx, cfg as cfgm
cfgname = os.environ.get('CFG', 'float')
p = Program(cfgname)
for name in sys.argv[1:]:
    f = p.fn(name)
    cf = cfgm.CFG(f)
    print('==', name, f.file, 'params', [(q['name'], q['type']) for q in f.params], 'entry', cf.entry, 'exit', cf.exit)
    for b in sorted(cf.blocks, reverse=True):
        blk = cf.blocks[b]
        print(' B%d succ=%s label=%s' % (b, blk['succ'], blk.get('label')))
        for s in blk['stmts']:
            ms = set()
            for n in sx.walk(s):
                for m in sx.macros(n):
                    ms.add(m)
            print('     L%s %s   %s' % (sx.line(s), sx.show(s)[:200], sorted(ms) if ms else ''))
        t = blk.get('term')
        if t:
            print('     T %s %s' % (t.get('kind'), sx.show(t['cond'])[:160] if 'cond' in t else t))
