#!/usr/bin/env python3
"""Regression matrix of the seeded changes: for every seeded/<name>/patch.diff, apply it to a scratch
worktree of /repo HEAD (outside /repo and /verif, removed afterwards), run the quick checks against
that worktree (VERIF_REPO / VERIF_CACHE / VERIF_EVIDENCE point into the scratch area, so /verif's
registered evidence is untouched) and record which rules report a violation.
usage: seedmatrix.py [-j N] [--props C01,C02,...] [name-substring ...]   -> seeded/MATRIX.json"""
import json, os, subprocess, sys, shutil, tempfile, re
from concurrent.futures import ThreadPoolExecutor
ROOT = os.path.dirname(os.path.dirname(os.path.abspath(__file__)))
ALL = ['C%02d' % i for i in range(1, 21) if i != 4]
args = sys.argv[1:]
J = 8
props = ALL
if '-j' in args:
    i = args.index('-j'); J = int(args[i + 1]); del args[i:i + 2]
if '--props' in args:
    i = args.index('--props'); props = args[i + 1].split(','); del args[i:i + 2]
names = sorted(d for d in os.listdir(os.path.join(ROOT, 'seeded')) if os.path.exists(os.path.join(ROOT, 'seeded', d, 'patch.diff')))
if args:
    names = [n for n in names if any(a in n for a in args)]
base = tempfile.mkdtemp(prefix='seedmatrix-')
# the checks are run from a snapshot of /verif taken now, so that edits made while the matrix runs do not leak into it
SNAP = os.path.join(base, 'verif-snapshot')
shutil.copytree(ROOT, SNAP, ignore=shutil.ignore_patterns('.git', '.cache', 'evidence', 'seeded', '__pycache__'))
os.makedirs(os.path.join(SNAP, 'seeded'), exist_ok=True)


def one(name):
    wt = os.path.join(base, name)
    r = subprocess.run(['git', '-C', '/repo', 'worktree', 'add', '--detach', '-f', wt, 'HEAD'], capture_output=True, text=True)
    if r.returncode:
        return name, {'error': 'worktree: ' + r.stderr[-200:]}
    out = {}
    try:
        r = subprocess.run(['git', '-C', wt, 'apply', os.path.join(ROOT, 'seeded', name, 'patch.diff')], capture_output=True, text=True)
        if r.returncode:
            return name, {'error': 'apply: ' + r.stderr[-200:]}
        env = dict(os.environ, VERIF_REPO=wt, VERIF_CACHE=os.path.join(wt, '.verif-cache'), VERIF_EVIDENCE=os.path.join(wt, '.verif-evidence'))
        os.makedirs(env['VERIF_EVIDENCE'], exist_ok=True)
        for p in props:
            r = subprocess.run([os.path.join(SNAP, 'bin', 'check'), p, '--tier', 'quick'], capture_output=True, text=True, env=env)
            rules = sorted(set(re.findall(r'^   violated ([RO][0-9.a-z]+)', r.stdout, re.M)))
            if r.returncode == 1:
                out[p] = rules or ['?']
            elif r.returncode != 0:
                out[p] = ['exit %d' % r.returncode]
    finally:
        subprocess.run(['git', '-C', '/repo', 'worktree', 'remove', '--force', wt], capture_output=True)
    return name, out


with ThreadPoolExecutor(max_workers=J) as ex:
    res = dict(ex.map(one, names))
shutil.rmtree(base, ignore_errors=True)
subprocess.run(['git', '-C', '/repo', 'worktree', 'prune'])
mp = os.path.join(ROOT, 'seeded', 'MATRIX.json')
old = json.load(open(mp)) if os.path.exists(mp) else {}
old.update(res)
json.dump(old, open(mp, 'w'), indent=1, sort_keys=True)
for n in names:
    print(n, res[n] or 'MISSED')
