#!/usr/bin/env python3
"""Rewrite the table of seeded changes in DESIGN.md (between the seeded-table markers) from
seeded/*/meta.json (history, what the change needs) and seeded/MATRIX.json (tool/seedmatrix.py:
which rules of which quick checks report it today)."""
import json, os, re
ROOT = os.path.dirname(os.path.dirname(os.path.abspath(__file__)))
mx = json.load(open(os.path.join(ROOT, 'seeded', 'MATRIX.json')))
rows = []
caught = missed = 0
for name in sorted(os.listdir(os.path.join(ROOT, 'seeded'))):
    mp = os.path.join(ROOT, 'seeded', name, 'meta.json')
    if not os.path.exists(mp):
        continue
    m = json.load(open(mp))
    res = mx.get(name)
    if res is None:
        now = '(not run)'
    elif 'error' in res:
        now = 'patch no longer applies: ' + res['error'][:60]
    elif not res:
        now = '**missed**'
    else:
        now = '; '.join('%s %s' % (p, ', '.join(r)) for p, r in sorted(res.items()))
    if res and 'error' not in res:
        caught += 1
    elif res == {}:
        missed += 1
    hist = m.get('detected_by', '')
    if res and hist.startswith('MISSED'):
        hist = 'missed when first run; rule added since'
    rows.append('| `%s` | %s | %s | %s |' % (name, now, hist.replace('|', '/'), m.get('needs_to_manifest', '').replace('|', '/')))
table = '| seeded change | reported today by (machine run of all quick checks) | history | needs, in order to manifest |\n|---|---|---|---|\n' + '\n'.join(rows)
summary = '%d seeded changes; %d reported by at least one quick check on the current machinery, %d missed.' % (len(rows), caught, missed)
p = os.path.join(ROOT, 'DESIGN.md')
s = open(p).read()
a, b = '<!-- seeded-table-begin -->', '<!-- seeded-table-end -->'
assert a in s and b in s
s = s[:s.index(a) + len(a)] + '\n' + summary + '\n\n' + table + '\n' + s[s.index(b):]
open(p, 'w').write(s)
print(summary)
