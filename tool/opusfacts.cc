// opusfacts — rule-free fact extractor for the xiph/opus static checks.
//
// For one translation unit (compiled with the flags from the compilation
// database) it writes a JSON document with
//   * globals   : every variable with static storage duration (file scope and
//                 function-static), its constness and its evaluated initialiser
//   * records   : struct layouts (field offsets / sizes / pointer-ness)
//   * functions : every function *definition* outside system headers with its
//                 clang CFG; each CFG element is a normalised S-expression
//   * macros    : object-like macro definitions that matter for markers
//                 (*_RESET_START)
// The rules live in python (sa/).  Nothing here knows about any property.
//
// Build: see tool/build.sh
#include "clang/AST/ASTConsumer.h"
#include "clang/AST/ASTContext.h"
#include "clang/AST/RecordLayout.h"
#include "clang/AST/RecursiveASTVisitor.h"
#include "clang/Analysis/CFG.h"
#include "clang/Frontend/CompilerInstance.h"
#include "clang/Frontend/FrontendAction.h"
#include "clang/Lex/Lexer.h"
#include "clang/Lex/Preprocessor.h"
#include "clang/Tooling/CommonOptionsParser.h"
#include "clang/Tooling/Tooling.h"
#include "llvm/Support/CommandLine.h"
#include "llvm/Support/raw_ostream.h"
#include <map>
#include <set>
#include <string>
#include <vector>

using namespace clang;
using namespace clang::tooling;

static llvm::cl::OptionCategory Cat("opusfacts");
static llvm::cl::opt<std::string> OutFile("o", llvm::cl::desc("output json"),
                                          llvm::cl::cat(Cat),
                                          llvm::cl::init("-"));
static llvm::cl::opt<std::string> RepoRoot("root", llvm::cl::desc("repo root"),
                                           llvm::cl::cat(Cat),
                                           llvm::cl::init("/repo"));

static std::string jstr(llvm::StringRef s) {
  std::string o = "\"";
  for (unsigned char c : s) {
    switch (c) {
    case '"': o += "\\\""; break;
    case '\\': o += "\\\\"; break;
    case '\n': o += "\\n"; break;
    case '\t': o += "\\t"; break;
    case '\r': o += "\\r"; break;
    default:
      if (c < 0x20 || c >= 0x7f) {
        char b[8];
        snprintf(b, sizeof b, "\\u%04x", c);
        o += b;
      } else
        o += (char)c;
    }
  }
  o += "\"";
  return o;
}

namespace {

struct Extractor {
  ASTContext &Ctx;
  SourceManager &SM;
  Preprocessor &PP;
  const LangOptions &LO;
  std::string Root;

  // per function
  std::map<const VarDecl *, int> LocalIds;
  std::vector<const VarDecl *> Locals;
  const FunctionDecl *CurFn = nullptr;

  Extractor(ASTContext &C, Preprocessor &P)
      : Ctx(C), SM(C.getSourceManager()), PP(P), LO(C.getLangOpts()) {}

  std::string relPath(llvm::StringRef f) {
    std::string s = f.str();
    if (s.rfind(Root + "/", 0) == 0)
      s = s.substr(Root.size() + 1);
    // normalise a/../b
    for (;;) {
      size_t p = s.find("/../");
      if (p == std::string::npos || p == 0)
        break;
      size_t q = s.rfind('/', p - 1);
      if (q == std::string::npos)
        s = s.substr(p + 4);
      else
        s = s.substr(0, q + 1) + s.substr(p + 4);
    }
    return s;
  }

  std::string locStr(SourceLocation L) {
    if (L.isInvalid())
      return "?";
    SourceLocation E = SM.getExpansionLoc(L);
    PresumedLoc P = SM.getPresumedLoc(E);
    if (P.isInvalid())
      return "?";
    return relPath(P.getFilename()) + ":" + std::to_string(P.getLine());
  }
  std::string fileOf(SourceLocation L) {
    SourceLocation E = SM.getExpansionLoc(L);
    PresumedLoc P = SM.getPresumedLoc(E);
    if (P.isInvalid())
      return "?";
    return relPath(P.getFilename());
  }
  unsigned lineOf(SourceLocation L) {
    SourceLocation E = SM.getExpansionLoc(L);
    PresumedLoc P = SM.getPresumedLoc(E);
    return P.isInvalid() ? 0 : P.getLine();
  }

  // Names of the macros of which [B,E] is the complete expansion, outermost
  // first.  (silk_LIMIT(a,b,c) -> the ?: expression carries "silk_LIMIT".)
  void macroChain(SourceLocation B, SourceLocation E,
                  std::vector<std::string> &out) {
    int guard = 0;
    while (B.isMacroID() && E.isMacroID() && guard++ < 16) {
      SourceLocation mb, me;
      bool atStart = Lexer::isAtStartOfMacroExpansion(B, SM, LO, &mb);
      bool atEnd = Lexer::isAtEndOfMacroExpansion(E, SM, LO, &me);
      if (SM.isMacroArgExpansion(B) || SM.isMacroArgExpansion(E)) {
        // step out of the argument into the macro body
        SourceLocation nb = SM.getImmediateSpellingLoc(B);
        SourceLocation ne = SM.getImmediateSpellingLoc(E);
        // if both are in the same macro arg and cover it entirely we simply
        // continue with the caller locations
        if (SM.isMacroArgExpansion(B) && SM.isMacroArgExpansion(E)) {
          B = SM.getImmediateExpansionRange(B).getBegin();
          E = SM.getImmediateExpansionRange(E).getEnd();
          (void)nb; (void)ne;
          continue;
        }
        break;
      }
      if (!atStart || !atEnd)
        break;
      llvm::StringRef name = Lexer::getImmediateMacroName(B, SM, LO);
      llvm::StringRef name2 = Lexer::getImmediateMacroName(E, SM, LO);
      if (name != name2)
        break;
      out.push_back(name.str());
      B = mb;
      E = me;
    }
  }

  std::string attrs(const Stmt *S, bool wantLine, const std::string &extra = "") {
    std::vector<std::string> ms;
    if (S->getBeginLoc().isMacroID())
      macroChain(S->getBeginLoc(), S->getEndLoc(), ms);
    std::string o;
    if (!ms.empty()) {
      o += "\"m\":[";
      for (size_t i = 0; i < ms.size(); i++) {
        if (i) o += ",";
        o += jstr(ms[i]);
      }
      o += "]";
    }
    if (wantLine) {
      if (!o.empty()) o += ",";
      o += "\"l\":" + std::to_string(lineOf(S->getBeginLoc()));
    }
    if (!extra.empty()) {
      if (!o.empty()) o += ",";
      o += extra;
    }
    if (o.empty())
      return "";
    return ",{" + o + "}";
  }

  std::string typeStr(QualType T) {
    return T.getAsString(Ctx.getPrintingPolicy());
  }

  std::string globalName(const VarDecl *VD) {
    if (VD->isStaticLocal()) {
      const auto *FD = dyn_cast_or_null<FunctionDecl>(VD->getParentFunctionOrMethod());
      return (FD ? FD->getNameAsString() : std::string("?")) + "::" + VD->getNameAsString();
    }
    return VD->getNameAsString();
  }

  int localId(const VarDecl *VD) {
    auto it = LocalIds.find(VD);
    if (it != LocalIds.end())
      return it->second;
    int id = (int)Locals.size();
    LocalIds[VD] = id;
    Locals.push_back(VD);
    return id;
  }

  std::string intType(QualType T) {
    // ,bits,signed
    if (T->isIntegralOrEnumerationType()) {
      unsigned bits = Ctx.getTypeSize(T);
      bool sg = T->isSignedIntegerOrEnumerationType();
      return std::to_string(bits) + "," + (sg ? "1" : "0");
    }
    if (T->isPointerType())
      return "0,0";
    if (T->isRealFloatingType())
      return "-1,1";
    return "0,0";
  }

  // value class of an expression: p pointer, a array, r record, f float, s scalar
  std::string vt(const Expr *E) {
    QualType T = E->getType();
    const char *c = "s";
    if (T->isPointerType()) c = "p";
    else if (T->isArrayType()) c = "a";
    else if (T->isRecordType()) c = "r";
    else if (T->isRealFloatingType()) c = "f";
    std::string o = std::string("\"t\":\"") + c + "\"";
    if (T->isIntegralOrEnumerationType()) {
      o += ",\"w\":" + std::to_string(Ctx.getTypeSize(T));
      if (!T->isSignedIntegerOrEnumerationType()) o += ",\"u\":1";
    }
    return o;
  }

  std::string ser(const Expr *E) {
    if (!E)
      return "null";
    // Transparent wrappers
    if (const auto *P = dyn_cast<ParenExpr>(E)) {
      std::string a = attrs(E, false);
      if (a.empty())
        return ser(P->getSubExpr());
      return "[\"paren\"," + ser(P->getSubExpr()) + a + "]";
    }
    if (const auto *CE = dyn_cast<ConstantExpr>(E))
      return ser(CE->getSubExpr());
    if (const auto *IC = dyn_cast<ImplicitCastExpr>(E)) {
      switch (IC->getCastKind()) {
      case CK_LValueToRValue:
      case CK_NoOp:
      case CK_ArrayToPointerDecay:
      case CK_FunctionToPointerDecay:
      case CK_BuiltinFnToFnPtr:
      case CK_NullToPointer:
        if (IC->getCastKind() == CK_NullToPointer)
          return "[\"int\",0" + attrs(E, false, "\"null\":1") + "]";
        return ser(IC->getSubExpr());
      default:
        break;
      }
    }
    // Fold integer constant expressions (no side effects) — keeps macros like
    // N_LEVELS_QGAIN-1 as numbers, with the macro name attached.
    if (!isa<IntegerLiteral>(E) && !isa<CharacterLiteral>(E) &&
        E->getType()->isIntegralOrEnumerationType() && !E->isValueDependent()) {
      Expr::EvalResult R;
      if (E->EvaluateAsInt(R, Ctx, Expr::SE_NoSideEffects) && !R.HasSideEffects) {
        std::string extra;
        if (const auto *UE = dyn_cast<UnaryExprOrTypeTraitExpr>(E->IgnoreParenImpCasts())) {
          if (UE->getKind() == UETT_SizeOf) {
            QualType AT = UE->isArgumentType() ? UE->getArgumentType()
                                               : UE->getArgumentExpr()->getType();
            extra = "\"sizeof\":" + jstr(typeStr(AT));
          }
        } else if (isa<OffsetOfExpr>(E->IgnoreParenImpCasts())) {
          extra = "\"offsetof\":1";
        }
        return "[\"int\"," + llvm::toString(R.Val.getInt(), 10) + attrs(E, false, extra) + "]";
      }
    }
    if (const auto *IL = dyn_cast<IntegerLiteral>(E))
      return "[\"int\"," + llvm::toString(IL->getValue(), 10, E->getType()->isSignedIntegerType()) + attrs(E, false) + "]";
    if (const auto *CL = dyn_cast<CharacterLiteral>(E))
      return "[\"int\"," + std::to_string(CL->getValue()) + attrs(E, false) + "]";
    if (const auto *FL = dyn_cast<FloatingLiteral>(E)) {
      llvm::SmallString<32> s;
      FL->getValue().toString(s, 17);
      std::string v = s.str().str();
      if (v.find("Inf") != std::string::npos || v.find("NaN") != std::string::npos)
        v = "null";
      return "[\"flt\"," + v + attrs(E, false) + "]";
    }
    if (E->getType()->isRealFloatingType() && !E->isValueDependent()) {
      Expr::EvalResult R;
      if (E->EvaluateAsRValue(R, Ctx) && !R.HasSideEffects && R.Val.isFloat()) {
        llvm::SmallString<32> s;
        R.Val.getFloat().toString(s, 17);
        std::string v = s.str().str();
        if (v.find("Inf") == std::string::npos && v.find("NaN") == std::string::npos)
          return "[\"flt\"," + v + attrs(E, false) + "]";
      }
    }
    if (const auto *SL = dyn_cast<StringLiteral>(E)) {
      if (SL->getCharByteWidth() == 1)
        return "[\"str\"," + jstr(SL->getString()) + "]";
      return "[\"str\",\"?\"]";
    }
    if (const auto *DR = dyn_cast<DeclRefExpr>(E)) {
      const ValueDecl *D = DR->getDecl();
      std::string a = attrs(E, false);
      if (const auto *PV = dyn_cast<ParmVarDecl>(D)) {
        // parameter of the current function?
        if (CurFn) {
          for (unsigned i = 0; i < CurFn->getNumParams(); i++)
            if (CurFn->getParamDecl(i) == PV)
              return "[\"param\"," + std::to_string(i) + "," + jstr(PV->getNameAsString()) + a + "]";
        }
        return "[\"param\",-1," + jstr(PV->getNameAsString()) + a + "]";
      }
      if (const auto *VD = dyn_cast<VarDecl>(D)) {
        if (VD->hasGlobalStorage())
          return "[\"global\"," + jstr(globalName(VD)) + a + "]";
        return "[\"local\"," + jstr(VD->getNameAsString()) + "," + std::to_string(localId(VD)) + a + "]";
      }
      if (const auto *FD = dyn_cast<FunctionDecl>(D))
        return "[\"func\"," + jstr(FD->getNameAsString()) + a + "]";
      if (const auto *EC = dyn_cast<EnumConstantDecl>(D))
        return "[\"int\"," + llvm::toString(EC->getInitVal(), 10) + a + "]";
      return "[\"other\",\"declref\"]";
    }
    if (const auto *ME = dyn_cast<MemberExpr>(E)) {
      std::string rec = "?";
      if (const auto *FD = dyn_cast<FieldDecl>(ME->getMemberDecl())) {
        const RecordDecl *RD = FD->getParent();
        rec = recName(RD);
      }
      return "[\"field\"," + ser(ME->getBase()) + "," + jstr(rec) + "," +
             jstr(ME->getMemberDecl()->getNameAsString()) + "," +
             (ME->isArrow() ? "1" : "0") + attrs(E, false, vt(E)) + "]";
    }
    if (const auto *UO = dyn_cast<UnaryOperator>(E)) {
      switch (UO->getOpcode()) {
      case UO_Deref:
        return "[\"deref\"," + ser(UO->getSubExpr()) + attrs(E, true, vt(E)) + "]";
      case UO_AddrOf:
        return "[\"addr\"," + ser(UO->getSubExpr()) + attrs(E, false) + "]";
      case UO_PreInc: case UO_PreDec: case UO_PostInc: case UO_PostDec:
        return "[\"inc\"," + jstr(UnaryOperator::getOpcodeStr(UO->getOpcode())) + "," +
               (UO->isPostfix() ? "1" : "0") + "," + ser(UO->getSubExpr()) + attrs(E, true) + "]";
      default:
        return "[\"un\"," + jstr(UnaryOperator::getOpcodeStr(UO->getOpcode())) + "," +
               ser(UO->getSubExpr()) + attrs(E, false) + "]";
      }
    }
    if (const auto *CAO = dyn_cast<CompoundAssignOperator>(E)) {
      std::string op = BinaryOperator::getOpcodeStr(CAO->getOpcode()).str();
      op = op.substr(0, op.size() - 1);
      return "[\"cassign\"," + jstr(op) + "," + ser(CAO->getLHS()) + "," + ser(CAO->getRHS()) + attrs(E, true) + "]";
    }
    if (const auto *BO = dyn_cast<BinaryOperator>(E)) {
      if (BO->getOpcode() == BO_Assign)
        return "[\"assign\"," + ser(BO->getLHS()) + "," + ser(BO->getRHS()) + attrs(E, true) + "]";
      if (BO->getOpcode() == BO_Comma)
        return "[\"comma\"," + ser(BO->getLHS()) + "," + ser(BO->getRHS()) + attrs(E, false) + "]";
      std::string extra;
      if (BO->isAdditiveOp() && BO->getType()->isPointerType())
        extra = "\"ptr\":1";
      else if (BO->getType()->isIntegralOrEnumerationType() && !BO->getType()->isSignedIntegerOrEnumerationType())
        extra = "\"u\":1,\"w\":" + std::to_string(Ctx.getTypeSize(BO->getType()));
      return "[\"bin\"," + jstr(BO->getOpcodeStr()) + "," + ser(BO->getLHS()) + "," + ser(BO->getRHS()) + attrs(E, false, extra) + "]";
    }
    if (const auto *CO = dyn_cast<ConditionalOperator>(E))
      return "[\"cond\"," + ser(CO->getCond()) + "," + ser(CO->getTrueExpr()) + "," + ser(CO->getFalseExpr()) + attrs(E, false) + "]";
    if (const auto *AS = dyn_cast<ArraySubscriptExpr>(E)) {
      // bound, if the base is an array of known size
      std::string extra = vt(E);
      const Expr *B = AS->getBase()->IgnoreParenImpCasts();
      if (const auto *CAT = Ctx.getAsConstantArrayType(B->getType()))
        extra += ",\"bound\":" + llvm::toString(CAT->getSize(), 10, false);
      return "[\"idx\"," + ser(AS->getBase()) + "," + ser(AS->getIdx()) + attrs(E, true, extra) + "]";
    }
    if (const auto *CE = dyn_cast<CallExpr>(E)) {
      std::string o = "[\"call\",";
      if (const FunctionDecl *FD = CE->getDirectCallee())
        o += "[\"func\"," + jstr(FD->getNameAsString()) + "]";
      else
        o += ser(CE->getCallee());
      o += ",[";
      for (unsigned i = 0; i < CE->getNumArgs(); i++) {
        if (i) o += ",";
        o += ser(CE->getArg(i));
      }
      std::string extra = vt(E);
      if (const FunctionDecl *FD = CE->getDirectCallee()) {
        // callee without a body anywhere in this TU (libc, intrinsics,
        // builtins): record which parameters are pointers to non-const, i.e.
        // through which the callee may store.
        const FunctionDecl *BodyDef = nullptr;
        bool hasB = FD->hasBody(BodyDef);
        // fortified libc inlines (memcpy & co. under _FORTIFY_SOURCE) and
        // intrinsics have bodies in system headers: still external to the repo
        if (!hasB || (BodyDef && SM.isInSystemHeader(SM.getExpansionLoc(BodyDef->getLocation())))) {
          extra += ",\"ext\":1,\"wp\":[";
          bool f = true;
          for (unsigned i = 0; i < FD->getNumParams(); i++) {
            QualType T = FD->getParamDecl(i)->getType();
            if (T->isPointerType() && !T->getPointeeType().isConstQualified() && !T->getPointeeType()->isFunctionType()) {
              if (!f) extra += ",";
              f = false;
              extra += std::to_string(i);
            }
          }
          extra += "]";
        }
      }
      o += "]" + attrs(E, true, extra) + "]";
      return o;
    }
    if (const auto *CS = dyn_cast<ExplicitCastExpr>(E)) {
      QualType T = CS->getType();
      std::string extra;
      if (T->isPointerType()) {
        QualType PT = T->getPointeeType();
        extra = std::string("\"pconst\":") + (PT.isConstQualified() ? "1" : "0");
      }
      return "[\"cast\"," + jstr(typeStr(T)) + "," + intType(T) + "," + ser(CS->getSubExpr()) + attrs(E, false, extra) + "]";
    }
    if (const auto *IC = dyn_cast<ImplicitCastExpr>(E)) {
      QualType T = IC->getType();
      std::string extra = "\"impl\":1";
      // conversion of an object pointer to void*: record the size of what it pointed to (byte-length rules)
      if (T->isVoidPointerType()) {
        const Expr *S = IC->getSubExpr()->IgnoreParenImpCasts();
        QualType ST = IC->getSubExpr()->getType();
        QualType PT;
        if (ST->isPointerType()) PT = ST->getPointeeType();
        if (PT.isNull() || PT->isVoidType()) {
          QualType S2 = S->getType();
          if (S2->isPointerType()) PT = S2->getPointeeType();
          else if (const ArrayType *AT = Ctx.getAsArrayType(S2)) PT = AT->getElementType();
        }
        if (!PT.isNull() && !PT->isVoidType() && !PT->isIncompleteType() && !PT->isFunctionType())
          extra += ",\"psz\":" + std::to_string(Ctx.getTypeSizeInChars(PT).getQuantity());
      }
      return "[\"cast\"," + jstr(typeStr(T)) + "," + intType(T) + "," + ser(IC->getSubExpr()) + attrs(E, false, extra) + "]";
    }
    if (const auto *VA = dyn_cast<VAArgExpr>(E))
      return "[\"va_arg\"," + jstr(typeStr(VA->getType())) + "," + ser(VA->getSubExpr()) + attrs(E, true) + "]";
    if (const auto *IL = dyn_cast<InitListExpr>(E)) {
      std::string o = "[\"initlist\",[";
      for (unsigned i = 0; i < IL->getNumInits(); i++) {
        if (i) o += ",";
        o += ser(IL->getInit(i));
      }
      o += "]]";
      return o;
    }
    if (const auto *SE = dyn_cast<StmtExpr>(E)) {
      (void)SE;
      return "[\"other\",\"stmtexpr\"]";
    }
    if (const auto *CLE = dyn_cast<CompoundLiteralExpr>(E))
      return "[\"complit\"," + ser(CLE->getInitializer()) + "]";
    if (isa<ImplicitValueInitExpr>(E))
      return "[\"int\",0]";
    if (const auto *OVE = dyn_cast<OpaqueValueExpr>(E))
      return ser(OVE->getSourceExpr());
    if (const auto *BCO = dyn_cast<BinaryConditionalOperator>(E))
      return "[\"cond\"," + ser(BCO->getCommon()) + "," + ser(BCO->getCommon()) + "," + ser(BCO->getFalseExpr()) + "]";
    return "[\"other\"," + jstr(E->getStmtClassName()) + "]";
  }

  std::map<const RecordDecl *, std::string> RecNames;
  std::string recName(const RecordDecl *RD) {
    auto it = RecNames.find(RD);
    if (it != RecNames.end())
      return it->second;
    std::string n = RD->getNameAsString();
    if (n.empty()) {
      if (const TypedefNameDecl *TD = RD->getTypedefNameForAnonDecl())
        n = TD->getNameAsString();
    }
    if (n.empty()) {
      // anonymous struct nested in a field: name by location
      n = "anon@" + locStr(RD->getLocation());
    }
    RecNames[RD] = n;
    return n;
  }

  std::string serStmt(const Stmt *S) {
    if (const auto *E = dyn_cast<Expr>(S))
      return ser(E);
    if (const auto *DS = dyn_cast<DeclStmt>(S)) {
      std::string o = "[\"decls\",[";
      bool first = true;
      for (const Decl *D : DS->decls()) {
        const auto *VD = dyn_cast<VarDecl>(D);
        if (!VD)
          continue;
        if (!first) o += ",";
        first = false;
        if (VD->hasGlobalStorage()) {
          o += "[\"sdecl\"," + jstr(globalName(VD)) + "]";
          continue;
        }
        std::string extra;
        if (const auto *VAT = Ctx.getAsVariableArrayType(VD->getType()))
          extra = ",\"vla\":" + ser(VAT->getSizeExpr());
        o += "[\"decl\"," + jstr(VD->getNameAsString()) + "," + std::to_string(localId(VD)) + "," +
             (VD->hasInit() ? ser(VD->getInit()) : std::string("null")) +
             ",{\"l\":" + std::to_string(lineOf(VD->getLocation())) + extra + "}]";
      }
      o += "]]";
      return o;
    }
    if (const auto *RS = dyn_cast<ReturnStmt>(S))
      return "[\"ret\"," + ser(RS->getRetValue()) + ",{\"l\":" + std::to_string(lineOf(RS->getBeginLoc())) + "}]";
    if (isa<GCCAsmStmt>(S)) {
      const auto *A = cast<GCCAsmStmt>(S);
      std::string o = "[\"asm\",[";
      for (unsigned i = 0; i < A->getNumOutputs(); i++) {
        if (i) o += ",";
        o += "[" + jstr(A->getOutputConstraint(i)) + "," + ser(A->getOutputExpr(i)) + "]";
      }
      o += "],[";
      for (unsigned i = 0; i < A->getNumInputs(); i++) {
        if (i) o += ",";
        o += "[" + jstr(A->getInputConstraint(i)) + "," + ser(A->getInputExpr(i)) + "]";
      }
      o += "],[";
      for (unsigned i = 0; i < A->getNumClobbers(); i++) {
        if (i) o += ",";
        o += jstr(A->getClobber(i));
      }
      o += "]]";
      return o;
    }
    return "[\"stmt\"," + jstr(S->getStmtClassName()) + "]";
  }

  // ---- APValue flattening for global initialisers
  void flat(const APValue &V, QualType T, std::string &o, int &count) {
    if (count > 400000) return;
    switch (V.getKind()) {
    case APValue::Int:
      o += llvm::toString(V.getInt(), 10);
      count++;
      return;
    case APValue::Float: {
      llvm::SmallString<32> s;
      V.getFloat().toString(s, 17);
      std::string v = s.str().str();
      if (v.find("Inf") != std::string::npos || v.find("NaN") != std::string::npos)
        v = "null";
      o += v;
      count++;
      return;
    }
    case APValue::Array: {
      o += "[";
      unsigned n = V.getArraySize(), ni = V.getArrayInitializedElts();
      QualType ET;
      if (const ArrayType *AT = Ctx.getAsArrayType(T))
        ET = AT->getElementType();
      for (unsigned i = 0; i < n; i++) {
        if (i) o += ",";
        if (i < ni)
          flat(V.getArrayInitializedElt(i), ET, o, count);
        else if (V.hasArrayFiller())
          flat(V.getArrayFiller(), ET, o, count);
        else
          o += "0";
      }
      o += "]";
      return;
    }
    case APValue::Struct: {
      o += "{";
      const RecordDecl *RD = T.isNull() ? nullptr : T->getAsRecordDecl();
      unsigned i = 0;
      bool first = true;
      if (RD) {
        for (const FieldDecl *FD : RD->fields()) {
          if (i >= V.getStructNumFields()) break;
          if (!first) o += ",";
          first = false;
          o += jstr(FD->getNameAsString()) + ":";
          flat(V.getStructField(i), FD->getType(), o, count);
          i++;
        }
      }
      o += "}";
      return;
    }
    case APValue::LValue: {
      if (V.isNullPointer()) {
        o += "null";
        return;
      }
      APValue::LValueBase B = V.getLValueBase();
      if (const ValueDecl *D = B.dyn_cast<const ValueDecl *>()) {
        std::string nm = D->getNameAsString();
        if (const auto *VD = dyn_cast<VarDecl>(D))
          nm = globalName(VD);
        o += "{\"addr\":" + jstr(nm) + ",\"off\":" + std::to_string(V.getLValueOffset().getQuantity()) +
             ",\"isfunc\":" + (isa<FunctionDecl>(D) ? "1" : "0") + "}";
        count++;
        return;
      }
      if (const Expr *E = B.dyn_cast<const Expr *>()) {
        if (const auto *SL = dyn_cast<StringLiteral>(E)) {
          o += "{\"str\":" + (SL->getCharByteWidth() == 1 ? jstr(SL->getString()) : std::string("\"?\"")) + "}";
          return;
        }
        if (const auto *CLE = dyn_cast<CompoundLiteralExpr>(E)) {
          (void)CLE;
          o += "{\"complit\":1}";
          return;
        }
      }
      o += "{\"lvalue\":\"?\"}";
      return;
    }
    case APValue::None:
    case APValue::Indeterminate:
      o += "0";
      return;
    default:
      o += "\"?\"";
      return;
    }
  }

  // zero value of a type, in the same shape flat() would give
  void flatZero(QualType T, std::string &o) {
    if (const ConstantArrayType *CAT = Ctx.getAsConstantArrayType(T)) {
      o += "[";
      uint64_t n = CAT->getSize().getZExtValue();
      for (uint64_t i = 0; i < n; i++) {
        if (i) o += ",";
        flatZero(CAT->getElementType(), o);
      }
      o += "]";
      return;
    }
    if (const RecordDecl *RD = T->getAsRecordDecl()) {
      o += "{";
      bool first = true;
      for (const FieldDecl *FD : RD->fields()) {
        if (!first) o += ",";
        first = false;
        o += jstr(FD->getNameAsString()) + ":";
        flatZero(FD->getType(), o);
        if (RD->isUnion()) break;
      }
      o += "}";
      return;
    }
    if (T->isPointerType()) { o += "null"; return; }
    o += "0";
  }

  // C initialisers: VarDecl::evaluateValue() refuses most aggregate
  // initialisers in C mode, so walk the (semantic) InitListExpr and fold the
  // scalar leaves one by one.
  void flatExpr(const Expr *E, QualType T, std::string &o, int &count) {
    if (count > 400000) { o += "0"; return; }
    const Expr *X = E->IgnoreParens();
    if (const auto *IL = dyn_cast<InitListExpr>(X)) {
      if (IL->isSemanticForm() == false && IL->getSemanticForm())
        IL = IL->getSemanticForm();
      if (const ConstantArrayType *CAT = Ctx.getAsConstantArrayType(T)) {
        uint64_t n = CAT->getSize().getZExtValue();
        QualType ET = CAT->getElementType();
        // char array initialised by a braced string
        if (IL->getNumInits() == 1 && isa<StringLiteral>(IL->getInit(0)->IgnoreParenImpCasts()) && ET->isAnyCharacterType()) {
          flatExpr(IL->getInit(0)->IgnoreParenImpCasts(), T, o, count);
          return;
        }
        o += "[";
        for (uint64_t i = 0; i < n; i++) {
          if (i) o += ",";
          if (i < IL->getNumInits())
            flatExpr(IL->getInit(i), ET, o, count);
          else if (IL->hasArrayFiller() && IL->getArrayFiller() && !isa<ImplicitValueInitExpr>(IL->getArrayFiller()))
            flatExpr(IL->getArrayFiller(), ET, o, count);
          else
            flatZero(ET, o);
        }
        o += "]";
        return;
      }
      if (const RecordDecl *RD = T->getAsRecordDecl()) {
        o += "{";
        unsigned i = 0;
        bool first = true;
        if (RD->isUnion()) {
          const FieldDecl *FD = IL->getInitializedFieldInUnion();
          if (FD && IL->getNumInits() >= 1) {
            o += jstr(FD->getNameAsString()) + ":";
            flatExpr(IL->getInit(0), FD->getType(), o, count);
          }
        } else {
          for (const FieldDecl *FD : RD->fields()) {
            if (FD->isUnnamedBitfield()) continue;
            if (!first) o += ",";
            first = false;
            o += jstr(FD->getNameAsString()) + ":";
            if (i < IL->getNumInits())
              flatExpr(IL->getInit(i), FD->getType(), o, count);
            else
              flatZero(FD->getType(), o);
            i++;
          }
        }
        o += "}";
        return;
      }
      // scalar in braces
      if (IL->getNumInits() == 1) {
        flatExpr(IL->getInit(0), T, o, count);
        return;
      }
      flatZero(T, o);
      return;
    }
    if (isa<ImplicitValueInitExpr>(X)) {
      flatZero(T, o);
      return;
    }
    if (const auto *SL = dyn_cast<StringLiteral>(X->IgnoreParenImpCasts())) {
      if (const ConstantArrayType *CAT = Ctx.getAsConstantArrayType(T)) {
        uint64_t n = CAT->getSize().getZExtValue();
        o += "[";
        for (uint64_t i = 0; i < n; i++) {
          if (i) o += ",";
          o += std::to_string(i < SL->getLength() ? SL->getCodeUnit(i) : 0);
          count++;
        }
        o += "]";
        return;
      }
    }
    Expr::EvalResult R;
    if (!E->isValueDependent() && E->EvaluateAsRValue(R, Ctx)) {
      flat(R.Val, T, o, count);
      return;
    }
    if (!E->isValueDependent() && E->getType()->isPointerType()) {
      Expr::EvalResult L;
      if (E->EvaluateAsRValue(L, Ctx, true)) {
        flat(L.Val, T, o, count);
        return;
      }
    }
    o += "\"?\"";
  }

  static bool deepConst(ASTContext &Ctx, QualType T) {
    // the object itself cannot be modified through its declared type
    if (T.isConstQualified())
      return true;
    if (const ArrayType *AT = Ctx.getAsArrayType(T))
      return deepConst(Ctx, AT->getElementType()) || Ctx.getBaseElementType(T).isConstQualified();
    return false;
  }

  std::string globalJson(const VarDecl *VD) {
    const VarDecl *Def = VD->getDefinition();
    const VarDecl *Use = Def ? Def : VD;
    QualType T = Use->getType();
    std::string o = "{";
    o += "\"name\":" + jstr(globalName(Use));
    o += ",\"loc\":" + jstr(locStr(Use->getLocation()));
    o += ",\"type\":" + jstr(typeStr(T));
    o += ",\"defined\":" + std::string(Def ? "true" : "false");
    o += ",\"static_local\":" + std::string(Use->isStaticLocal() ? "true" : "false");
    o += ",\"linkage\":" + jstr(Use->getStorageClass() == SC_Static ? "static" : (Use->getStorageClass() == SC_Extern ? "extern" : "none"));
    o += ",\"const\":" + std::string(deepConst(Ctx, T) ? "true" : "false");
    QualType BT = Ctx.getBaseElementType(T);
    o += ",\"elem_type\":" + jstr(typeStr(BT));
    bool isptr = BT->isPointerType();
    o += ",\"elem_ptr\":" + std::string(isptr ? "true" : "false");
    if (isptr) {
      QualType PT = BT->getPointeeType();
      o += ",\"pointee_const\":" + std::string((PT.isConstQualified() || PT->isFunctionType()) ? "true" : "false");
      o += ",\"pointee_func\":" + std::string(PT->isFunctionType() ? "true" : "false");
    }
    // record element: any pointer members to non-const?
    if (const RecordDecl *RD = BT->getAsRecordDecl()) {
      o += ",\"elem_record\":" + jstr(recName(RD));
    }
    // dims
    o += ",\"dims\":[";
    {
      QualType X = T;
      bool first = true;
      while (const ConstantArrayType *CAT = Ctx.getAsConstantArrayType(X)) {
        if (!first) o += ",";
        first = false;
        o += llvm::toString(CAT->getSize(), 10, false);
        X = CAT->getElementType();
      }
    }
    o += "]";
    if (!T->isIncompleteType())
      o += ",\"size\":" + std::to_string(Ctx.getTypeSizeInChars(T).getQuantity());
    if (Def && Def->hasInit()) {
      std::string iv;
      int count = 0;
      flatExpr(Def->getInit(), T, iv, count);
      o += ",\"init\":" + iv;
    }
    o += "}";
    return o;
  }

  std::string recordJson(const RecordDecl *RD) {
    const ASTRecordLayout &L = Ctx.getASTRecordLayout(RD);
    std::string o = "{\"name\":" + jstr(recName(RD));
    o += ",\"loc\":" + jstr(locStr(RD->getLocation()));
    o += ",\"union\":" + std::string(RD->isUnion() ? "true" : "false");
    o += ",\"size\":" + std::to_string(L.getSize().getQuantity());
    o += ",\"fields\":[";
    unsigned i = 0;
    for (const FieldDecl *FD : RD->fields()) {
      if (i) o += ",";
      QualType T = FD->getType();
      QualType BT = Ctx.getBaseElementType(T);
      o += "{\"name\":" + jstr(FD->getNameAsString());
      o += ",\"type\":" + jstr(typeStr(T));
      o += ",\"off\":" + std::to_string(L.getFieldOffset(i) / 8);
      if (!T->isIncompleteType())
        o += ",\"size\":" + std::to_string(Ctx.getTypeSizeInChars(T).getQuantity());
      o += ",\"ptr\":" + std::string(BT->isPointerType() ? "true" : "false");
      if (BT->isIntegralOrEnumerationType())
        o += ",\"bits\":" + std::to_string(Ctx.getTypeSize(BT)) + ",\"signed\":" + (BT->isSignedIntegerOrEnumerationType() ? "true" : "false");
      if (BT->isPointerType()) {
        QualType PT = BT->getPointeeType();
        o += ",\"pointee_const\":" + std::string((PT.isConstQualified() || PT->isFunctionType()) ? "true" : "false");
      }
      if (const RecordDecl *R2 = BT->getAsRecordDecl())
        o += ",\"record\":" + jstr(recName(R2));
      o += ",\"dims\":[";
      {
        QualType X = T;
        bool first = true;
        while (const ConstantArrayType *CAT = Ctx.getAsConstantArrayType(X)) {
          if (!first) o += ",";
          first = false;
          o += llvm::toString(CAT->getSize(), 10, false);
          X = CAT->getElementType();
        }
      }
      o += "]}";
      i++;
    }
    o += "]}";
    return o;
  }

  std::string functionJson(const FunctionDecl *FD) {
    CurFn = FD;
    LocalIds.clear();
    Locals.clear();
    std::string o = "{\"name\":" + jstr(FD->getNameAsString());
    o += ",\"file\":" + jstr(fileOf(FD->getLocation()));
    o += ",\"line\":" + std::to_string(lineOf(FD->getBeginLoc()));
    o += ",\"endline\":" + std::to_string(lineOf(FD->getEndLoc()));
    o += ",\"static\":" + std::string(FD->getStorageClass() == SC_Static ? "true" : "false");
    o += ",\"inline\":" + std::string(FD->isInlineSpecified() ? "true" : "false");
    o += ",\"variadic\":" + std::string(FD->isVariadic() ? "true" : "false");
    o += ",\"ret\":" + jstr(typeStr(FD->getReturnType()));
    o += ",\"params\":[";
    for (unsigned i = 0; i < FD->getNumParams(); i++) {
      if (i) o += ",";
      const ParmVarDecl *P = FD->getParamDecl(i);
      QualType T = P->getType();
      o += "{\"name\":" + jstr(P->getNameAsString()) + ",\"type\":" + jstr(typeStr(T));
      if (T->isIntegralOrEnumerationType())
        o += ",\"bits\":" + std::to_string(Ctx.getTypeSize(T)) + ",\"signed\":" + (T->isSignedIntegerOrEnumerationType() ? "true" : "false");
      // `T name[N]` parameters: the declared (documentary) array length
      if (const ConstantArrayType *OCAT = Ctx.getAsConstantArrayType(P->getOriginalType()))
        o += ",\"orig_dim\":" + llvm::toString(OCAT->getSize(), 10, false);
      if (T->isPointerType()) {
        QualType PT = T->getPointeeType();
        if (PT->isIntegralOrEnumerationType())
          o += ",\"pbits\":" + std::to_string(Ctx.getTypeSize(PT)) + ",\"psigned\":" + (PT->isSignedIntegerOrEnumerationType() ? "true" : "false");
        o += ",\"ptr\":true,\"pointee_const\":" + std::string(PT.isConstQualified() ? "true" : "false");
        if (const RecordDecl *RD = PT->getAsRecordDecl())
          o += ",\"record\":" + jstr(recName(RD));
      }
      o += "}";
    }
    o += "]";
    CFG::BuildOptions BO;
    BO.PruneTriviallyFalseEdges = false;
    BO.AddImplicitDtors = false;
    BO.AddTemporaryDtors = false;
    std::unique_ptr<CFG> G = CFG::buildCFG(FD, FD->getBody(), &Ctx, BO);
    if (!G) {
      o += ",\"cfg\":null}";
      CurFn = nullptr;
      return o;
    }
    // Elements that are sub-expressions of another element (the default CFG
    // lists calls, return operands and ?:/&&/|| operands separately) are not
    // emitted twice: the enclosing element carries them fully serialised.
    std::set<const Stmt *> ElemSet, Nested;
    for (const CFGBlock *B : *G)
      for (const CFGElement &El : *B)
        if (auto CS = El.getAs<CFGStmt>())
          ElemSet.insert(CS->getStmt());
    for (const Stmt *S : ElemSet) {
      std::vector<const Stmt *> work;
      for (const Stmt *C : S->children())
        if (C) work.push_back(C);
      while (!work.empty()) {
        const Stmt *C = work.back();
        work.pop_back();
        if (ElemSet.count(C)) Nested.insert(C);
        for (const Stmt *D : C->children())
          if (D) work.push_back(D);
      }
    }
    o += ",\"entry\":" + std::to_string(G->getEntry().getBlockID());
    o += ",\"exit\":" + std::to_string(G->getExit().getBlockID());
    o += ",\"blocks\":[";
    bool firstB = true;
    for (const CFGBlock *B : *G) {
      if (!firstB) o += ",";
      firstB = false;
      o += "{\"id\":" + std::to_string(B->getBlockID());
      // label
      if (const Stmt *Lb = B->getLabel()) {
        if (const auto *CS = dyn_cast<CaseStmt>(Lb)) {
          Expr::EvalResult R;
          std::string lo = "null", hi = "null";
          if (CS->getLHS()->EvaluateAsInt(R, Ctx))
            lo = llvm::toString(R.Val.getInt(), 10);
          hi = lo;
          if (CS->getRHS() && CS->getRHS()->EvaluateAsInt(R, Ctx))
            hi = llvm::toString(R.Val.getInt(), 10);
          std::vector<std::string> ms;
          if (CS->getLHS()->getBeginLoc().isMacroID())
            macroChain(CS->getLHS()->getBeginLoc(), CS->getLHS()->getEndLoc(), ms);
          o += ",\"label\":{\"case\":[" + lo + "," + hi + "],\"l\":" + std::to_string(lineOf(CS->getBeginLoc()));
          if (!ms.empty())
            o += ",\"m\":" + jstr(ms[0]);
          o += "}";
        } else if (isa<DefaultStmt>(Lb)) {
          o += ",\"label\":{\"default\":true,\"l\":" + std::to_string(lineOf(Lb->getBeginLoc())) + "}";
        } else if (const auto *LS = dyn_cast<LabelStmt>(Lb)) {
          o += ",\"label\":{\"name\":" + jstr(LS->getName()) + "}";
        }
      }
      o += ",\"stmts\":[";
      bool firstS = true;
      // The value a block branches on is its last element (for && / || / ?:
      // terminators that is the last leaf evaluated, not the whole syntactic
      // condition).  succ[0] = true edge, succ[1] = false edge.
      const Stmt *TermCond = nullptr;
      if (B->getTerminatorStmt() && B->succ_size() >= 2 && B->getTerminatorCondition(false)) {
        for (const CFGElement &El : *B)
          if (auto CS = El.getAs<CFGStmt>())
            TermCond = CS->getStmt();
      }
      for (const CFGElement &El : *B) {
        if (auto CS = El.getAs<CFGStmt>()) {
          const Stmt *S = CS->getStmt();
          if (Nested.count(S) || S == TermCond) continue;
          if (!firstS) o += ",";
          firstS = false;
          o += serStmt(S);
        }
      }
      o += "]";
      // terminator
      if (const Stmt *T = B->getTerminatorStmt()) {
        std::string kind = T->getStmtClassName();
        o += ",\"term\":{\"kind\":" + jstr(kind) + ",\"l\":" + std::to_string(lineOf(T->getBeginLoc()));
        if (TermCond)
          if (const auto *TE = dyn_cast<Expr>(TermCond))
            o += ",\"cond\":" + ser(TE);
        if (const auto *GS = dyn_cast<GotoStmt>(T))
          o += ",\"goto\":" + jstr(GS->getLabel()->getName());
        o += "}";
      }
      o += ",\"succ\":[";
      bool firstE = true;
      for (auto it = B->succ_begin(); it != B->succ_end(); ++it) {
        if (!firstE) o += ",";
        firstE = false;
        const CFGBlock *S = it->getReachableBlock();
        if (!S) S = it->getPossiblyUnreachableBlock();
        o += S ? std::to_string(S->getBlockID()) : std::string("null");
      }
      o += "]}";
    }
    o += "]";
    // locals table
    o += ",\"locals\":[";
    for (size_t i = 0; i < Locals.size(); i++) {
      if (i) o += ",";
      const VarDecl *VD = Locals[i];
      QualType T = VD->getType();
      o += "{\"id\":" + std::to_string(i) + ",\"name\":" + jstr(VD->getNameAsString()) + ",\"type\":" + jstr(typeStr(T));
      if (const ConstantArrayType *CAT = Ctx.getAsConstantArrayType(T))
        o += ",\"dim\":" + llvm::toString(CAT->getSize(), 10, false);
      if (T->isPointerType()) {
        QualType PT = T->getPointeeType();
        o += ",\"ptr\":true";
        if (const RecordDecl *RD = PT->getAsRecordDecl())
          o += ",\"record\":" + jstr(recName(RD));
      }
      if (T->isIntegralOrEnumerationType())
        o += ",\"bits\":" + std::to_string(Ctx.getTypeSize(T)) + ",\"signed\":" + (T->isSignedIntegerOrEnumerationType() ? "true" : "false");
      o += "}";
    }
    o += "]}";
    CurFn = nullptr;
    return o;
  }
};

class Visitor : public RecursiveASTVisitor<Visitor> {
public:
  Extractor &X;
  std::vector<const VarDecl *> Globals;
  std::set<const VarDecl *> SeenG;
  std::vector<const RecordDecl *> Records;
  std::vector<const FunctionDecl *> Funcs;
  std::vector<const FunctionDecl *> Protos;
  explicit Visitor(Extractor &x) : X(x) {}
  bool VisitVarDecl(VarDecl *VD) {
    if (!VD->hasGlobalStorage())
      return true;
    if (isa<ParmVarDecl>(VD))
      return true;
    if (X.SM.isInSystemHeader(X.SM.getExpansionLoc(VD->getLocation())))
      return true;
    const VarDecl *C = VD->getCanonicalDecl();
    if (SeenG.insert(C).second)
      Globals.push_back(VD);
    return true;
  }
  bool VisitRecordDecl(RecordDecl *RD) {
    if (!RD->isCompleteDefinition())
      return true;
    if (X.SM.isInSystemHeader(X.SM.getExpansionLoc(RD->getLocation())))
      return true;
    if (RD->isInvalidDecl())
      return true;
    Records.push_back(RD);
    return true;
  }
  bool VisitFunctionDecl(FunctionDecl *FD) {
    if (X.SM.isInSystemHeader(X.SM.getExpansionLoc(FD->getLocation())))
      return true;
    if (FD->isThisDeclarationADefinition() && FD->hasBody())
      Funcs.push_back(FD);
    else
      Protos.push_back(FD);
    return true;
  }
};

class Consumer : public ASTConsumer {
  CompilerInstance &CI;
  std::string InFile;

public:
  Consumer(CompilerInstance &ci, llvm::StringRef f) : CI(ci), InFile(f.str()) {}
  void HandleTranslationUnit(ASTContext &Ctx) override {
    if (CI.getDiagnostics().hasErrorOccurred()) {
      llvm::errs() << "opusfacts: parse errors in " << InFile << "\n";
    }
    Extractor X(Ctx, CI.getPreprocessor());
    X.Root = RepoRoot;
    Visitor V(X);
    V.TraverseDecl(Ctx.getTranslationUnitDecl());
    std::string o = "{\"tu\":" + jstr(X.relPath(InFile));
    o += ",\"errors\":" + std::string(CI.getDiagnostics().hasErrorOccurred() ? "true" : "false");
    // macros of interest: every object-like macro whose name ends in
    // _RESET_START, plus the NONTHREADSAFE_PSEUDOSTACK / VAR_ARRAYS /
    // USE_ALLOCA configuration switches (is-defined only).
    o += ",\"macros\":{";
    {
      Preprocessor &PP = CI.getPreprocessor();
      bool first = true;
      for (auto it = PP.macro_begin(); it != PP.macro_end(); ++it) {
        const IdentifierInfo *II = it->first;
        llvm::StringRef n = II->getName();
        bool want = n.endswith("_RESET_START") || n == "NONTHREADSAFE_PSEUDOSTACK" ||
                    n == "VAR_ARRAYS" || n == "USE_ALLOCA" || n == "FIXED_POINT" ||
                    n == "ENABLE_HARDENING" || n == "ENABLE_ASSERTIONS" || n == "CUSTOM_MODES" ||
                    n == "DISABLE_FLOAT_API" || n == "ENABLE_RES24" || n == "FUZZING" ||
                    n.startswith("OPUS_X86_") || n == "OPUS_HAVE_RTCD" || n == "OPUS_ARCHMASK" ||
                    n == "ENABLE_DRED" || n == "ENABLE_DEEP_PLC" || n == "ENABLE_OSCE" || n == "ENABLE_QEXT";
        if (!want) continue;
        const MacroInfo *MI = PP.getMacroInfo(II);
        if (!MI) continue;
        std::string body;
        for (const Token &T : MI->tokens()) {
          if (!body.empty()) body += " ";
          body += PP.getSpelling(T);
        }
        if (!first) o += ",";
        first = false;
        o += jstr(n) + ":" + jstr(body);
      }
    }
    o += "}";
    o += ",\"globals\":[";
    for (size_t i = 0; i < V.Globals.size(); i++) {
      if (i) o += ",";
      o += X.globalJson(V.Globals[i]);
    }
    o += "],\"records\":[";
    {
      bool first = true;
      std::set<std::string> seen;
      for (const RecordDecl *RD : V.Records) {
        std::string n = X.recName(RD);
        if (!seen.insert(n).second) continue;
        if (!first) o += ",";
        first = false;
        o += X.recordJson(RD);
      }
    }
    o += "],\"protos\":[";
    {
      bool first = true;
      std::set<std::string> seen;
      for (const FunctionDecl *FD : V.Protos) {
        std::string n = FD->getNameAsString();
        if (!seen.insert(n).second) continue;
        if (!first) o += ",";
        first = false;
        o += "{\"name\":" + jstr(n) + ",\"file\":" + jstr(X.fileOf(FD->getLocation())) + ",\"ptr_params\":[";
        bool f2 = true;
        for (unsigned i = 0; i < FD->getNumParams(); i++) {
          QualType T = FD->getParamDecl(i)->getType();
          if (T->isPointerType()) {
            if (!f2) o += ",";
            f2 = false;
            o += "[" + std::to_string(i) + "," + (T->getPointeeType().isConstQualified() ? "1" : "0") + "]";
          }
        }
        o += "]}";
      }
    }
    o += "],\"functions\":[";
    for (size_t i = 0; i < V.Funcs.size(); i++) {
      if (i) o += ",";
      o += X.functionJson(V.Funcs[i]);
    }
    o += "]}\n";
    if (OutFile == "-") {
      llvm::outs() << o;
    } else {
      std::error_code EC;
      llvm::raw_fd_ostream OS(OutFile, EC);
      if (EC) {
        llvm::errs() << "cannot write " << OutFile << "\n";
        exit(3);
      }
      OS << o;
    }
  }
};

class Action : public ASTFrontendAction {
public:
  std::unique_ptr<ASTConsumer> CreateASTConsumer(CompilerInstance &CI,
                                                 llvm::StringRef InFile) override {
    return std::make_unique<Consumer>(CI, InFile);
  }
};

} // namespace

int main(int argc, const char **argv) {
  auto Exp = CommonOptionsParser::create(argc, argv, Cat);
  if (!Exp) {
    llvm::errs() << llvm::toString(Exp.takeError());
    return 2;
  }
  CommonOptionsParser &OP = Exp.get();
  ClangTool Tool(OP.getCompilations(), OP.getSourcePathList());
  return Tool.run(newFrontendActionFactory<Action>().get());
}
