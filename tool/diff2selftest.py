#!/usr/bin/env python3
"""turn a unified diff into selftest edit entries (find = old hunk text, replace = new hunk text)
usage: diff2selftest.py <diff> <Cxx> <name> <rule>   (appends to selftest/Cxx.json)"""
import sys, json, re, os
diff, prop, name, rule = sys.argv[1:5]
edits = []
cur = None
old = new = None
def flush():
    global old, new
    if old is not None and cur:
        edits.append({'file': cur, 'find': ''.join(old), 'replace': ''.join(new)})
    old = new = None
for line in open(diff, errors='replace'):
    if line.startswith('+++ '):
        flush()
        cur = re.sub(r'^b/', '', line[4:].strip().split('\t')[0])
    elif line.startswith('--- ') or line.startswith('diff ') or line.startswith('index '):
        flush()
    elif line.startswith('@@'):
        flush()
        old, new = [], []
    elif old is not None:
        if line.startswith(' '):
            old.append(line[1:]); new.append(line[1:])
        elif line.startswith('-'):
            old.append(line[1:])
        elif line.startswith('+'):
            new.append(line[1:])
flush()
root = os.path.dirname(os.path.dirname(os.path.abspath(__file__)))
p = os.path.join(root, 'selftest', prop + '.json')
d = json.load(open(p))
d = [v for v in d if v['name'] != name]
d.append({'name': name, 'rule': rule, 'edits': edits})
json.dump(d, open(p, 'w'), indent=1)
for e in edits:
    src = open('/repo/' + e['file'], errors='replace').read()
    print(e['file'], 'find occurs', src.count(e['find']))
