#!/usr/bin/env python3
"""keepmut.py <PROP> <k> <slug> <caught-by or 'missed'> <needs...>  : copy a confirmed sub-agent mutant from /tmp/mut/<PROP>_out into seeded/<PROP>-<slug>/"""
import sys, os, shutil, json
prop, k, slug, caught = sys.argv[1:5]
needs = ' '.join(sys.argv[5:])
src = '/tmp/mut/%s_out' % prop
dst = os.path.join(os.path.dirname(os.path.dirname(os.path.abspath(__file__))), 'seeded', '%s-%s' % (prop, slug))
os.makedirs(dst, exist_ok=True)
shutil.copy(os.path.join(src, 'm%s.diff' % k), os.path.join(dst, 'patch.diff'))
shutil.copy(os.path.join(src, 'm%s_demo.c' % k), os.path.join(dst, 'demo.c'))
if os.path.exists(os.path.join(src, 'm%s.md' % k)):
    shutil.copy(os.path.join(src, 'm%s.md' % k), os.path.join(dst, 'notes.md'))
meta = {'property': prop, 'origin': 'independent sub-agent given only the property text and a scratch worktree',
        'needs_to_manifest': needs,
        'confirmed': 'in a scratch worktree of /repo HEAD: demo exits 0 on the pristine tree and non-zero with patch.diff applied; ctest (5 tests) passes with the patch; /tmp/mut/verify.sh',
        'ran': 'git -C /repo apply patch.diff; bin/check %s --tier quick; git -C /repo checkout -- .' % prop,
        'detected_by': caught}
json.dump(meta, open(os.path.join(dst, 'meta.json'), 'w'), indent=1)
print(dst)
