#!/bin/bash
# usage: trymut.sh <patch.diff> <Cxx> [Cxx...]  -- apply to /repo, run quick checks, always revert
diff=$1; shift
cd /repo && [ -z "$(git status --porcelain --untracked-files=no)" ] || { echo "/repo dirty"; exit 9; }
git apply "$diff" || { echo APPLY-FAIL; exit 8; }
cd /verif
for p in "$@"; do
  bin/check $p --tier quick > /tmp/trymut_$p.log 2>&1; rc=$?
  echo "$p exit=$rc  $(grep -c '^VIOLATION' /tmp/trymut_$p.log) violation(s)"
  grep -E '^   violated|^ANALYSIS-BROKEN' /tmp/trymut_$p.log | cut -c1-300 | head -6
done
git -C /repo checkout -- .
git -C /verif checkout -- evidence 2>/dev/null
