/* Replay for C12 / R12.7: OPUS_RESET_STATE keeps OpusEncoder.voice_ratio.
 *
 * voice_ratio sits before OPUS_ENCODER_RESET_START (it has a private SET request), but the encoder
 * overwrites it on every non-silent frame with the speech/music estimate of the analysis and keeps that
 * value across silent frames.  A reset encoder therefore carries the estimate of its earlier audio:
 * if the frames that follow the reset start with digital silence the stale estimate drives the mode
 * decision, and the packets differ from those of a new encoder configured the same way.
 *
 *   cc -I/repo/include findings/c12_reset_keeps_voice_ratio.c <build>/libopus.a -lm -o replay && ./replay
 * exits 1 (prints the differing packets) on the defective tree, 0 when reset and fresh agree.
 * (first reproduced by an independent sub-agent while reading the code; R12.7 reports the field since its
 *  "also a SET request" exemption was narrowed to save/modify/restore uses.)
 */
#include <stdio.h>
#include <stdlib.h>
#include <string.h>
#include <math.h>
#include "opus.h"

static unsigned lcg(unsigned *s) { *s = *s * 1664525u + 1013904223u; return *s >> 8; }

static int run(int bitrate)
{
   int err, f, i, bad = 0;
   unsigned s = 1;
   double ph = 0;
   static float pcm[960];
   unsigned char pa[1500], pb[1500];
   OpusEncoder *A = opus_encoder_create(48000, 1, OPUS_APPLICATION_AUDIO, &err);
   OpusEncoder *B = opus_encoder_create(48000, 1, OPUS_APPLICATION_AUDIO, &err);
   opus_encoder_ctl(A, OPUS_SET_BITRATE(bitrate));
   opus_encoder_ctl(B, OPUS_SET_BITRATE(bitrate));
   /* history for A only: 2 s of a harmonic tone (analysis says "music") */
   for (f = 0; f < 100; f++) {
      for (i = 0; i < 960; i++) {
         ph += 2 * M_PI * (120 + 20 * sin(f * .1)) / 48000;
         pcm[i] = 0.3 * (sin(ph) + .5 * sin(2 * ph) + .3 * sin(3 * ph)) * (0.5 + 0.5 * sin(f * 0.3));
      }
      opus_encode_float(A, pcm, 960, pa, 1500);
   }
   opus_encoder_ctl(A, OPUS_RESET_STATE);
   /* both now get 8 frames of digital silence, then noise */
   for (f = 0; f < 30; f++) {
      int la, lb;
      for (i = 0; i < 960; i++) {
         float n = ((int)(lcg(&s) & 0xffff) - 32768) / 32768.f;
         pcm[i] = f < 8 ? 0 : 0.2f * n;
      }
      la = opus_encode_float(A, pcm, 960, pa, 1500);
      lb = opus_encode_float(B, pcm, 960, pb, 1500);
      if (la != lb || memcmp(pa, pb, la)) {
         if (bad < 4) printf("  %d b/s frame %d: reset encoder len %d toc %02x, new encoder len %d toc %02x\n", bitrate, f, la, pa[0], lb, pb[0]);
         bad++;
      }
   }
   opus_encoder_destroy(A);
   opus_encoder_destroy(B);
   return bad;
}

int main(void)
{
   int rates[] = {10000, 12000, 14000, 20000, 32000}, i, total = 0;
   for (i = 0; i < 5; i++) {
      int b = run(rates[i]);
      printf("%d b/s: %d of 30 packets differ between the reset and the new encoder\n", rates[i], b);
      total += b;
   }
   printf(total ? "FAIL: reset != fresh\n" : "PASS\n");
   return total ? 1 : 0;
}
