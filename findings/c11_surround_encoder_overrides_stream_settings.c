/* Replay for C11 / R11.12 (known finding, not repaired; reproduced by an independent sub-agent): the surround multistream
 * encoder re-issues OPUS_SET_BANDWIDTH / OPUS_SET_FORCE_MODE / OPUS_SET_FORCE_CHANNELS on its stream encoders in every
 * encode call, so OPUS_SET_MAX_BANDWIDTH, OPUS_SET_BANDWIDTH and OPUS_SET_FORCE_CHANNELS made through
 * opus_multistream_encoder_ctl are accepted and then ignored (5.1 with max bandwidth NB -> fullband packets).
 *   cc -I/repo/include findings/c11_surround_encoder_overrides_stream_settings.c <build>/libopus.a -lm -o replay && ./replay */
/* Pristine-tree finding: a surround multistream encoder (mapping family 1,
 * more than 2 channels) accepts OPUS_SET_MAX_BANDWIDTH / OPUS_SET_BANDWIDTH /
 * OPUS_SET_FORCE_CHANNELS before the first frame (returns OPUS_OK;
 * OPUS_GET_FORCE_CHANNELS reports the value; OPUS_GET_MAX_BANDWIDTH is not
 * implemented on multistream encoders at all and leaves its argument alone)
 * and then ignores them: opus_multistream_encode_native() re-issues
 * OPUS_SET_BANDWIDTH(<rate-derived>) on every stream and
 * OPUS_SET_FORCE_CHANNELS(2) on every coupled stream on every call, and a
 * forced bandwidth overrides max_bandwidth in opus_encode_native().
 *
 * cc -I/tmp/mut/C11/include extra_pristine_1.c /tmp/mut/C11/_build/libopus.a -lm -o extra_pristine_1 && ./extra_pristine_1
 * prints FAIL / exits 1 on the unmodified tree.
 */
#include <stdio.h>
#include <stdlib.h>
#include <math.h>
#include <opus.h>
#include <opus_multistream.h>

static unsigned rng=1;
static int rnd(void){rng=rng*1664525u+1013904223u;return (rng>>16)&0x7fff;}

/* kind 0: SET_MAX_BANDWIDTH(arg); 1: SET_BANDWIDTH(arg); 2: SET_FORCE_CHANNELS(arg) */
static int run(int channels, int family, int kind, int arg, opus_int32 bitrate)
{
   static const char *names[] = {"OPUS_SET_MAX_BANDWIDTH", "OPUS_SET_BANDWIDTH", "OPUS_SET_FORCE_CHANNELS"};
   int err, streams, coupled, i, s, t=0, fail=0;
   unsigned char mapping[255];
   unsigned char pkt[8000];
   short *pcm = malloc(sizeof(short)*960*channels);
   short *out = malloc(sizeof(short)*960*channels);
   OpusMSEncoder *e = opus_multistream_surround_encoder_create(48000, channels, family, &streams, &coupled, mapping, OPUS_APPLICATION_AUDIO, &err);
   OpusMSDecoder *d = opus_multistream_decoder_create(48000, channels, streams, coupled, mapping, &err);
   opus_int32 got=-1;
   if (!e||!d) exit(2);
   if (kind==0) { err = opus_multistream_encoder_ctl(e, OPUS_SET_MAX_BANDWIDTH(arg)); opus_multistream_encoder_ctl(e, OPUS_GET_MAX_BANDWIDTH(&got)); }
   else if (kind==1) err = opus_multistream_encoder_ctl(e, OPUS_SET_BANDWIDTH(arg));
   else { err = opus_multistream_encoder_ctl(e, OPUS_SET_FORCE_CHANNELS(arg)); opus_multistream_encoder_ctl(e, OPUS_GET_FORCE_CHANNELS(&got)); }
   printf("%d channels, family %d, %d streams (%d coupled): %s(%d) returned %d (getter: %d), bitrate %d\n",
          channels, family, streams, coupled, names[kind], arg, err, got, bitrate);
   if (err!=OPUS_OK) exit(2);
   opus_multistream_encoder_ctl(e, OPUS_SET_BITRATE(bitrate));
   for (i=0;i<10;i++) {
      int j,c,len,n;
      const unsigned char *p;
      for (j=0;j<960;j++,t++) for (c=0;c<channels;c++)
         pcm[j*channels+c]=(short)(4000*sin(2*M_PI*(200+170*c)*t/48000.)+rnd()%2000-1000);
      len = opus_multistream_encode(e, pcm, 960, pkt, sizeof(pkt));
      if (len<=0) exit(2);
      n = opus_multistream_decode(d, pkt, len, out, 960, 0);
      if (n!=960) exit(2);
      /* first stream's TOC is the first byte of the multistream packet */
      p = pkt;
      if (i==9) {
         if (kind==2) {
            printf("   stream 0: packet has %d channel(s), forced %d\n", opus_packet_get_nb_channels(p), arg);
            if (opus_packet_get_nb_channels(p)!=arg) fail=1;
         } else for (s=0;s<streams;s++) {
            OpusDecoder *sd; opus_int32 bw;
            /* the per-stream decoder reports the bandwidth of the packet it just decoded */
            opus_multistream_decoder_ctl(d, OPUS_MULTISTREAM_GET_DECODER_STATE(s, &sd));
            opus_decoder_ctl(sd, OPUS_GET_BANDWIDTH(&bw));
            printf("   stream %d: packet bandwidth %d, limit %d%s\n", s, bw, arg, bw>arg?"  <-- exceeds":"");
            if (bw>arg) fail=1;
         }
      }
   }
   opus_multistream_encoder_destroy(e);
   opus_multistream_decoder_destroy(d);
   free(pcm); free(out);
   return fail;
}

int main(void)
{
   int f=0;
   /* control: the same requests on a non-surround (family 255) encoder are honoured */
   if (run(6,255,0,OPUS_BANDWIDTH_NARROWBAND,256000) || run(6,255,1,OPUS_BANDWIDTH_NARROWBAND,256000)) { printf("control failed\n"); return 2; }
   f|=run(6,1,0,OPUS_BANDWIDTH_NARROWBAND,256000);
   f|=run(6,1,1,OPUS_BANDWIDTH_NARROWBAND,256000);
   f|=run(3,1,0,OPUS_BANDWIDTH_WIDEBAND,128000);
   f|=run(6,1,2,1,256000);
   printf(f?"FAIL\n":"PASS\n");
   return f;
}
