/* C11 / R11.7: opus_encode_native() used to store st->force_channels = 1 in the
   multi-frame path.  48 kHz stereo, SILK-only, 80 ms frames, bitrate 48000 then
   8000: OPUS_GET_FORCE_CHANNELS returned 1 although it was never set.
   cc -I/repo/include this.c /repo/_build/libopus.a -lm */
#include <stdio.h>
#include <math.h>
#include "opus.h"
int main(void){
  int err,i,k; OpusEncoder *e=opus_encoder_create(48000,2,OPUS_APPLICATION_VOIP,&err);
  static short pcm[3840*2]; unsigned char out[4000]; opus_int32 fc=0;
  opus_encoder_ctl(e,11002,(opus_int32)1000); /* OPUS_SET_FORCE_MODE(MODE_SILK_ONLY), private request */
  for(k=0;k<12;k++){
    for(i=0;i<3840;i++){ pcm[2*i]=(short)(8000*sin(0.01*(i+3840*k))); pcm[2*i+1]=(short)(6000*sin(0.013*(i+3840*k))); }
    opus_encoder_ctl(e,OPUS_SET_BITRATE(k<5?48000:8000));
    int n=opus_encode(e,pcm,3840,out,sizeof out);
    opus_encoder_ctl(e,OPUS_GET_FORCE_CHANNELS(&fc));
    printf("packet %d len %d force_channels=%d\n",k,n,fc);
  }
  return fc==OPUS_AUTO?0:1; }
