#include <stdio.h>
#include <math.h>
#include "opus.h"
#define FS 48000
#define FRAME 960
int main(void){
  int err,f,i; OpusEncoder *ea=opus_encoder_create(FS,1,OPUS_APPLICATION_VOIP,&err);
  OpusEncoder *eb=opus_encoder_create(FS,1,OPUS_APPLICATION_RESTRICTED_LOWDELAY,&err);
  opus_encoder_ctl(ea,OPUS_SET_BITRATE(12000)); opus_encoder_ctl(ea,OPUS_SET_MAX_BANDWIDTH(OPUS_BANDWIDTH_WIDEBAND));
  OpusDecoder *d0=opus_decoder_create(FS,1,&err),*d1=opus_decoder_create(FS,1,&err);
  int g=-1536; double G=pow(10,g/5120.0); opus_decoder_ctl(d1,OPUS_SET_GAIN(g));
  static float in[FRAME],o0[FRAME],o1[FRAME]; unsigned char pa[1500],pb[1500]; double ph=0;
  for(f=0;f<12;f++){
    for(i=0;i<FRAME;i++){ph+=2*3.14159265*300.0/FS; in[i]=0.3*sin(ph)+0.1*sin(ph*3.1);}
    int la=opus_encode_float(ea,in,FRAME,pa,1500), lb=opus_encode_float(eb,in,FRAME,pb,1500);
    int useb=(f/3)&1; unsigned char*p=useb?pb:pa; int l=useb?lb:la;
    opus_decode_float(d0,p,l,o0,FRAME,0); opus_decode_float(d1,p,l,o1,FRAME,0);
    double worst=0; int wi=-1; for(i=0;i<FRAME;i++){double e=fabs(o1[i]-o0[i]*G); if(e>worst){worst=e;wi=i;}}
    printf("frame %d toc=%02x worst err %.3g at %d (o0=%g o1=%g ratio=%g)\n",f,p[0],worst,wi,o0[wi],o1[wi],o1[wi]/o0[wi]);
  }
  return 0;}
