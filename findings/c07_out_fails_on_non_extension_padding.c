/* Replay (reproduced by an independent sub-agent on the unmodified tree; fixed in /repo).
 *   cc -I/repo/include findings/c07_out_fails_on_non_extension_padding.c <build>/libopus.a -lm -o replay && ./replay   (exit 1 = defect present)
 * # Pristine finding 2 - valid packets whose padding is not a well-formed extension stream cannot be re-emitted or padded
 * RFC 6716 3.2.5: padding bytes may have any value and MUST be ignored by the decoder. cat() accepts such a
 * packet (and opus_decode() decodes it), but opus_repacketizer_out()/out_range() run opus_packet_extensions_parse()
 * over the padding and return OPUS_INTERNAL_ERROR (-3) when it does not parse (here padding = {0x41,0x05}: long
 * extension id 32 announcing 5 bytes that are not there). opus_packet_pad() on the same packet fails the same
 * way; opus_packet_unpad() works because it discards the padding first. Violates "accepts a packet exactly when
 * it is valid ... and emits packets that parse back to the selected frames" and "padding to any new length".
 * Repro: cc -I/tmp/mut/C07/include extra_pristine_2.c /tmp/mut/C07/_build/libopus.a -lm -o xp2 && ./xp2
 * Observed on pristine HEAD: "decode -> 960", "cat -> 0", "out -> -3 (internal error)", "pad(+10) -> -3", FAIL, exit 1.
 */
/* Pristine finding 2: RFC 6716 lets padding bytes hold any value (decoders
   MUST ignore them).  A valid packet whose padding does not parse as an
   extension stream is accepted by cat() and decodes fine, but
   opus_repacketizer_out() and opus_packet_pad() then fail with
   OPUS_INTERNAL_ERROR. */
#include <stdio.h>
#include <string.h>
#include "opus.h"

int main(void)
{
   unsigned char pkt[64], out[4096], buf[256];
   opus_int16 pcm[5760];
   OpusRepacketizer *rp = opus_repacketizer_create();
   OpusDecoder *dec;
   int n = 0, ret, err, fail = 0;
   pkt[n++] = (31<<3)|3;      /* CELT FB 20 ms mono, code 3 */
   pkt[n++] = 0x40|1;         /* 1 frame, padding */
   pkt[n++] = 2;              /* 2 bytes of padding */
   memset(pkt+n, 0x00, 4); n += 4;   /* frame */
   pkt[n++] = 0x41;           /* as an extension: id 32, L=1 ...        */
   pkt[n++] = 0x05;           /* ... length 5, but nothing follows      */
   dec = opus_decoder_create(48000, 1, &err);
   ret = opus_decode(dec, pkt, n, pcm, 5760, 0);
   printf("decode -> %d\n", ret);
   if (ret != 960) { printf("unexpected: packet not decodable\n"); return 2; }
   ret = opus_repacketizer_cat(rp, pkt, n);
   printf("cat -> %d\n", ret);
   if (ret != OPUS_OK) { printf("unexpected: cat refused\n"); return 2; }
   ret = opus_repacketizer_out(rp, out, sizeof(out));
   printf("out -> %d (%s)\n", ret, ret<0?opus_strerror(ret):"ok");
   if (ret < 0) fail = 1;
   memcpy(buf, pkt, n);
   ret = opus_packet_pad(buf, n, n+10);
   printf("pad(+10) -> %d (%s)\n", ret, ret<0?opus_strerror(ret):"ok");
   if (ret != OPUS_OK) fail = 1;
   memcpy(buf, pkt, n);
   ret = opus_packet_unpad(buf, n);
   printf("unpad -> %d\n", ret);
   printf(fail ? "FAIL\n" : "PASS\n");
   return fail;
}
