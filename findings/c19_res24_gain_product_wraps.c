/* finding_5 (side observation, fixed-point + ENABLE_RES24 only; not a format-relation bug but it
 * breaks "saturated" for all three output formats at once): with a large but legal OPUS_SET_GAIN the
 * decoder output WRAPS instead of saturating.
 *
 * Root cause: src/opus_decoder.c opus_decode_frame():
 *        x = MULT32_32_Q16(pcm[i],gain);  pcm[i] = SATURATE(x, 8388607);
 * MULT32_32_Q16 (celt/fixed_generic.h:62) casts the 64-bit product>>16 to opus_val32 BEFORE the
 * saturation.  pcm is Q23 (up to 2^23 and beyond), gain is Q16 and reaches 0x7f000000 for gains
 * above ~ +90 dB, so product>>16 needs up to 39 bits; from about +48 dB (gain value 12288) a
 * full-scale sample overflows 32 bits.  The RES16 build uses MULT16_32_P16 with a 16-bit sample and
 * cannot overflow.
 *
 *   cc -I/tmp/mut/HC13/include finding_5.c /tmp/mut/HC13/_build_fx24/libopus.a -lm -o finding_5 && ./finding_5
 */
#include <stdio.h>
#include <stdlib.h>
#include <math.h>
#include "opus.h"
int main(void)
{
   int err, f, i, fs = 960, wrong = 0, loud = 0, G = 15000;   /* 15000/256 = +58.6 dB, legal range is +/-32768 */
   OpusEncoder *e = opus_encoder_create(48000, 1, OPUS_APPLICATION_AUDIO, &err);
   OpusDecoder *d0 = opus_decoder_create(48000, 1, &err), *dg = opus_decoder_create(48000, 1, &err);
   double ph = 0, g = pow(10., G/256./20.);
   opus_encoder_ctl(e, OPUS_SET_BITRATE(128000));
   opus_decoder_ctl(dg, OPUS_SET_GAIN(G));
   for (f = 0; f < 10; f++)
   {
      opus_int16 in[960]; opus_int32 a[960], b[960]; unsigned char pkt[1500]; int n;
      for (i = 0; i < fs; i++) { in[i] = (opus_int16)lrint(20000*sin(ph)); ph += 2*M_PI*440/48000; }
      n = opus_encode(e, in, fs, pkt, sizeof pkt);
      if (opus_decode24(d0, pkt, n, a, fs, 0) != fs || opus_decode24(dg, pkt, n, b, fs, 0) != fs) return 2;
      for (i = 0; i < fs; i++)
      {
         if (fabs(a[i]*g) > 2*8388608.0)   /* clearly beyond full scale after the gain */
         {
            int expect = a[i] > 0 ? 8388607 : -8388607;
            loud++;
            if ((b[i] > 0) != (a[i] > 0) || abs(b[i]) < 8388352) { if (wrong < 5) printf("frame %d sample %d: without gain %d, x%.0f should saturate to about %d, got %d\n", f, i, a[i], g, expect, b[i]); wrong++; }
         }
      }
   }
   printf("%d of %d over-range samples are not saturated (wrapped)\n", wrong, loud);
   if (wrong) { printf("FAIL\n"); return 1; }
   printf("PASS\n"); return 0;
}
