/* C12 finding 1: opus_custom encoder output depends on uninitialised heap memory
   (stereo_analysis() reads mode->eBands[12..13] of a custom mode that has only 11 bands).

   Needs a CUSTOM_MODES build:
     cmake -G Ninja -B _build_cm -DOPUS_CUSTOM_MODES=ON -DCMAKE_C_FLAGS=-Wno-error && cmake --build _build_cm
     cc -I/tmp/mut/HC12/include finding_1.c /tmp/mut/HC12/_build_cm/libopus.a -lm -o finding_1 && ./finding_1

   Two modes are created with identical arguments (Fs=8000, frame_size=128), two encoders with identical
   (default) settings encode identical input.  The only difference is what free()d heap chunks contained
   before opus_custom_mode_create() was called. */
#include <stdio.h>
#include <stdlib.h>
#include <string.h>
#include <math.h>
#include "opus_custom.h"

#define NCH 64
static void dirty_heap(short v)
{
   /* leave freed small chunks filled with the 16-bit value v (glibc hands them out again, uncleared) */
   short *p[NCH]; int i, j;
   for (i=0;i<NCH;i++) { p[i]=malloc(28); for (j=0;j<14;j++) p[i][j]=v; }
   for (i=0;i<NCH;i++) free(p[i]);
}

static int run(short garbage, unsigned char out[][400], int *len, int nframes)
{
   int err, f, i;
   OpusCustomMode *mode;
   OpusCustomEncoder *enc;
   static float pcm[128*2];
   unsigned s=1;
   dirty_heap(garbage);
   mode = opus_custom_mode_create(8000, 128, &err);
   if (!mode) { printf("mode_create failed (%d): not a CUSTOM_MODES build?\n", err); exit(2); }
   enc = opus_custom_encoder_create(mode, 2, &err);
   if (!enc) exit(2);
   for (f=0;f<nframes;f++)
   {
      for (i=0;i<128;i++)
      {
         float a,b;
         s=s*1664525u+1013904223u; a=((int)(s>>16&0xffff)-32768)/32768.f;
         s=s*1664525u+1013904223u; b=((int)(s>>16&0xffff)-32768)/32768.f;
         pcm[2*i]   = 0.3f*a;              /* L and R: partially correlated noise */
         pcm[2*i+1] = 0.3f*(0.6f*a+0.4f*b);
      }
      len[f] = opus_custom_encode_float(enc, pcm, 128, out[f], 100);
   }
   opus_custom_encoder_destroy(enc);
   opus_custom_mode_destroy(mode);
   return 0;
}

int main(void)
{
   enum {NF=20};
   static unsigned char o1[NF][400], o2[NF][400]; int l1[NF], l2[NF], f, bad=0;
   run(1,     o1, l1, NF);
   run(14,    o2, l2, NF);
   for (f=0;f<NF;f++)
      if (l1[f]!=l2[f] || memcmp(o1[f],o2[f],l1[f]))
      { int i=0; while(i<l1[f]&&i<l2[f]&&o1[f][i]==o2[f][i]) i++;
        printf("frame %2d: packets differ (len %d vs %d, first differing byte %d)\n", f, l1[f], l2[f], i); bad++; }
   if (bad) printf("FAIL: %d of %d packets depend on stale heap contents\n", bad, NF);
   else printf("PASS: identical\n");
   return bad!=0;
}
