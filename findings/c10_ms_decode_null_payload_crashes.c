/* finding_2: opus_multistream_decode*() / opus_projection_decode*() dereference data==NULL when len>0,
 * although the API documentation says "Use a NULL pointer to indicate packet loss" and the stand-alone
 * decoder conceals in exactly that situation (opus_decode_native: "len==0 || data==NULL").
 *
 * cc -I/tmp/mut/HC10/include finding_2.c /tmp/mut/HC10/_build/libopus.a -lm -o finding_2 && ./finding_2
 */
#include <stdio.h>
#include <string.h>
#include <unistd.h>
#include <sys/wait.h>
#include "opus.h"
#include "opus_multistream.h"
int main(void)
{
   int err, status;
   unsigned char map[2] = {0, 1};
   static opus_int16 a[960*2], b[960*2];
   OpusDecoder *s = opus_decoder_create(48000, 2, &err);
   OpusMSDecoder *d = opus_multistream_decoder_create(48000, 2, 1, 1, map, &err);
   int r1 = opus_decode(s, NULL, 57, a, 960, 0);          /* lost packet, caller kept the expected length */
   pid_t pid;
   printf("stand-alone   opus_decode(data=NULL, len=57)             -> %d (concealment)\n", r1);
   fflush(stdout);
   pid = fork();
   if (pid == 0) {
      int r2 = opus_multistream_decode(d, NULL, 57, b, 960, 0);
      printf("multistream   opus_multistream_decode(data=NULL, len=57) -> %d\n", r2);
      _exit(r2 == r1 && !memcmp(a, b, sizeof(a)) ? 0 : 3);
   }
   waitpid(pid, &status, 0);
   if (WIFSIGNALED(status)) { printf("multistream   opus_multistream_decode(data=NULL, len=57) -> killed by signal %d\nFAIL\n", WTERMSIG(status)); return 1; }
   if (WEXITSTATUS(status)) { printf("FAIL (different result)\n"); return 1; }
   printf("PASS\n");
   return 0;
}
