/* Replay (reproduced by an independent sub-agent on the unmodified tree; fixed in /repo).
 *   cc -I/repo/include findings/c13_projection_decode24_wraps.c <build>/libopus.a -lm -o replay && ./replay */
/* C19 extra (pristine tree): opus_projection_decode24() wraps around instead
   of saturating when the decoder gain pushes the demixed sum beyond the
   32-bit range (float build).

   A projection decoder with 2 channels, 2 mono streams and a demixing matrix
   of all 32767 (~1.0), i.e. every output channel = stream0 + stream1.
   Both streams carry the same loud sine. With a gain of +48 dB each stream
   alone is still below 2^31 in 24-bit units, but the sum is not.
   Twin decoders with the same gain: opus_projection_decode_float() gives the
   reference, opus_projection_decode24() must give that value scaled by 2^23
   and limited to the int32 range.

   cc -I/tmp/mut/C19/include extra_pristine_1.c /tmp/mut/C19/_build/libopus.a -lm -o extra_pristine_1 && ./extra_pristine_1
*/
#include <stdio.h>
#include <stdlib.h>
#include <math.h>
#include "opus.h"
#include "opus_multistream.h"
#include "opus_projection.h"

#define FS 48000
#define FRAME 960
#define NPKT 8
#define MAXB 3000

int main(void)
{
   static unsigned char pkt[NPKT][MAXB];
   int len[NPKT];
   static float in[FRAME*2];
   static float outf[FRAME*2];
   static opus_int32 out24[FRAME*2];
   unsigned char mapping[2] = {0, 1};
   unsigned char demix[8];
   OpusMSEncoder *enc;
   OpusProjectionDecoder *da, *db;
   int err, i, k, bad=0, first=1;
   int g = 12288; /* +48 dB */
   long nover=0;

   enc = opus_multistream_encoder_create(FS, 2, 2, 0, mapping, OPUS_APPLICATION_RESTRICTED_LOWDELAY, &err);
   if (err) return 2;
   opus_multistream_encoder_ctl(enc, OPUS_SET_BITRATE(192000));
   for (k=0;k<NPKT;k++)
   {
      for (i=0;i<FRAME;i++)
      {
         double t = (k*FRAME+i)/(double)FS;
         in[2*i] = in[2*i+1] = (float)(0.8*sin(2*3.14159265358979*440*t));
      }
      len[k] = opus_multistream_encode_float(enc, in, FRAME, pkt[k], MAXB);
      if (len[k]<=0) return 2;
   }
   opus_multistream_encoder_destroy(enc);

   for (i=0;i<4;i++) { demix[2*i] = 0xFF; demix[2*i+1] = 0x7F; }
   da = opus_projection_decoder_create(FS, 2, 2, 0, demix, 8, &err);
   if (err) { printf("decoder create failed %d\n", err); return 2; }
   db = opus_projection_decoder_create(FS, 2, 2, 0, demix, 8, &err);
   if (err) return 2;
   if (opus_projection_decoder_ctl(da, OPUS_SET_GAIN(g))!=OPUS_OK) return 2;
   if (opus_projection_decoder_ctl(db, OPUS_SET_GAIN(g))!=OPUS_OK) return 2;

   for (k=0;k<NPKT;k++)
   {
      int na, nb;
      na = opus_projection_decode_float(da, pkt[k], len[k], outf, FRAME, 0);
      nb = opus_projection_decode24(db, pkt[k], len[k], out24, FRAME, 0);
      if (na!=FRAME || nb!=FRAME) { printf("decode returned %d, %d\n", na, nb); return 2; }
      for (i=0;i<2*FRAME;i++)
      {
         double want = 8388608.*(double)outf[i];
         int ok;
         if (want >= 2147483647.)
         {
            nover++;
            ok = out24[i] >= 2147483000;
         } else if (want <= -2147483648.) {
            nover++;
            ok = out24[i] <= -2147483000;
         } else {
            ok = fabs((double)out24[i]-want) <= 4.+1e-4*fabs(want);
         }
         if (!ok)
         {
            if (first)
               printf("packet %d sample %d: float output %.9g -> expected %.0f, opus_projection_decode24 gave %d\n",
                     k, i, outf[i], want>2147483647.?2147483647.:want<-2147483648.?-2147483648.:want, (int)out24[i]);
            first=0;
            bad++;
         }
      }
   }
   printf("%ld samples beyond the 32-bit range in the reference, %d wrong in the 24-bit output\n", nover, bad);
   if (nover==0) { printf("setup problem\n"); return 2; }
   if (bad)
   {
      printf("FAIL: the 24-bit projection output wraps instead of saturating\n");
      return 1;
   }
   printf("PASS\n");
   return 0;
}
