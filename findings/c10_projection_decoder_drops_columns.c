/* finding_1: opus_projection_decoder silently ignores every demixing-matrix column whose index is
 * >= the number of output channels (non-square demixing matrix, N+M > C), although creation succeeds.
 *
 * cc -I/tmp/mut/HC10/include finding_1.c /tmp/mut/HC10/_build/libopus.a -lm -o finding_1 && ./finding_1
 */
#include <stdio.h>
#include <stdlib.h>
#include <string.h>
#include <math.h>
#include "opus.h"
#include "opus_multistream.h"
#include "opus_projection.h"

#define FS 48000
#define FSZ 960
int main(void)
{
   /* 2 streams, 1 coupled => 3 decoded stream channels (s0.L, s0.R, s1.mono); 2 output channels.
      Demixing matrix D is C x (N+M) = 2 x 3, stored column-major, little-endian Q15 (RFC 8486 3.2):
          out0 = 1.0 * s1.mono        out1 = 1.0 * s0.L                                            */
   opus_int16 D[3][2] = { /* col 0 (s0.L) */ {0, 32767}, /* col 1 (s0.R) */ {0, 0}, /* col 2 (s1) */ {32767, 0} };
   unsigned char mat[12];
   unsigned char idmap[3] = {0, 1, 2};
   int err, i, c, k, f, fail = 0;
   OpusMSEncoder *enc;
   OpusProjectionDecoder *pd;
   OpusMSDecoder *ref;
   static float in[FSZ*3], ref_out[FSZ*3], out[FSZ*2];
   unsigned char pkt[4000];
   double e_out0 = 0, e_ref2 = 0, e_out1 = 0, e_ref0 = 0, diff0 = 0, diff1 = 0;

   for (c = 0; c < 3; c++) for (k = 0; k < 2; k++) {
      mat[2*(c*2+k)]   = (unsigned char)(D[c][k] & 0xFF);
      mat[2*(c*2+k)+1] = (unsigned char)((D[c][k] >> 8) & 0xFF);
   }
   enc = opus_multistream_encoder_create(FS, 3, 2, 1, idmap, OPUS_APPLICATION_AUDIO, &err);
   if (!enc) { printf("encoder create failed %d\n", err); return 2; }
   opus_multistream_encoder_ctl(enc, OPUS_SET_BITRATE(3*96000));
   pd = opus_projection_decoder_create(FS, 2, 2, 1, mat, sizeof(mat), &err);
   printf("opus_projection_decoder_create(channels=2, streams=2, coupled=1, 2x3 matrix) -> %s (err=%d)\n",
          pd ? "accepted" : "rejected", err);
   if (!pd) { printf("PASS (layout rejected at creation)\n"); return 0; }
   ref = opus_multistream_decoder_create(FS, 3, 2, 1, idmap, &err);

   for (f = 0; f < 10; f++) {
      int len, r1, r2;
      for (i = 0; i < FSZ; i++) {
         int n = f*FSZ + i;
         in[3*i+0] = 0.25f*(float)sin(2*M_PI*300*n/FS);   /* s0.L */
         in[3*i+1] = 0.25f*(float)sin(2*M_PI*700*n/FS);   /* s0.R */
         in[3*i+2] = 0.25f*(float)sin(2*M_PI*1100*n/FS);  /* s1 mono */
      }
      len = opus_multistream_encode_float(enc, in, FSZ, pkt, sizeof(pkt));
      r1 = opus_multistream_decode_float(ref, pkt, len, ref_out, FSZ, 0);   /* the three stream channels */
      r2 = opus_projection_decode_float(pd, pkt, len, out, FSZ, 0);
      if (r1 != FSZ || r2 != FSZ) { printf("decode error %d %d\n", r1, r2); return 2; }
      if (f < 2) continue;
      for (i = 0; i < FSZ; i++) {
         double want0 = (32767/32768.)*ref_out[3*i+2], want1 = (32767/32768.)*ref_out[3*i+0];
         e_out0 += out[2*i]*out[2*i];   e_ref2 += want0*want0;
         e_out1 += out[2*i+1]*out[2*i+1]; e_ref0 += want1*want1;
         diff0 += (out[2*i]-want0)*(out[2*i]-want0);
         diff1 += (out[2*i+1]-want1)*(out[2*i+1]-want1);
      }
   }
   printf("out1 (= D[1][0]*s0.L): energy %.4f, expected %.4f, error energy %.6f\n", e_out1, e_ref0, diff1);
   printf("out0 (= D[0][2]*s1  ): energy %.4f, expected %.4f, error energy %.6f\n", e_out0, e_ref2, diff0);
   if (diff1 > 1e-6*e_ref0) { printf("FAIL: column 0 not applied\n"); fail = 1; }
   if (diff0 > 1e-6*e_ref2) { printf("FAIL: matrix column 2 (stream 1) never reaches the output: decoder accepted the layout but dropped the stream\n"); fail = 1; }
   if (!fail) printf("PASS\n");
   return fail;
}
