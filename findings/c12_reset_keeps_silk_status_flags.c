/* Replay for C12 (reproduced by an independent sub-agent on the unmodified tree; fixed in /repo).
 *   cc -I/repo/include findings/c12_reset_keeps_silk_status_flags.c <build>/libopus.a -lm -o replay && ./replay */
/* C12 on the UNMODIFIED tree: OPUS_RESET_STATE does not give back a "new" encoder.
 *
 * opus_encoder_init() lets silk_InitEncoder() fill st->silk_mode (so that
 * silk_mode.allowBandwidthSwitch == 0), but the OPUS_RESET_STATE handler passes a
 * dummy control struct, so silk_mode.allowBandwidthSwitch keeps the value of the
 * last SILK frame coded before the reset.  opus_encode_native() reads that flag
 * before SILK has run again whenever the first packet after the reset is
 * CELT-only (here: a 5 ms frame) and the second one is not:
 *     if (st->mode == MODE_CELT_ONLY || st->first || st->silk_mode.allowBandwidthSwitch)
 *         ... re-evaluate the audio bandwidth from the rate ...
 *
 * cc -I/tmp/mut/C12/include extra_pristine_1.c /tmp/mut/C12/_build/libopus.a -lm -o extra_pristine_1 && ./extra_pristine_1
 */
#include <stdio.h>
#include <stdlib.h>
#include <string.h>
#include <math.h>
#include "opus.h"

#define FS 48000

static unsigned int seed = 99;
static int rnd(void) { seed = seed*1664525u + 1013904223u; return (int)(seed>>16)&0x7fff; }

static OpusEncoder *make(void)
{
   int err;
   OpusEncoder *e = opus_encoder_create(FS, 1, OPUS_APPLICATION_VOIP, &err);
   if (!e || err != OPUS_OK) { printf("create failed\n"); exit(2); }
   opus_encoder_ctl(e, OPUS_SET_SIGNAL(OPUS_SIGNAL_VOICE));
   opus_encoder_ctl(e, OPUS_SET_BITRATE(16000));
   return e;
}

int main(void)
{
   static opus_int16 quiet[960], sig[8][960];
   unsigned char pa[1500], pb[1500];
   OpusEncoder *used, *fresh;
   int i, f, bad=0;

   /* near-silence: SILK sees no speech activity and allows a bandwidth switch */
   for (i=0;i<960;i++) quiet[i] = (opus_int16)((rnd()&3)-1);
   for (f=0;f<8;f++)
      for (i=0;i<960;i++)
      {
         double t = (f*960+i)/(double)FS;
         sig[f][i] = (opus_int16)(7000*sin(2*M_PI*150*t)+3000*sin(2*M_PI*450*t)+1500*sin(2*M_PI*2300*t)+(rnd()-16384)*0.05);
      }

   used = make();
   for (f=0;f<30;f++)
      if (opus_encode(used, quiet, 960, pa, sizeof(pa)) < 0) { printf("encode failed\n"); return 2; }

   opus_encoder_ctl(used, OPUS_RESET_STATE);
   fresh = make();

   for (f=0;f<8;f++)
   {
      int n, la, lb;
      opus_uint32 ra, rb;
      if (f==0)
      {
         /* one 5 ms packet at a high rate: CELT-only, fullband */
         opus_encoder_ctl(used, OPUS_SET_BITRATE(64000));
         opus_encoder_ctl(fresh, OPUS_SET_BITRATE(64000));
         n = 240;
      } else {
         /* then 20 ms packets at a low rate */
         opus_encoder_ctl(used, OPUS_SET_BITRATE(12000));
         opus_encoder_ctl(fresh, OPUS_SET_BITRATE(12000));
         n = 960;
      }
      la = opus_encode(used, sig[f], n, pa, sizeof(pa));
      lb = opus_encode(fresh, sig[f], n, pb, sizeof(pb));
      opus_encoder_ctl(used, OPUS_GET_FINAL_RANGE(&ra));
      opus_encoder_ctl(fresh, OPUS_GET_FINAL_RANGE(&rb));
      if (la < 0 || la != lb || ra != rb || memcmp(pa, pb, la) != 0)
      {
         int bwa=0, bwb=0;
         if (la>0) bwa = opus_packet_get_bandwidth(pa);
         if (lb>0) bwb = opus_packet_get_bandwidth(pb);
         printf("packet %d after reset: reset encoder %d bytes TOC 0x%02x (bandwidth %d), new encoder %d bytes TOC 0x%02x (bandwidth %d)\n",
               f, la, pa[0], bwa, lb, pb[0], bwb);
         bad++;
      }
   }
   opus_encoder_destroy(used);
   opus_encoder_destroy(fresh);
   if (bad) { printf("FAIL: %d of 8 packets differ between the reset encoder and a new one\n", bad); return 1; }
   printf("PASS\n");
   return 0;
}
