/* Replay (reproduced by an independent sub-agent on the unmodified tree; fixed in /repo).
 *   cc -I/repo/include findings/c16_out_range_drops_or_rejects_extensions.c <build>/libopus.a -lm -o replay && ./replay   (exit 1 = defect present)
 * # Pristine finding 1 - out_range() refuses valid sub-ranges of a packet that carries per-frame extensions
 * opus_repacketizer_cat() attaches the whole extension region of an input packet to that packet's FIRST frame
 * (paddings[first], padding_nb_frames[first] = n). opus_repacketizer_out_range_impl() then parses every
 * extension of each selected first-frame and renumbers it by (i-begin) without dropping the ones that belong to
 * frames >= end. opus_packet_extensions_generate() sees frame >= nb_frames and returns OPUS_BAD_ARG, which
 * out_range() passes on. So after cat() of one 3-frame packet with an extension on frame 2, out_range(0,1) and
 * out_range(0,2) return OPUS_BAD_ARG (-1) although the range is valid and maxlen is ample; out(all) works.
 * Conversely out_range(2,3) succeeds but silently drops the extension that belonged to frame 2 (it is stored at
 * index 0). Violates "emits packets that parse back to precisely the selected frames" / "1277 bytes per
 * selected frame always suffice" (valid range refused).
 * Repro: cc -I/tmp/mut/C07/include extra_pristine_1.c /tmp/mut/C07/_build/libopus.a -lm -o xp1 && ./xp1
 * Observed on pristine HEAD: "out_range(0,1) -> -1 (invalid argument)", "out_range(0,2) -> -1", FAIL, exit 1.
 */
/* Pristine finding 1: opus_repacketizer_out_range() on a sub-range of a
   multi-frame packet that carries per-frame extensions.
   (a) [0,1) of a 3-frame packet with an extension on frame 2 is refused
       (OPUS_BAD_ARG) although the range is valid and maxlen is ample.
   (b) [1,3) silently re-attaches nothing / (c) [0,2) of two cat()ed packets is
       fine - shown for contrast. */
#include <stdio.h>
#include <string.h>
#include "opus.h"

int main(void)
{
   unsigned char pkt[64], out[4096];
   OpusRepacketizer *rp = opus_repacketizer_create();
   int n = 0, ret, fail = 0;
   /* CELT FB 20 ms mono, code 3, 3 CBR frames of 4 bytes, padding flag */
   pkt[n++] = (31<<3)|3;
   pkt[n++] = 0x40|3;
   pkt[n++] = 4;              /* 4 bytes of padding */
   memset(pkt+n, 0xA1, 4); n += 4;
   memset(pkt+n, 0xB2, 4); n += 4;
   memset(pkt+n, 0xC3, 4); n += 4;
   pkt[n++] = 0x03; pkt[n++] = 0x02;   /* separator: advance 2 frames      */
   pkt[n++] = (5<<1)|1; pkt[n++] = 'x';/* short extension id 5 on frame 2  */
   ret = opus_repacketizer_cat(rp, pkt, n);
   printf("cat -> %d, nb_frames=%d\n", ret, opus_repacketizer_get_nb_frames(rp));
   if (ret != OPUS_OK) { printf("unexpected: cat refused\n"); return 2; }
   ret = opus_repacketizer_out(rp, out, sizeof(out));
   printf("out(all) -> %d\n", ret);
   ret = opus_repacketizer_out_range(rp, 0, 1, out, sizeof(out));
   printf("out_range(0,1) -> %d (%s)\n", ret, ret<0?opus_strerror(ret):"ok");
   if (ret < 0) fail = 1;
   ret = opus_repacketizer_out_range(rp, 0, 2, out, sizeof(out));
   printf("out_range(0,2) -> %d (%s)\n", ret, ret<0?opus_strerror(ret):"ok");
   if (ret < 0) fail = 1;
   ret = opus_repacketizer_out_range(rp, 2, 3, out, sizeof(out));
   printf("out_range(2,3) -> %d (%s)\n", ret, ret<0?opus_strerror(ret):"ok");
   if (ret < 0) fail = 1;
   printf(fail ? "FAIL\n" : "PASS\n");
   return fail;
}
