/* finding_1: Opus Custom decode reads one byte past a zero-length packet.
 *
 * Needs a library built with custom modes (and AddressSanitizer for part A):
 *   cd /tmp/mut/HC01 && CC=clang cmake -G Ninja -B _san_fl -DCMAKE_BUILD_TYPE=Debug \
 *       -DOPUS_CUSTOM_MODES=ON -DOPUS_ASSERTIONS=ON \
 *       -DCMAKE_C_FLAGS="-fsanitize=address,undefined -g -O1 -Wno-error" && cmake --build _san_fl
 *   clang -g -fsanitize=address -I/tmp/mut/HC01/include finding_1.c \
 *       /tmp/mut/HC01/_san_fl/libopus.a -lm -o finding_1 && ./finding_1
 *
 * Part B needs no sanitizer: the byte that lies just AFTER the empty packet
 * decides the return code.
 */
#include <stdio.h>
#include <stdlib.h>
#include <string.h>
#include "opus_custom.h"

int main(void)
{
   int err, r0, r1, rA;
   opus_int16 pcm[960*2];
   unsigned char *buf;
   OpusCustomMode *m = opus_custom_mode_create(48000, 960, &err);
   OpusCustomDecoder *d = m ? opus_custom_decoder_create(m, 1, &err) : NULL;
   if (!m || !d) { printf("custom modes not built in (err=%d)\n", err); return 2; }

   /* Part B: 0x00 is not a valid signalling byte for the 48k/960 mode
      (fromOpus()<0 -> OPUS_INVALID_PACKET = -4); 0xF8 is (falls through to
      the len<0 test -> OPUS_BAD_ARG = -1). */
   buf = (unsigned char*)malloc(17);
   buf[16] = 0x00;
   r0 = opus_custom_decode(d, buf+16, 0, pcm, 960);
   buf[16] = 0xF8;
   r1 = opus_custom_decode(d, buf+16, 0, pcm, 960);
   printf("empty packet, next byte 0x00 -> ret %d ; next byte 0xF8 -> ret %d\n", r0, r1);
   free(buf);
   if (r0 != r1)
      printf("FAIL: result of decoding a 0-byte packet depends on memory outside the packet\n");
   fflush(stdout);

   /* Part A: packet pointer is one-past-the-end of a 16-byte heap block.
      ASan reports: heap-buffer-overflow READ of size 1, celt_decoder.c:1034 */
   buf = (unsigned char*)malloc(16);
   rA = opus_custom_decode(d, buf+16, 0, pcm, 960);
   free(buf);
   printf("ret=%d (no sanitizer report: rebuild with -fsanitize=address)\n", rA);
   return r0 != r1;
}
