/* Replay for C10 / R10.9 (reproduced by an independent sub-agent; part (a) fixed in /repo 00e3b280):
 * (a) decode_fec=1 with frame_size shorter than the packet: opus_decode conceals frame_size samples, opus_multistream_decode
 *     returned OPUS_BUFFER_TOO_SMALL.  (b) a 200 ms concealment request is clamped to 120 ms by the multistream decoder (its
 *     scratch buffer; documented limit, not repaired) - the program still prints it and exits 1 because of (b).
 *   cc -I/repo/include findings/c10_ms_fec_shorter_than_packet.c <build>/libopus.a -lm -o replay && ./replay */
/* extra_pristine_2: the multistream decoder does not "return exactly the requested
 * duration" for two PLC/FEC call shapes that the plain decoder handles:
 *  (a) decode_fec=1 with a frame_size (the lost packet's duration, 20 ms) smaller than the
 *      duration of the packet handed in (60 ms): opus_decode() conceals 20 ms and returns
 *      960, opus_multistream_decode() returns OPUS_BUFFER_TOO_SMALL (-2);
 *  (b) concealment of more than 120 ms in one call (a multiple of 2.5 ms): opus_decode()
 *      returns 9600, opus_multistream_decode() silently returns 5760.
 *
 * cc -I/tmp/mut/C09/include extra_pristine_2.c /tmp/mut/C09/_build/libopus.a -lm -o extra_pristine_2 && ./extra_pristine_2
 * prints FAIL / exits 1 on the pristine tree.
 */
#include <stdio.h>
#include <stdlib.h>
#include <math.h>
#include "opus.h"
#include "opus_multistream.h"
#define FS 48000
#define F20 960
int main(void)
{
   static short in[30*F20], out[5760], big[9600];
   unsigned char map[1]={0}, p[1500];
   int e, n, i, l=0, r1, r2, fail=0;
   OpusMSEncoder *me = opus_multistream_encoder_create(FS,1,1,0,map,OPUS_APPLICATION_VOIP,&e);
   OpusMSDecoder *md = opus_multistream_decoder_create(FS,1,1,0,map,&e);
   OpusDecoder *d = opus_decoder_create(FS,1,&e);
   for (i=0;i<30*F20;i++) in[i] = (short)(4000*sin(2*M_PI*220.*i/FS)*(0.6+0.4*sin(2*M_PI*3.*i/FS)));
   opus_multistream_encoder_ctl(me, OPUS_SET_BITRATE(24000));
   opus_multistream_encoder_ctl(me, OPUS_SET_INBAND_FEC(1));
   opus_multistream_encoder_ctl(me, OPUS_SET_PACKET_LOSS_PERC(10));
   opus_multistream_encoder_ctl(me, OPUS_SET_MAX_BANDWIDTH(OPUS_BANDWIDTH_WIDEBAND));
   for (n=0;n<20;n++)
   {
      l = opus_multistream_encode(me, in+n*F20, F20, p, 1500);
      if (opus_multistream_decode(md, p, l, out, 5760, 0) != F20 || opus_decode(d, p, l, out, 5760, 0) != F20) return 2;
   }
   /* the next 20 ms packet is lost; the one after it is a 60 ms packet */
   l = opus_multistream_encode(me, in+20*F20, F20, p, 1500);
   l = opus_multistream_encode(me, in+21*F20, 3*F20, p, 1500);
   r1 = opus_decode(d, p, l, out, F20, 1);
   r2 = opus_multistream_decode(md, p, l, out, F20, 1);
   printf("(a) decode_fec=1, frame_size 960, packet of %d samples: opus_decode -> %d, opus_multistream_decode -> %d\n",
          opus_packet_get_nb_samples(p, l, FS), r1, r2);
   if (r1 != F20 || r2 != F20) fail = 1;
   r1 = opus_decode(d, NULL, 0, big, 9600, 0);
   r2 = opus_multistream_decode(md, NULL, 0, big, 9600, 0);
   printf("(b) concealment of 9600 samples (200 ms): opus_decode -> %d, opus_multistream_decode -> %d\n", r1, r2);
   if (r1 != 9600 || r2 != 9600) fail = 1;
   printf(fail ? "FAIL\n" : "PASS\n");
   return fail;
}
