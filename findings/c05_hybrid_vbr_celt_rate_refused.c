/* finding_2: in hybrid mode with VBR / constrained VBR the encoder can emit 1276-byte packets
 * (510 kb/s) for a requested bitrate of a few kb/s, because the CELT layer is left at
 * OPUS_BITRATE_MAX when  bitrate_bps - silk_bitrate <= 500.
 *
 * Public API only, default build:
 *   cc -I/tmp/mut/HC05/include finding_2.c /tmp/mut/HC05/_build/libopus.a -lm -o finding_2 && ./finding_2
 * (same result with the -DOPUS_FIXED_POINT=ON build)
 */
#include <stdio.h>
#include <stdlib.h>
#include <string.h>
#include <math.h>
#include "opus.h"
#include "opus_multistream.h"

static unsigned long long rs = 88172645463325252ULL;
static unsigned rnd(void) { rs ^= rs<<13; rs ^= rs>>7; rs ^= rs<<17; return (unsigned)(rs>>11); }

/* A: single stream, mono, 20 ms, OPUS_SET_BANDWIDTH(SWB), low bitrate, (constrained) VBR */
static int case_single(int bitrate, int cvbr)
{
   int err, f, i, maxp = 0, nfr = 250; long long tot = 0; double ph = 0, rate;
   short pcm[960]; unsigned char buf[4000];
   OpusEncoder *e = opus_encoder_create(48000, 1, OPUS_APPLICATION_AUDIO, &err);
   opus_encoder_ctl(e, OPUS_SET_BITRATE(bitrate));
   opus_encoder_ctl(e, OPUS_SET_VBR(1));
   opus_encoder_ctl(e, OPUS_SET_VBR_CONSTRAINT(cvbr));
   opus_encoder_ctl(e, OPUS_SET_BANDWIDTH(OPUS_BANDWIDTH_SUPERWIDEBAND));
   for (f = 0; f < nfr; f++)
   {
      int ret;
      for (i = 0; i < 960; i++) { pcm[i] = (short)(6000*sin(ph) + 4000*sin(ph*3.1) + (int)(rnd()%8000) - 4000); ph += 0.02; }
      ret = opus_encode(e, pcm, 960, buf, 4000);
      if (ret < 0) { printf("encode error %d\n", ret); return 1; }
      tot += ret; if (ret > maxp) maxp = ret;
   }
   rate = tot*8.0/(nfr*0.02);
   printf("single stream mono SWB  %s bitrate=%5d : average %.0f b/s (x%.1f), largest packet %d bytes%s\n",
         cvbr ? "CVBR" : "VBR ", bitrate, rate, rate/bitrate, maxp, rate > 2.0*bitrate + 4000 ? "  <-- FAIL" : "");
   opus_encoder_destroy(e);
   return rate > 2.0*bitrate + 4000;
}

/* B: surround (mapping family 1), 20 ms, (constrained) VBR, 8 kb/s per channel */
static int case_surround(int channels, int bitrate, int cvbr)
{
   int err, f, i, c, streams, coupled, nfr = 250; long long tot = 0; double ph = 0, rate;
   unsigned char mapping[8]; static short pcm[960*8]; static unsigned char buf[20000];
   OpusMSEncoder *e = opus_multistream_surround_encoder_create(48000, channels, 1, &streams, &coupled, mapping, OPUS_APPLICATION_AUDIO, &err);
   opus_multistream_encoder_ctl(e, OPUS_SET_BITRATE(bitrate));
   opus_multistream_encoder_ctl(e, OPUS_SET_VBR(1));
   opus_multistream_encoder_ctl(e, OPUS_SET_VBR_CONSTRAINT(cvbr));
   for (f = 0; f < nfr; f++)
   {
      int ret;
      for (i = 0; i < 960; i++) { for (c = 0; c < channels; c++) pcm[i*channels+c] = (short)(6000*sin(ph*(1+0.3*c)) + 4000*sin(ph*3.1+c) + (int)(rnd()%8000) - 4000); ph += 0.02; }
      ret = opus_multistream_encode(e, pcm, 960, buf, 20000);
      if (ret < 0) { printf("encode error %d\n", ret); return 1; }
      tot += ret;
   }
   rate = tot*8.0/(nfr*0.02);
   printf("surround %d ch (%d streams) %s bitrate=%5d : average %.0f b/s (x%.1f)%s\n",
         channels, streams, cvbr ? "CVBR" : "VBR ", bitrate, rate, rate/bitrate, rate > 1.5*bitrate ? "  <-- FAIL" : "");
   opus_multistream_encoder_destroy(e);
   return rate > 1.5*bitrate;
}

int main(void)
{
   int fail = 0;
   fail |= case_single(2000, 1);
   fail |= case_single(2000, 0);
   fail |= case_single(2800, 1);
   fail |= case_single(3200, 1);   /* first rate that escapes: control */
   fail |= case_surround(6, 48000, 1);
   fail |= case_surround(6, 48000, 0);
   fail |= case_surround(8, 64000, 1);
   fail |= case_surround(6, 96000, 1); /* control */
   printf(fail ? "FAIL\n" : "PASS\n");
   return fail;
}
