/* 16-bit projection decode must be the float decode scaled, rounded and SATURATED.
   mapping_matrix_multiply_channel_out_short() accumulates the de-mixed contributions into an
   opus_int16 with `+=`: a loud sound field wraps around instead of saturating.
   cc -I/repo/include proj16.c /repo/_build/libopus.a -lm && ./a.out */
#include <stdio.h>
#include <stdlib.h>
#include <math.h>
#include "opus.h"
#include "opus_projection.h"
#define FS 48000
#define CH 4
#define N 960
int main(void){
  int err, streams, coupled, f, i, c, wraps=0;
  OpusProjectionEncoder *e = opus_projection_ambisonics_encoder_create(FS, CH, 3, &streams, &coupled, OPUS_APPLICATION_AUDIO, &err);
  opus_int32 msize; unsigned char *m;
  if(!e){printf("enc create failed %d\n",err);return 2;}
  opus_projection_encoder_ctl(e, OPUS_SET_BITRATE(256000));
  opus_projection_encoder_ctl(e, OPUS_PROJECTION_GET_DEMIXING_MATRIX_SIZE(&msize));
  m = malloc(msize);
  opus_projection_encoder_ctl(e, OPUS_PROJECTION_GET_DEMIXING_MATRIX(m, msize));
  OpusProjectionDecoder *d16 = opus_projection_decoder_create(FS, CH, streams, coupled, m, msize, &err);
  OpusProjectionDecoder *dfl = opus_projection_decoder_create(FS, CH, streams, coupled, m, msize, &err);
  if(!d16||!dfl){printf("dec create failed %d\n",err);return 2;}
  static float in[N*CH], of[N*CH]; static short o16[N*CH]; unsigned char p[8000]; double ph=0;
  for(f=0;f<30;f++){
    for(i=0;i<N;i++){ ph+=2*3.14159265*330.0/FS; for(c=0;c<CH;c++) in[i*CH+c]=(float)(1.6*sin(ph)*(c==0?1.0:0.3)); }
    int len=opus_projection_encode_float(e,in,N,p,sizeof p); if(len<0){printf("encode %d\n",len);return 2;}
    int a=opus_projection_decode(d16,p,len,o16,N,0), b=opus_projection_decode_float(dfl,p,len,of,N,0);
    if(a!=N||b!=N){printf("decode %d %d\n",a,b);return 2;}
    for(i=0;i<N*CH;i++){ double want=of[i]*32768.0; if(want>32767)want=32767; if(want<-32768)want=-32768;
      if(fabs(want-o16[i])>20000){ if(wraps<3) printf("frame %d sample %d: float %.1f -> expected about %.0f, 16-bit output %d\n",f,i,of[i]*32768.0,want,o16[i]); wraps++; } }
  }
  printf("%d samples wrapped around\n",wraps);
  printf(wraps?"FAIL\n":"PASS\n");
  return wraps!=0;
}
