/* finding 5: multistream / projection encoder getters do not report what the setters stored.
 *  (a) OPUS_SET_MAX_BANDWIDTH is accepted but OPUS_GET_MAX_BANDWIDTH is OPUS_UNIMPLEMENTED
 *  (b) OPUS_SET_BITRATE(x) is accepted but OPUS_GET_BITRATE keeps reporting the per-stream defaults until
 *      a frame has been encoded (and afterwards a re-derived sum, not the stored value)
 * cc -I/tmp/mut/HC11/include finding_5.c /tmp/mut/HC11/_build/libopus.a -lm -o finding_5 && ./finding_5 */
#include <stdio.h>
#include <stdlib.h>
#include "opus.h"
#include "opus_multistream.h"
#include "opus_projection.h"
int main(void)
{
   static const unsigned char map[2] = {0, 1};
   int err, fails = 0, r, v = -7, s, c, k; static short pcm[960*4]; static unsigned char pkt[4000];
   OpusMSEncoder *e = opus_multistream_encoder_create(48000, 2, 1, 1, map, OPUS_APPLICATION_AUDIO, &err);
   OpusProjectionEncoder *p = opus_projection_ambisonics_encoder_create(48000, 4, 3, &s, &c, OPUS_APPLICATION_AUDIO, &err);
   r = opus_multistream_encoder_ctl(e, OPUS_SET_MAX_BANDWIDTH(OPUS_BANDWIDTH_WIDEBAND)); printf("ms   SET_MAX_BANDWIDTH(WB) -> %d\n", r);
   r = opus_multistream_encoder_ctl(e, OPUS_GET_MAX_BANDWIDTH(&v)); printf("ms   GET_MAX_BANDWIDTH -> ret=%d (%s) value=%d\n", r, opus_strerror(r), v);
   if (r != OPUS_OK || v != OPUS_BANDWIDTH_WIDEBAND) { printf("FAIL: accepted max bandwidth cannot be read back\n"); fails++; }
   r = opus_projection_encoder_ctl(p, OPUS_SET_MAX_BANDWIDTH(OPUS_BANDWIDTH_WIDEBAND)); v = -7;
   r = opus_projection_encoder_ctl(p, OPUS_GET_MAX_BANDWIDTH(&v)); printf("proj GET_MAX_BANDWIDTH -> ret=%d value=%d\n", r, v);
   if (r != OPUS_OK || v != OPUS_BANDWIDTH_WIDEBAND) { printf("FAIL: accepted max bandwidth cannot be read back (projection)\n"); fails++; }
   r = opus_multistream_encoder_ctl(e, OPUS_SET_BITRATE(40000)); opus_multistream_encoder_ctl(e, OPUS_GET_BITRATE(&v));
   printf("ms   SET_BITRATE(40000) -> %d ; GET_BITRATE -> %d\n", r, v);
   if (v != 40000) { printf("FAIL: bitrate getter reports %d after SET_BITRATE(40000)\n", v); fails++; }
   r = opus_multistream_encoder_ctl(e, OPUS_SET_BITRATE(100)); opus_multistream_encoder_ctl(e, OPUS_GET_BITRATE(&v));
   printf("ms   SET_BITRATE(100) -> %d (clamps to 500*channels=1000) ; GET_BITRATE -> %d\n", r, v);
   if (v != 1000) { printf("FAIL: bitrate getter reports %d, documented clamp gives 1000\n", v); fails++; }
   opus_multistream_encoder_ctl(e, OPUS_SET_BITRATE(40000)); opus_multistream_encoder_ctl(e, OPUS_SET_VBR(0));
   for (k = 0; k < 3; k++) { int i; for (i = 0; i < 1920; i++) pcm[i] = (short)(rand()%8000); if (opus_multistream_encode(e, pcm, 960, pkt, sizeof(pkt)) < 0) return 2; }
   opus_multistream_encoder_ctl(e, OPUS_GET_BITRATE(&v)); printf("ms   after 3 CBR frames at 40000: GET_BITRATE -> %d\n", v);
   if (v != 40000) { printf("FAIL: bitrate getter reports %d after encoding at 40000\n", v); fails++; }
   opus_multistream_encoder_destroy(e); opus_projection_encoder_destroy(p);
   printf("%s\n", fails ? "FAIL" : "PASS"); return fails != 0;
}
