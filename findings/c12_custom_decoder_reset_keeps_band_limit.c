/* C12 finding 2: OPUS_RESET_STATE on an opus_custom decoder does not give a state equivalent to a new decoder:
   the band limit st->end (a configuration field in front of DECODER_RESET_START) is overwritten from the
   signalling byte of every decoded packet and survives the reset.

   Needs a CUSTOM_MODES build:
     cmake -G Ninja -B _build_cm -DOPUS_CUSTOM_MODES=ON -DCMAKE_C_FLAGS=-Wno-error && cmake --build _build_cm
     cc -I/tmp/mut/HC12/include finding_2.c /tmp/mut/HC12/_build_cm/libopus.a -lm -o finding_2 && ./finding_2 */
#include <stdio.h>
#include <stdlib.h>
#include <string.h>
#include <math.h>
#include "opus_custom.h"

#define N 512
int main(void)
{
   int err, i, len, r1, r2, ndiff=0;
   static float pcm[N], o1[N], o2[N];
   unsigned char pkt[200];
   OpusCustomMode *mode = opus_custom_mode_create(44100, N, &err);
   OpusCustomEncoder *enc;
   OpusCustomDecoder *used, *fresh;
   if (!mode) { printf("not a CUSTOM_MODES build\n"); return 2; }
   enc   = opus_custom_encoder_create(mode, 1, &err);
   used  = opus_custom_decoder_create(mode, 1, &err);
   fresh = opus_custom_decoder_create(mode, 1, &err);
   for (i=0;i<N;i++) pcm[i] = 0.4f*(float)sin(0.07*i);
   len = opus_custom_encode_float(enc, pcm, N, pkt, 120);
   /* signalling byte: bits 7..5 = (effEBands-end)/2.  A peer that codes fewer bands sets them. */
   pkt[0] |= 3<<5;
   r1 = opus_custom_decode_float(used, pkt, len, o1, N);        /* history of 'used' only */
   opus_custom_decoder_ctl(used, OPUS_RESET_STATE);
   /* from here on both objects get identical calls: one lost frame */
   r1 = opus_custom_decode_float(used,  NULL, 0, o1, N);
   r2 = opus_custom_decode_float(fresh, NULL, 0, o2, N);
   for (i=0;i<N;i++) if (memcmp(&o1[i],&o2[i],sizeof(float))) ndiff++;
   printf("ret %d / %d, %d of %d samples differ between reset decoder and new decoder\n", r1, r2, ndiff, N);
   if (ndiff) { double e1=0,e2=0; for(i=0;i<N;i++){e1+=o1[i]*o1[i]; e2+=o2[i]*o2[i];}
      printf("energy reset=%g new=%g\nFAIL\n", e1, e2); return 1; }
   printf("PASS\n");
   return 0;
}
