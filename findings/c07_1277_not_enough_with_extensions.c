/* Replay for C07 / R07.10 (known finding; reproduced by an independent sub-agent).
 *   cc -I/repo/include findings/c07_1277_not_enough_with_extensions.c <build>/libopus.a -lm -o replay && ./replay */
/* Pristine finding 3: the documented guarantee "1277*nb_frames bytes always
   suffice" for opus_repacketizer_out() does not hold when an input packet
   carries extensions in its padding: the extensions are re-emitted, so the
   output needs more room and the call fails with OPUS_BUFFER_TOO_SMALL. */
#include <stdio.h>
#include <string.h>
#include "opus.h"

int main(void)
{
   static unsigned char pkt[2048], out[4096];
   OpusRepacketizer *rp = opus_repacketizer_create();
   int n = 0, ret, fail = 0;
   pkt[n++] = (31<<3)|3;      /* CELT FB 20 ms mono, code 3 */
   pkt[n++] = 0x40|1;         /* 1 frame, padding */
   pkt[n++] = 9;              /* 9 bytes of padding */
   memset(pkt+n, 0x5A, 1275); n += 1275;
   pkt[n++] = (40<<1)|0;      /* long extension id 40, L=0: rest of padding */
   memcpy(pkt+n, "extdata!", 8); n += 8;
   ret = opus_repacketizer_cat(rp, pkt, n);
   printf("cat(len=%d) -> %d, nb_frames=%d\n", n, ret, opus_repacketizer_get_nb_frames(rp));
   if (ret != OPUS_OK) return 2;
   ret = opus_repacketizer_out(rp, out, 1277*opus_repacketizer_get_nb_frames(rp));
   printf("out(maxlen=1277) -> %d (%s)\n", ret, ret<0?opus_strerror(ret):"ok");
   if (ret < 0) fail = 1;
   ret = opus_repacketizer_out(rp, out, sizeof(out));
   printf("out(maxlen=4096) -> %d\n", ret);
   printf(fail ? "FAIL\n" : "PASS\n");
   return fail;
}
