/* finding_1.c - in-band FEC (LBRR) frames at speech onsets are quantised by the encoder with other sub-frame
 * gains than the ones the decoder dequantises from the transmitted indices.
 *
 * Public API only.  Build and run against the unmodified tree:
 *   cc -O2 -I/tmp/mut/HC18/include finding_1.c /tmp/mut/HC18/_build/libopus.a -lm -o finding_1 && ./finding_1
 * (works the same with the fixed-point library _build_fx/libopus.a)
 *
 * Scenario (the textbook FEC use): packets 0..t-1 are received, packet t is lost, packet t+1 arrives; the
 * receiver calls opus_decode(..., decode_fec=1) on packet t+1 to recover frame t.  We do that for every t with a
 * copy of the decoder that has seen packets 0..t-1, and compare the level of the recovered frame with the level of
 * the same frame decoded from the real packet t.  An LBRR frame is a coarser copy of the frame, so the two levels
 * must agree within a few dB.  On the unmodified library the recovered onset frames come out 10-25 dB too quiet.
 */
#include <stdio.h>
#include <stdlib.h>
#include <string.h>
#include <math.h>
#include "opus.h"

#define FS 16000
#define FRAME 320          /* 20 ms */
#define NFRAMES 400

static double level_db(const short *x, int n)
{
    double e = 1e-9; int i;
    for (i = 0; i < n; i++) e += (double)x[i] * x[i];
    return 10 * log10(e / n + 1e-9);
}

int main(void)
{
    static short in[NFRAMES * FRAME];
    static unsigned char pkt[NFRAMES][400]; int len[NFRAMES];
    short ref[FRAME], rec[FRAME];
    int err, t, i, bad = 0, compared = 0;
    unsigned seed = 1;
    double worst = 0;
    OpusEncoder *enc = opus_encoder_create(FS, 1, OPUS_APPLICATION_VOIP, &err);
    OpusDecoder *dec = opus_decoder_create(FS, 1, &err);
    OpusDecoder *clone = (OpusDecoder *)malloc(opus_decoder_get_size(1));

    opus_encoder_ctl(enc, OPUS_SET_BITRATE(24000));
    opus_encoder_ctl(enc, OPUS_SET_MAX_BANDWIDTH(OPUS_BANDWIDTH_WIDEBAND));
    opus_encoder_ctl(enc, OPUS_SET_INBAND_FEC(1));
    opus_encoder_ctl(enc, OPUS_SET_PACKET_LOSS_PERC(20));
    opus_encoder_ctl(enc, OPUS_SET_COMPLEXITY(10));

    /* talk spurts: 240 ms of a loud vowel-like sound, 260 ms of near silence; the onset falls inside a frame */
    for (i = 0; i < NFRAMES * FRAME; i++) {
        int pos = i % 8090, on = pos >= 4150 && pos < 4150 + 3840;  /* onset position drifts through the frame */
        double ph = i * 140.0 / FS, v = 0; int h;
        for (h = 1; h <= 12; h++) v += sin(2 * M_PI * h * ph) / h;
        seed = seed * 1664525u + 1013904223u;
        in[i] = (short)(on ? 9000 * v + ((int)(seed >> 20) % 201) - 100 : ((int)(seed >> 20) % 9) - 4);
    }
    for (t = 0; t < NFRAMES; t++) {
        len[t] = opus_encode(enc, in + t * FRAME, FRAME, pkt[t], sizeof pkt[t]);
        if (len[t] < 0) { printf("encode error\n"); return 2; }
    }
    printf("frame  in_dB  normal_dB  fec_dB   fec-normal\n");
    for (t = 0; t + 1 < NFRAMES; t++) {
        double lr, lf;
        /* receiver that got packets 0..t-1, lost packet t and recovers it from packet t+1 */
        memcpy(clone, dec, opus_decoder_get_size(1));
        if (opus_decode(clone, pkt[t + 1], len[t + 1], rec, FRAME, 1) != FRAME) { printf("fec decode error\n"); return 2; }
        /* receiver that got packet t */
        if (opus_decode(dec, pkt[t], len[t], ref, FRAME, 0) != FRAME) { printf("decode error\n"); return 2; }
        if (!opus_packet_has_lbrr(pkt[t + 1], len[t + 1])) continue;
        lr = level_db(ref, FRAME); lf = level_db(rec, FRAME);
        if (lr > 50) {
            compared++;
            if (lf - lr < worst) worst = lf - lr;
            if (lf < lr - 9) {
                bad++;
                printf("%5d  %5.1f  %8.1f  %6.1f   %+6.1f dB  <-- recovered frame far too quiet\n", t, level_db(in + t * FRAME, FRAME), lr, lf, lf - lr);
            } else if (compared % 25 == 0)
                printf("%5d  %5.1f  %8.1f  %6.1f   %+6.1f dB\n", t, level_db(in + t * FRAME, FRAME), lr, lf, lf - lr);
        }
    }
    printf("%d loud frames recovered by FEC, %d of them more than 9 dB too quiet (worst %.1f dB)\n", compared, bad, worst);
    if (bad) { printf("FAIL\n"); return 1; }
    printf("PASS\n");
    return 0;
}
