/* finding_1: a FIXED-POINT build produces different packets at arch level 4 (AVX2) than at
   levels 0..3, through the public API only.

   Build the fixed-point library and this program:
     cd /tmp/mut/HC15 && cmake -G Ninja -B _build_fx -DOPUS_FIXED_POINT=ON -DCMAKE_BUILD_TYPE=RelWithDebInfo \
          -DCMAKE_C_FLAGS=-Wno-error >/dev/null && cmake --build _build_fx
     cc -O1 -I/tmp/mut/HC15/include finding_1.c /tmp/mut/HC15/_build_fx/libopus.a -lm -o finding_1 && ./finding_1

   The program supplies its own opus_select_arch() (the "arch cap" hook of the property: the
   archive member celt/x86/x86cpu.c.o is then simply not linked), so each encoder is created at
   a chosen feature level.  Needs a CPU with AVX2+FMA.  Only opus.h is used.

   Input: 16 kHz mono, SILK-only, 100 ms packets, CBR 6374 b/s, in-band FEC on, complexity 8
   (3 delayed-decision states -> silk_NSQ_del_dec_avx2 at level 4), near-silence interleaved with
   full-scale bursts.  "./finding_1 search A B" scans seeds A..B-1 with random settings (arch 0 vs 4).  */
#include <stdio.h>
#include <stdlib.h>
#include <string.h>
#include <math.h>
#include "opus.h"

static int g_arch;
int opus_select_arch(void) { return g_arch; }

static unsigned rs;
static unsigned rnd(void) { rs = rs*1664525u + 1013904223u; return rs>>8; }

#define FS 16000
#define NFR 40
#define MAXFSZ 1920
static int FSZ = 320, FEC = 0, LOSS = 0, VBR = 0, ARCH_STEP = 1;
static short in[NFR*MAXFSZ];
static unsigned char pk[5][NFR][1500];
static int len[5][NFR];
static opus_uint32 rng[5][NFR];

static void make_signal(unsigned seed)
{
   int i, seg=0, loud=0, typ=0;
   rs = seed;
   for (i=0;i<NFR*FSZ;i++) {
      int v;
      if (seg<=0) { seg = 16*(2+rnd()%60); loud = rnd()%3; typ = rnd()%5; }
      seg--;
      if (!loud) v = (int)(rnd()%5)-2;
      else switch (typ) {
         case 0: v = (rnd()&1)?32767:-32768; break;
         case 1: v = (i%150==0)?32767:0; break;
         case 2: v = 32767; break;
         case 3: v = (i&1)?32767:-32768; break;
         default: v = (int)(32767*sin(i*0.9));
      }
      in[i] = (short)v;
   }
}

static int run(unsigned seed, int complexity, int bitrate, int verbose)
{
   int a, f, bad=0;
   make_signal(seed);
   for (a=0;a<5;a+=ARCH_STEP) {
      int err;
      OpusEncoder *e;
      g_arch = a;
      e = opus_encoder_create(FS, 1, OPUS_APPLICATION_VOIP, &err);
      if (!e) { printf("encoder create failed\n"); exit(2); }
      opus_encoder_ctl(e, OPUS_SET_BITRATE(bitrate));
      opus_encoder_ctl(e, OPUS_SET_COMPLEXITY(complexity));
      opus_encoder_ctl(e, OPUS_SET_VBR(VBR));
      opus_encoder_ctl(e, OPUS_SET_INBAND_FEC(FEC));
      opus_encoder_ctl(e, OPUS_SET_PACKET_LOSS_PERC(LOSS));
      opus_encoder_ctl(e, OPUS_SET_BANDWIDTH(OPUS_BANDWIDTH_WIDEBAND));
      opus_encoder_ctl(e, 11002 /* OPUS_SET_FORCE_MODE */, (opus_int32)1000 /* MODE_SILK_ONLY */);
      for (f=0;f<NFR;f++) {
         len[a][f] = opus_encode(e, in+f*FSZ, FSZ, pk[a][f], 1500);
         opus_encoder_ctl(e, OPUS_GET_FINAL_RANGE(&rng[a][f]));
      }
      opus_encoder_destroy(e);
   }
   for (a=ARCH_STEP;a<5;a+=ARCH_STEP) for (f=0;f<NFR;f++)
      if (len[a][f]!=len[0][f] || rng[a][f]!=rng[0][f] || (len[a][f]>0 && memcmp(pk[a][f],pk[0][f],len[a][f]))) {
         if (verbose) printf("FAIL: seed %u fsz %d fec %d loss %d vbr %d complexity %d bitrate %d: arch %d differs from arch 0 first at frame %d (len %d vs %d, final range %08x vs %08x)\n",
                seed, FSZ, FEC, LOSS, VBR, complexity, bitrate, a, f, len[a][f], len[0][f], rng[a][f], rng[0][f]);
         bad++; break;
      }
   return bad;
}

int main(int argc, char **argv)
{
   if (argc>1 && !strcmp(argv[1],"search")) {   /* how the hard-coded case was found */
      unsigned s; int n=0;
      static const int fszs[5]={320,640,960,1600,1920};
      ARCH_STEP = 4;
      for (s=(unsigned)atoi(argv[2]);s<(unsigned)atoi(argv[3]);s++) { int c, br; rs = s*2654435761u; c = 6+rnd()%5; br = 6000+rnd()%60000; FSZ=fszs[rnd()%5]; FEC=rnd()%3; LOSS=rnd()%30; VBR=rnd()&1; if (run(s,c,br,1)) n++; }
      printf("%d mismatching seeds\n", n);
      return n!=0;
   }
   {
      int bad;
      /* found with "./finding_1 search 1801 2401" */
      FSZ = 1600; FEC = 2; LOSS = 9; VBR = 0;
      bad = run(2276, 8, 6374, 1);
      if (!bad) { printf("PASS: packets identical at arch 0..4\n"); return 0; }
      printf("FAIL: fixed-point packets depend on the run-time arch level\n");
      return 1;
   }
}
