/* finding_1: opus_custom_encode() writes 3 bytes into a 2-byte buffer and returns 3 (CBR).
 *
 * Needs a custom-modes build:
 *   cd /tmp/mut/HC05 && cmake -G Ninja -B _build_cm -DCMAKE_BUILD_TYPE=RelWithDebInfo \
 *        -DOPUS_CUSTOM_MODES=ON -DCMAKE_C_FLAGS=-Wno-error >/dev/null && cmake --build _build_cm
 *   cc -I/tmp/mut/HC05/include finding_1.c /tmp/mut/HC05/_build_cm/libopus.a -lm -o finding_1 && ./finding_1
 * (with -fsanitize=address and the "exact" malloc(2) buffer below ASan reports heap-buffer-overflow
 *  in ec_enc_done / celt_encode_with_ec)
 */
#include <stdio.h>
#include <stdlib.h>
#include <string.h>
#include "opus_custom.h"

int main(void)
{
   int err, fail = 0, maxb, cfg;
   static const struct { int Fs, fs, ch, vbr; opus_int32 br; } cfgs[] = {
      {48000, 960, 1, 0, 64000},   /* the "standard" mode through the custom API */
      {44100, 512, 1, 0, 9136},
      {32000, 160, 2, 0, 29088},
      {48000, 960, 1, 0, OPUS_BITRATE_MAX},
      {48000, 960, 1, 1, 64000},
   };
   for (cfg = 0; cfg < (int)(sizeof(cfgs)/sizeof(cfgs[0])); cfg++)
   {
      OpusCustomMode *m = opus_custom_mode_create(cfgs[cfg].Fs, cfgs[cfg].fs, &err);
      OpusCustomEncoder *e;
      short pcm[960*2];
      int i;
      if (!m) { printf("mode_create failed (library built without OPUS_CUSTOM_MODES?)\n"); return 2; }
      e = opus_custom_encoder_create(m, cfgs[cfg].ch, &err);
      opus_custom_encoder_ctl(e, OPUS_SET_VBR(cfgs[cfg].vbr));
      opus_custom_encoder_ctl(e, OPUS_SET_BITRATE(cfgs[cfg].br));
      for (i = 0; i < cfgs[cfg].fs*cfgs[cfg].ch; i++) pcm[i] = (short)(((i*7919)%20000)-10000);
      for (maxb = 1; maxb <= 4; maxb++)
      {
         unsigned char buf[16];
         int ret, over = 0;
         memset(buf, 0xA5, sizeof(buf));
         ret = opus_custom_encode(e, pcm, cfgs[cfg].fs, buf, maxb);
         for (i = maxb; i < 16; i++) if (buf[i] != 0xA5) over = 1;
         printf("Fs=%d N=%d ch=%d vbr=%d br=%d maxCompressedBytes=%d -> ret=%d, bytes: %02x %02x %02x %02x%s%s\n",
               cfgs[cfg].Fs, cfgs[cfg].fs, cfgs[cfg].ch, cfgs[cfg].vbr, (int)cfgs[cfg].br, maxb, ret,
               buf[0], buf[1], buf[2], buf[3],
               over ? "  <-- WROTE PAST THE BUFFER" : "",
               ret > maxb ? "  <-- RETURN VALUE > maxCompressedBytes" : "");
         if (over || ret > maxb) fail = 1;
      }
      opus_custom_encoder_destroy(e);
      opus_custom_mode_destroy(m);
   }
   {
      /* exact-size heap buffer so that ASan/valgrind see the overflow directly */
      OpusCustomMode *m = opus_custom_mode_create(48000, 960, &err);
      OpusCustomEncoder *e = opus_custom_encoder_create(m, 1, &err);
      short pcm[960]; int i, ret; unsigned char *exact = malloc(2);
      for (i = 0; i < 960; i++) pcm[i] = (short)(((i*7919)%20000)-10000);
      opus_custom_encoder_ctl(e, OPUS_SET_VBR(0));
      opus_custom_encoder_ctl(e, OPUS_SET_BITRATE(64000));
      ret = opus_custom_encode(e, pcm, 960, exact, 2);
      printf("malloc(2) buffer: ret=%d\n", ret);
      free(exact);
      opus_custom_encoder_destroy(e);
      opus_custom_mode_destroy(m);
   }
   printf(fail ? "FAIL\n" : "PASS\n");
   return fail;
}
