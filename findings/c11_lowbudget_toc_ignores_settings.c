/* Replay for C11 / R11.8 (known finding, not repaired): the packet emitted when the byte budget is too
 * small for real coding ("PLC frame": TOC only) is generated in opus_encode_native before the bandwidth
 * and channel decisions.  Its TOC is built from st->bandwidth and st->stream_channels as the PREVIOUS frame
 * left them (fullband / the encoder's channel count on a new encoder), so the settings in force do not bind it:
 *   - an 8 kHz encoder announces FULLBAND (above the input's Nyquist limit);
 *   - OPUS_SET_MAX_BANDWIDTH / OPUS_SET_BANDWIDTH(narrowband) are ignored;
 *   - OPUS_SET_FORCE_CHANNELS(1) on a stereo encoder still announces stereo;
 *   - a RESTRICTED_LOWDELAY encoder (MDCT layer only) announces a hybrid frame.
 *   cc -I/repo/include findings/c11_lowbudget_toc_ignores_settings.c <build>/libopus.a -lm -o replay && ./replay
 * exits 1 while the defect is present.
 */
#include <stdio.h>
#include "opus.h"

static const char *bwn(int b)
{
   return b == OPUS_BANDWIDTH_NARROWBAND ? "NB" : b == OPUS_BANDWIDTH_MEDIUMBAND ? "MB" : b == OPUS_BANDWIDTH_WIDEBAND ? "WB" : b == OPUS_BANDWIDTH_SUPERWIDEBAND ? "SWB" : "FB";
}

int main(void)
{
   int err, i, n, bad = 0;
   short pcm[960 * 2];
   unsigned char pkt[16];
   OpusEncoder *e;
   for (i = 0; i < 1920; i++) pcm[i] = (short)(3000 * ((i * 7) % 13 - 6));

   e = opus_encoder_create(8000, 1, OPUS_APPLICATION_AUDIO, &err);
   n = opus_encode(e, pcm, 160, pkt, 2);
   printf("8 kHz mono encoder, 2-byte budget: %d byte(s), TOC %02x announces %s\n", n, pkt[0], bwn(opus_packet_get_bandwidth(pkt)));
   bad += n > 0 && opus_packet_get_bandwidth(pkt) > OPUS_BANDWIDTH_NARROWBAND;
   opus_encoder_destroy(e);

   e = opus_encoder_create(48000, 2, OPUS_APPLICATION_AUDIO, &err);
   opus_encoder_ctl(e, OPUS_SET_MAX_BANDWIDTH(OPUS_BANDWIDTH_NARROWBAND));
   opus_encoder_ctl(e, OPUS_SET_FORCE_CHANNELS(1));
   n = opus_encode(e, pcm, 960, pkt, 2);
   printf("48 kHz stereo encoder, max bandwidth NB, forced mono, 2-byte budget: %d byte(s), TOC %02x announces %s, %d channel(s)\n",
          n, pkt[0], bwn(opus_packet_get_bandwidth(pkt)), opus_packet_get_nb_channels(pkt));
   bad += n > 0 && opus_packet_get_bandwidth(pkt) > OPUS_BANDWIDTH_NARROWBAND;
   bad += n > 0 && opus_packet_get_nb_channels(pkt) != 1;
   opus_encoder_destroy(e);

   e = opus_encoder_create(48000, 2, OPUS_APPLICATION_AUDIO, &err);
   opus_encoder_ctl(e, OPUS_SET_BANDWIDTH(OPUS_BANDWIDTH_NARROWBAND));
   opus_encoder_ctl(e, OPUS_SET_BITRATE(500));
   opus_encoder_ctl(e, OPUS_SET_VBR(0));
   n = opus_encode(e, pcm, 960, pkt, 1500);
   printf("48 kHz stereo encoder, forced NB, 500 b/s CBR: %d byte(s), TOC %02x announces %s\n", n, pkt[0], bwn(opus_packet_get_bandwidth(pkt)));
   bad += n > 0 && opus_packet_get_bandwidth(pkt) > OPUS_BANDWIDTH_NARROWBAND;
   opus_encoder_destroy(e);

   e = opus_encoder_create(48000, 1, OPUS_APPLICATION_RESTRICTED_LOWDELAY, &err);
   n = opus_encode(e, pcm, 960, pkt, 2);
   printf("48 kHz low-delay encoder, 2-byte budget: %d byte(s), TOC %02x is configuration %d (%s)\n", n, pkt[0], pkt[0] >> 3, (pkt[0] >> 3) >= 16 ? "MDCT" : (pkt[0] >> 3) >= 12 ? "hybrid" : "SILK");
   bad += n > 0 && (pkt[0] >> 3) < 16;
   opus_encoder_destroy(e);

   printf(bad ? "FAIL: %d packets ignore the settings in force\n" : "PASS\n", bad);
   return bad ? 1 : 0;
}
