/* Replay for C13 / R13.10 (known finding, not repaired): the 16-bit projection decoder clips in the MIXED domain.
 *  (a) opus_projection_decode() asks the multistream decoder to soft-clip every elementary stream
 *      (soft_clip = OPTIONAL_CLIP = 1 in float builds) BEFORE the de-mixing matrix is applied;
 *  (b) mapping_matrix_multiply_channel_out_short() converts the stream sample with a saturating FLOAT2INT16
 *      before the product;
 *  (c) the running sum lives in the caller's opus_int16 buffer and is clamped after each stream's contribution.
 * Streams are in the mixed domain, where samples above full scale are normal (a row of the first-order mixing
 * matrix sums to 2 in absolute value), so for loud but legal input the 16-bit output is not "the float output,
 * de-mixed, rounded and saturated".  Removing (a) alone does not help (measured: 46620 of 96000 samples still
 * differ) - the de-mix needs a wide accumulator, i.e. a rewrite of the 16-bit entry point on top of a 32-bit buffer.
 *
 * The same 0.7 full-scale sine on the 4 first-order channels; both decoders get the same packets.
 *   cc -I/repo/include findings/c13_projection_decode16_clips_in_mixed_domain.c <build>/libopus.a -lm -o replay && ./replay
 * exits 1 when the 16-bit output differs from round(32768 * float output) by more than 8 LSB anywhere.
 */
#include <stdio.h>
#include <stdlib.h>
#include <math.h>
#include "opus.h"
#include "opus_projection.h"

#define FS 48000
#define FRAME 960
#define CH 4

int main(void)
{
   OpusProjectionEncoder *enc;
   OpusProjectionDecoder *d16, *df;
   int streams, coupled, err, f, i, bad = 0, worst = 0, n = 0;
   opus_int32 msize, gain;
   unsigned char matrix[2 * CH * CH], pkt[8000];
   enc = opus_projection_ambisonics_encoder_create(FS, CH, 3, &streams, &coupled, OPUS_APPLICATION_AUDIO, &err);
   if (!enc) return 2;
   opus_projection_encoder_ctl(enc, OPUS_PROJECTION_GET_DEMIXING_MATRIX_SIZE(&msize));
   opus_projection_encoder_ctl(enc, OPUS_PROJECTION_GET_DEMIXING_MATRIX_GAIN(&gain));
   if (msize != (opus_int32)sizeof(matrix)) return 2;
   opus_projection_encoder_ctl(enc, OPUS_PROJECTION_GET_DEMIXING_MATRIX(matrix, msize));
   opus_projection_encoder_ctl(enc, OPUS_SET_BITRATE(CH * 128000));
   d16 = opus_projection_decoder_create(FS, CH, streams, coupled, matrix, msize, &err);
   df = opus_projection_decoder_create(FS, CH, streams, coupled, matrix, msize, &err);
   if (!d16 || !df) return 2;
   for (f = 0; f < 25; f++) {
      static opus_int16 in[FRAME * CH], o16[FRAME * CH];
      static float of[FRAME * CH];
      int len, c;
      for (i = 0; i < FRAME; i++)
         for (c = 0; c < CH; c++)
            in[i * CH + c] = (opus_int16)(0.7 * 32767.0 * sin(2 * M_PI * 440.0 * (f * FRAME + i) / FS));
      len = opus_projection_encode(enc, in, FRAME, pkt, sizeof(pkt));
      if (len < 0) return 2;
      if (opus_projection_decode(d16, pkt, len, o16, FRAME, 0) != FRAME) return 2;
      if (opus_projection_decode_float(df, pkt, len, of, FRAME, 0) != FRAME) return 2;
      for (i = 0; i < FRAME * CH; i++) {
         double x = floor(.5 + 32768.0 * of[i]);
         int want = x > 32767 ? 32767 : x < -32768 ? -32768 : (int)x;
         int d = abs(want - o16[i]);
         n++;
         if (d > worst) worst = d;
         if (d > 8) bad++;
      }
   }
   printf("%d of %d samples of the 16-bit output differ from the rounded, saturated float output by more than 8 LSB (worst %d)\n", bad, n, worst);
   printf(bad ? "FAIL\n" : "PASS\n");
   return bad ? 1 : 0;
}
