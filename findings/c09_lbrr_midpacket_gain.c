/* In-band FEC with 40 ms SILK packets: when only the SECOND 20 ms frame of a packet has LBRR data
   (speech onset in the middle of a packet), the frame recovered by FEC should resemble the real frame. */
#include <stdio.h>
#include <stdlib.h>
#include <string.h>
#include <math.h>
#include "opus.h"
#define FS 16000
#define N 640   /* 40 ms */
static double en(const short *x,int n){double s=0;int i;for(i=0;i<n;i++)s+=(double)x[i]*x[i];return s/n;}
int main(void){
  int err,f,i,cases=0,bad=0;
  OpusEncoder *e=opus_encoder_create(FS,1,OPUS_APPLICATION_VOIP,&err);
  OpusDecoder *dn=opus_decoder_create(FS,1,&err), *dfec=opus_decoder_create(FS,1,&err);
  opus_encoder_ctl(e,OPUS_SET_BITRATE(24000)); opus_encoder_ctl(e,OPUS_SET_INBAND_FEC(1)); opus_encoder_ctl(e,OPUS_SET_PACKET_LOSS_PERC(25));
  opus_encoder_ctl(e,11002,1000); opus_encoder_ctl(e,OPUS_SET_EXPERT_FRAME_DURATION(OPUS_FRAMESIZE_40_MS));
  static short x[N], yn[N], yf[N]; static unsigned char pk[400][600]; static int ln[400];
  double ph=0; int T=300;
  for(f=0;f<T;f++){
    for(i=0;i<N;i++){ int t=f*N+i; /* bursts: 340 ms on, 300 ms off, so onsets fall at varying positions in the packet */
      int on = (t % 10560) < 5600; double env = on? 1.0:0.0; ph+=2*3.14159265*140.0/FS;
      double s=0; int h; for(h=1;h<9;h++) s+=sin(ph*h)/h; x[i]=(short)(env*6000*s + (rand()%7-3)); }
    ln[f]=opus_encode(e,x,N,pk[f],600); if(ln[f]<0){printf("enc err %d\n",ln[f]);return 2;}
  }
  /* decoder A decodes everything; decoder B loses packet f and recovers it from packet f+1 with FEC */
  for(f=0;f<T-1;f++){
    if(opus_decode(dn,pk[f],ln[f],yn,N,0)!=N) return 2;
    /* SILK header of packet f+1: TOC, then bit7..: VAD0 VAD1 LBRRflag ; LBRR pattern symbol follows - use the library: */
    if (f>=1 && opus_packet_has_lbrr(pk[f+1], ln[f+1])>0) {
      OpusDecoder *tmp=opus_decoder_create(FS,1,&err); int g;
      /* bring tmp to the same state as dn before packet f */
      memcpy(tmp, dfec, opus_decoder_get_size(1));
      int r=opus_decode(tmp,pk[f+1],ln[f+1],yf,N,1); if(r!=N){printf("fec ret %d\n",r);return 2;}
      double e1a=en(yn,N/2), e1b=en(yn+N/2,N/2), f1a=en(yf,N/2), f1b=en(yf+N/2,N/2);
      /* interesting case: real frame has an onset: first half quiet, second half loud */
      if(e1b>1e5 && e1a<e1b/50){ cases++;
        if(f1b < e1b/50){ bad++; if(bad<=5) printf("packet %d: real 2nd-half energy %.0f, FEC-recovered 2nd-half energy %.0f (first halves %.0f / %.0f)\n",f,e1b,f1b,e1a,f1a); } }
      opus_decoder_destroy(tmp);
    }
    if(opus_decode(dfec,pk[f],ln[f],yf,N,0)!=N) return 2;
  }
  printf("%d onset packets with LBRR in the following packet, %d recovered as near-silence\n",cases,bad);
  return bad!=0;
}
