/* Replay for C07 / R07.11 (reproduced by an independent sub-agent; the corruption is fixed in /repo, the refusal itself is the
 * known finding R07.10: re-encoded extensions can be longer than they came in).  Exits 1 while either is present.
 *   cc -I/repo/include findings/c07_pad_refused_and_corrupts.c <build>/libopus.a -lm -o replay && ./replay */
/* finding_2: opus_packet_pad() refuses to pad a valid packet by 1 byte (returns
   OPUS_BUFFER_TOO_SMALL, a code it is not documented to return) and, although it
   reports failure, has already rewritten the header of the caller's packet in
   place, leaving a buffer that no longer parses.  opus_repacketizer_out() of the
   very same single packet needs MORE bytes than the packet it was given.

   cc -I/tmp/mut/HC07/include finding_2.c /tmp/mut/HC07/_build/libopus.a -lm -o finding_2 && ./finding_2
*/
#include <stdio.h>
#include <string.h>
#include "opus.h"

#define NA 1020   /* payload of the long extension carried by frame 1 */

static int build(unsigned char *p)
{
   int pos = 0, i, padlen, j;
   unsigned char ext[2000]; int e = 0;
   /* extensions: frame 0: id 40 (1 byte), id 41 (1 byte); frame 1: id 40 (NA bytes, L=0 = "rest of padding") */
   ext[e++] = 40 * 2 + 1; ext[e++] = 1; ext[e++] = 'a';
   ext[e++] = 41 * 2 + 1; ext[e++] = 1; ext[e++] = 'b';
   ext[e++] = 0x02;                         /* frame separator */
   ext[e++] = 40 * 2 + 0;                   /* last extension, no length needed */
   for (i = 0; i < NA; i++) ext[e++] = (unsigned char)(i * 7 + 1);
   padlen = e;

   p[pos++] = (31 << 3) | 3;                /* CELT FB 20 ms mono, code 3 */
   p[pos++] = 0x80 | 0x40 | 2;              /* VBR, padding, 2 frames  (VBR with equal sizes: legal, not canonical) */
   j = padlen; while (j >= 255) { p[pos++] = 255; j -= 254; } p[pos++] = j;
   p[pos++] = 10;                           /* size of frame 0 */
   for (i = 0; i < 20; i++) p[pos++] = 0xC0 + i;   /* two 10-byte frames */
   memcpy(p + pos, ext, padlen); pos += padlen;
   return pos;
}

int main(void)
{
   static unsigned char pkt[4000], work[4000], out[8000];
   const unsigned char *fr[48]; opus_int16 sz[48]; unsigned char toc;
   int len, ret, fail = 0, n;
   OpusRepacketizer *rp;

   len = build(pkt);
   n = opus_packet_parse(pkt, len, &toc, fr, sz, NULL);
   printf("input: %d bytes, opus_packet_parse -> %d frames (%d,%d bytes)\n", len, n, sz[0], sz[1]);

   memcpy(work, pkt, len);
   ret = opus_packet_pad(work, len, len + 1);
   printf("opus_packet_pad(len=%d, new_len=%d) -> %d (%s)\n", len, len + 1, ret, opus_strerror(ret));
   if (ret != OPUS_OK) { printf("FAIL: padding a valid packet by one byte is refused\n"); fail = 1; }
   if (ret != OPUS_OK && memcmp(work, pkt, len)) {
      int i;
      for (i = 0; i < len && work[i] == pkt[i]; i++);
      printf("FAIL: pad failed but modified the caller's buffer: byte %d was %02x, now %02x\n", i, pkt[i], work[i]);
      n = opus_packet_parse(work, len, &toc, fr, sz, NULL);
      printf("      the buffer now parses as: %d (%s)\n", n, n < 0 ? opus_strerror(n) : "frames");
      fail = 1;
   }

   rp = opus_repacketizer_create();
   ret = opus_repacketizer_cat(rp, pkt, len);
   ret = opus_repacketizer_out(rp, out, len + 1);
   printf("repacketizer: cat(one %d-byte packet); out(maxlen=%d) -> %d\n", len, len + 1, ret);
   ret = opus_repacketizer_out(rp, out, sizeof(out));
   printf("repacketizer: out(maxlen=%d) -> %d bytes\n", (int)sizeof(out), ret);
   if (ret > len) { printf("FAIL: re-emitting a single packet unchanged needs %d bytes more than the packet\n", ret - len); fail = 1; }
   opus_repacketizer_destroy(rp);

   printf(fail ? "FAIL\n" : "PASS\n");
   return fail;
}
