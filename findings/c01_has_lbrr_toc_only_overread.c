/* opus_packet_has_lbrr() on a TOC-only SILK packet reads one byte past the input.
   cc -I/repo/include lbrr.c /repo/_build/libopus.a -lm && valgrind -q --error-exitcode=3 ./a.out */
#include <stdio.h>
#include <stdlib.h>
#include "opus.h"
int main(void){
  unsigned char *p = malloc(1);
  int r;
  p[0] = 0x08;            /* config 1: SILK-only NB 20 ms, mono, code 0 */
  r = opus_packet_has_lbrr(p, 1);
  printf("opus_packet_has_lbrr(TOC-only) = %d\n", r);
  free(p);
  return 0;
}
