/* Replay for C13 / R13.11 (also C19's "integer output saturates rather than wraps"): in the float build
 * opus_decode24() converted with float2int(8388608*x) without saturation.  With a legal decoder gain of +58.6 dB
 * (OPUS_SET_GAIN(15000)) a loud tone exceeds 256 x full scale, the conversion is undefined and yields INT32_MIN
 * for positive samples.
 *   cc -I/repo/include findings/c13_decode24_gain_overflow.c <build>/libopus.a -lm -o replay && ./replay
 * exits 1 when samples of opus_decode24 have the opposite sign of opus_decode_float's output.
 */
#include <stdio.h>
#include <math.h>
#include <stdlib.h>
#include "opus.h"
int main(void){int err,i,f,bad=0,n=0;static short in[960];unsigned char pkt[1500];static opus_int32 o24[960];static float of[960];
OpusEncoder*e=opus_encoder_create(48000,1,OPUS_APPLICATION_AUDIO,&err);
OpusDecoder*d1=opus_decoder_create(48000,1,&err),*d2=opus_decoder_create(48000,1,&err);
opus_decoder_ctl(d1,OPUS_SET_GAIN(15000));opus_decoder_ctl(d2,OPUS_SET_GAIN(15000));
for(f=0;f<20;f++){for(i=0;i<960;i++)in[i]=(short)(20000*sin(2*M_PI*440*(f*960+i)/48000.));
int len=opus_encode(e,in,960,pkt,1500);
opus_decode24(d1,pkt,len,o24,960,0);opus_decode_float(d2,pkt,len,of,960,0);
for(i=0;i<960;i++){double x=8388608.0*of[i];n++; if((x>1e6&&o24[i]<0)||(x<-1e6&&o24[i]>0)) {if(bad<3)printf("frame %d sample %d: float %.1f FS -> 24-bit %d\n",f,i,of[i],o24[i]);bad++;}}}
printf("%d of %d samples of opus_decode24 have the opposite sign of the float output (gain +%.1f dB)\n",bad,n,15000/256.);
return bad?1:0;}
