/* OPUS_GET_PITCH after OPUS_RESET_STATE must equal that of a fresh decoder (0).
   DecControl.prevPitchLag lies before the decoder's reset marker and is not cleared.
   cc -I/repo/include reset_pitch.c /repo/_build/libopus.a -lm && ./a.out */
#include <stdio.h>
#include <math.h>
#include "opus.h"
#define FS 16000
#define N 320
int main(void){
  int err, f, i; opus_int32 before=0, after=-1, fresh=-1;
  OpusEncoder *e=opus_encoder_create(FS,1,OPUS_APPLICATION_VOIP,&err);
  OpusDecoder *d=opus_decoder_create(FS,1,&err), *d2=opus_decoder_create(FS,1,&err);
  short x[N], y[N]; unsigned char p[1500];
  opus_encoder_ctl(e, OPUS_SET_BITRATE(16000));
  for(f=0;f<35;f++){ int len;
    for(i=0;i<N;i++){ double t=(f*N+i)/(double)FS; double s=0; int h; for(h=1;h<8;h++) s+=sin(2*3.14159265*120*h*t)/h; x[i]=(short)(7000*s); }
    len=opus_encode(e,x,N,p,1500); if(len<0) return 2;
    if(opus_decode(d,p,len,y,N,0)<0) return 2; }
  opus_decoder_ctl(d, OPUS_GET_PITCH(&before));
  opus_decoder_ctl(d, OPUS_RESET_STATE);
  opus_decoder_ctl(d, OPUS_GET_PITCH(&after));
  opus_decoder_ctl(d2, OPUS_GET_PITCH(&fresh));
  printf("pitch before reset %d, after reset %d, fresh decoder %d\n", before, after, fresh);
  printf(after==fresh ? "PASS\n":"FAIL\n");
  return after!=fresh;
}
