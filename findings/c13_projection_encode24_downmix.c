/* opus_projection_encode24() must see the same audio as opus_projection_encode_float():
   with the 16-bit down-mix reader on int32 input the analysis runs on garbage.
   cc -I/repo/include proj24.c /repo/_build/libopus.a -lm && ./a.out */
#include <stdio.h>
#include <stdlib.h>
#include <string.h>
#include <math.h>
#include "opus.h"
#include "opus_projection.h"
#define FS 48000
#define CH 4
#define N 960
int main(void){
  int err, streams, coupled, f, i, c, diff=0, total=0;
  OpusProjectionEncoder *e24 = opus_projection_ambisonics_encoder_create(FS, CH, 3, &streams, &coupled, OPUS_APPLICATION_AUDIO, &err);
  OpusProjectionEncoder *efl = opus_projection_ambisonics_encoder_create(FS, CH, 3, &streams, &coupled, OPUS_APPLICATION_AUDIO, &err);
  static opus_int32 p24[N*CH]; static float pf[N*CH];
  unsigned char a[4000], b[4000];
  double ph=0;
  if(!e24||!efl){printf("create failed %d\n",err);return 2;}
  opus_projection_encoder_ctl(e24, OPUS_SET_BITRATE(96000)); opus_projection_encoder_ctl(efl, OPUS_SET_BITRATE(96000));
  for(f=0;f<200;f++){
    for(i=0;i<N;i++){ ph+=2*3.14159265*(200.0+f*7)/FS;
      for(c=0;c<CH;c++){ double v = ((f/25)&1) ? 0.0003*sin(ph*(c+1)) : 0.25*sin(ph*(c+1))+0.05*sin(ph*7.3*(c+2));
        opus_int32 q=(opus_int32)lrint(v*8388608.0); p24[i*CH+c]=q; pf[i*CH+c]=q/8388608.0f; } }
    int la=opus_projection_encode24(e24,p24,N,a,sizeof a);
    int lb=opus_projection_encode_float(efl,pf,N,b,sizeof b);
    total++;
    if(la!=lb || memcmp(a,b,la>0?la:0)) diff++;
  }
  printf("%d of %d packets differ between the 24-bit and float entry points\n",diff,total);
  printf(diff? "FAIL\n":"PASS\n");
  return diff!=0;
}
