/* Replay for C05 / R05.2 (reproduced by an independent sub-agent; fixed in /repo): in the multi-frame path of
 * opus_encode_native the per-frame budget curr_max was not capped at 1276.  At >= 512 kb/s a hybrid sub-frame that
 * carries a redundancy frame (mode transition) then exceeds 1275 bytes, opus_repacketizer_cat rejects it and the
 * encode call fails with OPUS_INTERNAL_ERROR for a legal request.
 *   cc -I/repo/include findings/c05_multiframe_budget_above_1276.c <build>/libopus.a -lm -o replay && ./replay
 */
/* Pristine-tree finding (C05): opus_encode() returns OPUS_INTERNAL_ERROR for a
 * legal configuration instead of a packet of 1..max_data_bytes bytes.
 *
 * 48 kHz stereo, VBR (default), 60 ms frames at 24 kb/s  -> hybrid packets.
 * Then OPUS_SET_BITRATE(512000) and a 40 ms frame with a 2555-byte (or larger)
 * output buffer: this is the SILK/hybrid -> CELT transition frame, coded as
 * 2 x 20 ms hybrid frames of which the last carries a 5 ms redundant CELT frame.
 *
 * cc -I/tmp/mut/C05/include extra_pristine_1.c /tmp/mut/C05/_build/libopus.a -lm -o extra_pristine_1 && ./extra_pristine_1
 */
#include <stdio.h>
#include <stdlib.h>
#include <string.h>
#include "opus.h"

static unsigned int rng = 7;
static unsigned rnd(void) { rng ^= rng << 13; rng ^= rng >> 17; rng ^= rng << 5; return rng; }
static void noise(short *pcm, int n) { int i; for (i = 0; i < n; i++) pcm[i] = (short)(((int)(rnd() & 0xffff) - 32768) * 0.2); }

static int trial(opus_int32 bitrate, int dur_ms, int max_bytes)
{
   static unsigned char buf[8000];
   static short pcm[5760 * 2];
   int err, k, len = 0, fs = 48000;
   OpusEncoder *enc = opus_encoder_create(fs, 2, OPUS_APPLICATION_VOIP, &err);
   if (!enc) exit(2);
   opus_encoder_ctl(enc, OPUS_SET_BITRATE(24000));
   for (k = 0; k < 4; k++) {
      noise(pcm, fs * 60 / 1000 * 2);
      len = opus_encode(enc, pcm, fs * 60 / 1000, buf, 1500);
      if (len < 1) { printf("unexpected: warm-up returned %d\n", len); exit(2); }
   }
   opus_encoder_ctl(enc, OPUS_SET_BITRATE(bitrate));
   noise(pcm, fs * dur_ms / 1000 * 2);
   len = opus_encode(enc, pcm, fs * dur_ms / 1000, buf, max_bytes);
   printf("  bitrate %6d, %3d ms frame, max_data_bytes %4d -> %d%s\n", bitrate, dur_ms, max_bytes, len,
          (len < 1 || len > max_bytes) ? "   <-- not a length in 1..max_data_bytes" : "");
   opus_encoder_destroy(enc);
   return len < 1 || len > max_bytes;
}

int main(void)
{
   int bad = 0;
   bad += trial(512000, 40, 2554);   /* fine: per-frame budget 1276 */
   bad += trial(512000, 40, 2555);   /* per-frame budget 1277 */
   bad += trial(512000, 40, 4000);
   bad += trial(510000, 40, 4000);   /* fine: 510000/400 = 1275 */
   bad += trial(600000, 60, 4000);
   bad += trial(600000, 100, 7000);
   if (bad) { printf("FAIL (%d calls returned an error for a legal request)\n", bad); return 1; }
   printf("PASS\n");
   return 0;
}
