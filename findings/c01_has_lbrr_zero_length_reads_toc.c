/* Replay for C01 / R01.2 (reproduced by an independent sub-agent; fixed in /repo): opus_packet_has_lbrr(p, 0)
 * read p[0] (three TOC helpers) before the length was examined.  The packet is placed against a PROT_NONE page.
 *   cc -I/repo/include findings/c01_has_lbrr_zero_length_reads_toc.c <build>/libopus.a -lm -o replay && ./replay */
/* extra_pristine_1: opus_packet_has_lbrr(packet, len) with len == 0 reads
 * packet[0] (three times: mode, samples-per-frame, channel count) before the
 * length is looked at by opus_packet_parse(). A zero-length packet that sits
 * at the very end of a readable page makes that read fault.
 *
 * cc -I/tmp/mut/C01/include extra_pristine_1.c /tmp/mut/C01/_build/libopus.a -lm -o extra_pristine_1 && ./extra_pristine_1
 */
#include <stdio.h>
#include <string.h>
#include <signal.h>
#include <unistd.h>
#include <sys/mman.h>
#include "opus.h"

static void on_segv(int sig)
{
   static const char msg[] = "opus_packet_has_lbrr(p, 0) read p[0] (SIGSEGV)\nFAIL\n";
   (void)sig;
   if (write(1, msg, sizeof(msg)-1) < 0) {}
   _exit(1);
}

int main(void)
{
   long pagesz = sysconf(_SC_PAGESIZE);
   unsigned char *base = mmap(NULL, 2*pagesz, PROT_READ|PROT_WRITE, MAP_PRIVATE|MAP_ANONYMOUS, -1, 0);
   const unsigned char *p;
   int ret;
   if (base == MAP_FAILED) { perror("mmap"); return 2; }
   if (mprotect(base + pagesz, pagesz, PROT_NONE)) { perror("mprotect"); return 2; }
   signal(SIGSEGV, on_segv);
   signal(SIGBUS, on_segv);
   p = base + pagesz;               /* zero readable bytes at p */

   /* the other inspection functions that take a length cope with len == 0 */
   ret = opus_packet_get_nb_frames(p, 0);
   if (ret != OPUS_BAD_ARG) { printf("get_nb_frames returned %d\nFAIL\n", ret); return 1; }
   ret = opus_packet_get_nb_samples(p, 0, 48000);
   if (ret != OPUS_BAD_ARG) { printf("get_nb_samples returned %d\nFAIL\n", ret); return 1; }
   {
      unsigned char toc; opus_int16 size[48];
      ret = opus_packet_parse(p, 0, &toc, NULL, size, NULL);
      if (ret != OPUS_INVALID_PACKET) { printf("parse returned %d\nFAIL\n", ret); return 1; }
   }
   ret = opus_packet_has_lbrr(p, 0);
   printf("opus_packet_has_lbrr(p, 0) returned %d\n", ret);
   if (ret >= 0) { printf("FAIL\n"); return 1; }
   printf("PASS\n");
   return 0;
}
