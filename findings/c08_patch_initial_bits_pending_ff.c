/* Replay for C08 / R08.8 (reproduced by an independent sub-agent; fixed in /repo).
 *   cc -DHAVE_CONFIG_H -DVAR_ARRAYS -DOPUS_BUILD -I<build> -I/repo/include -I/repo/celt -I/repo findings/c08_patch_initial_bits_pending_ff.c <build>/libopus.a -lm -o replay && ./replay */
/* C08 extra finding on the UNMODIFIED tree: ec_enc_patch_initial_bits() when
   the first range-coder byte is 0xFF and therefore still held in the carry
   counter (ext>0, rem<0, offs==0).  The function then takes its third branch
   ("the renormalization loop has never been run"), patches bits of `val` that
   belong to the SECOND byte of the stream, leaves the first byte alone, and
   reports no error.
   Build:
     cc -I/tmp/mut/C08/include -I/tmp/mut/C08/celt -I/tmp/mut/C08 extra_pristine_1.c \
        /tmp/mut/C08/_build/libopus.a -lm -o extra_pristine_1
   Exit 0 / "PASS" if patching behaves, exit 1 / "FAIL" otherwise. */
#include <stdio.h>
#include <string.h>
#include "entenc.h"
#include "entdec.h"

/* Encode `lead` (8 bits, MSB first) as eight logp=1 bits, then the bits 0,0,
   then patch the first two bits of the stream to `patch`.  With logp=1 symbols
   on a fresh coder every symbol is exactly one bit of the first bytes, so the
   decoder must see patch(2 bits), lead(low 6 bits), 0, 0. */
static int run(unsigned lead, unsigned patch)
{
   unsigned char buf[8];
   ec_enc enc; ec_dec dec;
   int i, bad=0;
   unsigned expect[10], got[10];
   memset(buf,0,sizeof(buf));
   ec_enc_init(&enc,buf,8);
   for(i=0;i<8;i++) ec_enc_bit_logp(&enc,(lead>>(7-i))&1,1);
   ec_enc_bit_logp(&enc,0,1);
   ec_enc_bit_logp(&enc,0,1);
   ec_enc_patch_initial_bits(&enc,patch,2);
   if(ec_get_error(&enc)){ printf("  lead=0x%02x: encoder reported an error (allowed)\n",lead); return 0; }
   ec_enc_done(&enc);
   if(ec_get_error(&enc)){ printf("  lead=0x%02x: encoder reported an error (allowed)\n",lead); return 0; }
   expect[0]=(patch>>1)&1; expect[1]=patch&1;
   for(i=2;i<8;i++) expect[i]=(lead>>(7-i))&1;
   expect[8]=0; expect[9]=0;
   ec_dec_init(&dec,buf,8);
   for(i=0;i<10;i++){ got[i]=ec_dec_bit_logp(&dec,1); if(got[i]!=expect[i]) bad=1; }
   if(bad){
      printf("  lead=0x%02x patch=%u: no encoder error, bytes %02x %02x, decoded ",lead,patch,buf[0],buf[1]);
      for(i=0;i<10;i++) printf("%u",got[i]);
      printf(" expected ");
      for(i=0;i<10;i++) printf("%u",expect[i]);
      printf("\n");
   }
   return bad;
}

int main(void)
{
   int fails=0;
   unsigned lead, patch;
   for(lead=0;lead<256;lead++)
      for(patch=0;patch<4;patch++)
         fails+=run(lead,patch);
   if(fails){ printf("FAIL (%d cases)\n",fails); return 1; }
   printf("PASS\n");
   return 0;
}
