/* Replay for C12 (reproduced by an independent sub-agent on the unmodified tree; fixed in /repo).
 *   cc -I/repo/include findings/c12_reset_keeps_celt_prediction.c <build>/libopus.a -lm -o replay && ./replay */
/* C12 on the UNMODIFIED tree: a second way in which OPUS_RESET_STATE does not
 * give back a "new" encoder.
 *
 * The CELT encoder's force_intra / disable_pf (set with CELT_SET_PREDICTION) sit
 * in the configuration part of the CELT state, so they survive OPUS_RESET_STATE.
 * opus_encode_native() sets CELT_SET_PREDICTION(0) after a mode-switch prefill
 * and for SILK->CELT redundancy, and sets it back to 2 only when the main frame
 * uses CELT.  The 5 ms CELT->SILK redundancy frame does not set it at all, so
 * when that is the first use of CELT after a reset it is coded with the value
 * left over from before the reset (intra) instead of the init value (inter).
 *
 * History before the reset : 20 ms SILK packets, then one 5 ms packet (CELT-only;
 *                            the switch leaves CELT_SET_PREDICTION(0) behind).
 * After the reset          : 20 ms SILK packet; a 10 ms packet into a 9-byte
 *                            buffer (the encoder wants CELT, stays in SILK for the
 *                            transition, has no room for the redundant frame);
 *                            20 ms SILK packet with CELT->SILK redundancy.
 *
 * cc -I/tmp/mut/C12/include extra_pristine_2.c /tmp/mut/C12/_build/libopus.a -lm -o extra_pristine_2 && ./extra_pristine_2
 */
#include <stdio.h>
#include <stdlib.h>
#include <string.h>
#include <math.h>
#include "opus.h"

#define FS 48000

static unsigned int seed = 31337;
static int rnd(void) { seed = seed*1664525u + 1013904223u; return (int)(seed>>16)&0x7fff; }
static int phase;

static void gen(opus_int16 *pcm, int n)
{
   int i;
   for (i=0;i<n;i++)
   {
      double t = (phase+i)/(double)FS;
      pcm[i] = (opus_int16)(7000*sin(2*M_PI*160*t)+3000*sin(2*M_PI*480*t)+1500*sin(2*M_PI*2100*t)+(rnd()-16384)*0.05);
   }
   phase += n;
}

static OpusEncoder *make(void)
{
   int err;
   OpusEncoder *e = opus_encoder_create(FS, 1, OPUS_APPLICATION_VOIP, &err);
   if (!e || err != OPUS_OK) { printf("create failed\n"); exit(2); }
   opus_encoder_ctl(e, OPUS_SET_SIGNAL(OPUS_SIGNAL_VOICE));
   opus_encoder_ctl(e, OPUS_SET_BITRATE(16000));
   opus_encoder_ctl(e, OPUS_SET_MAX_BANDWIDTH(OPUS_BANDWIDTH_WIDEBAND));
   /* at complexity >= 4 CELT tries intra and inter energy coding and picks intra on
      its own for this first frame, which hides the difference */
   opus_encoder_ctl(e, OPUS_SET_COMPLEXITY(3));
   return e;
}

int main(void)
{
   static const int post_n[5]   = {960, 480, 960, 960, 960};
   static const int post_max[5] = {1275, 9, 1275, 1275, 1275};
   opus_int16 pcm[960];
   unsigned char pa[1500], pb[1500];
   OpusEncoder *used, *fresh;
   int f, bad=0;

   used = make();
   for (f=0;f<10;f++)
   {
      gen(pcm, 960);
      if (opus_encode(used, pcm, 960, pa, sizeof(pa)) < 0) { printf("encode failed\n"); return 2; }
   }
   gen(pcm, 240);
   if (opus_encode(used, pcm, 240, pa, sizeof(pa)) < 0) { printf("encode failed\n"); return 2; }

   opus_encoder_ctl(used, OPUS_RESET_STATE);
   fresh = make();

   for (f=0;f<5;f++)
   {
      int la, lb;
      opus_uint32 ra, rb;
      gen(pcm, post_n[f]);
      la = opus_encode(used, pcm, post_n[f], pa, post_max[f]);
      lb = opus_encode(fresh, pcm, post_n[f], pb, post_max[f]);
      opus_encoder_ctl(used, OPUS_GET_FINAL_RANGE(&ra));
      opus_encoder_ctl(fresh, OPUS_GET_FINAL_RANGE(&rb));
      if (la < 0 || la != lb || ra != rb || memcmp(pa, pb, la) != 0)
      {
         printf("packet %d after reset: reset encoder %d bytes TOC 0x%02x rng %08x, new encoder %d bytes TOC 0x%02x rng %08x\n",
               f, la, pa[0], (unsigned)ra, lb, pb[0], (unsigned)rb);
         bad++;
      }
   }
   opus_encoder_destroy(used);
   opus_encoder_destroy(fresh);
   if (bad) { printf("FAIL: %d of 5 packets differ between the reset encoder and a new one\n", bad); return 1; }
   printf("PASS\n");
   return 0;
}
