/* Replay (reproduced by an independent sub-agent on the unmodified tree; fixed in /repo). Needs a fixed-point build with -DENABLE_RES24.
 *   cc -I/repo/include findings/c19_res24_gain_clamps_at_16_bits.c <build>/libopus.a -lm -o replay && ./replay */
/* C19 extra (pristine tree, fixed-point build with 24-bit internal resolution,
   i.e. configure --enable-fixed-point --enable-fixed-res24 or
   -DOPUS_FIXED_POINT=ON with -DENABLE_RES24):
   any non-zero decoder gain limits the decoded signal to +/-32767 in the
   24-bit domain, which is +/-128 in 16-bit output: the gain code saturates
   with the 16-bit limit although the samples are 24-bit there.

   Twin decoders, A with gain 0, B with gain +6 dB (or -6 dB); B's 16-bit
   output must be sat16(A * 10^(g/5120)) up to rounding.

   Build the library:
     cmake -G Ninja -S /tmp/mut/C19 -B /tmp/mut/C19_out/build_fx24 -DOPUS_FIXED_POINT=ON -DCMAKE_C_FLAGS="-Wno-error -DENABLE_RES24" && cmake --build /tmp/mut/C19_out/build_fx24
   cc -I/tmp/mut/C19/include extra_pristine_2.c /tmp/mut/C19_out/build_fx24/libopus.a -lm -o extra_pristine_2 && ./extra_pristine_2
   (passes when linked against the float build /tmp/mut/C19/_build/libopus.a or the plain
   fixed-point build without ENABLE_RES24)
*/
#include <stdio.h>
#include <stdlib.h>
#include <math.h>
#include "opus.h"

#define FS 48000
#define FRAME 960
#define NPKT 10
#define MAXB 1500

int main(void)
{
   static unsigned char pkt[NPKT][MAXB];
   int len[NPKT];
   static opus_int16 in[FRAME];
   static opus_int16 outa[FRAME], outb[FRAME];
   static const int gains[] = {1536, -1536};
   OpusEncoder *enc;
   int err, i, k, gi, bad=0;

   enc = opus_encoder_create(FS, 1, OPUS_APPLICATION_RESTRICTED_LOWDELAY, &err);
   if (err) return 2;
   opus_encoder_ctl(enc, OPUS_SET_BITRATE(96000));
   for (k=0;k<NPKT;k++)
   {
      for (i=0;i<FRAME;i++)
         in[i] = (opus_int16)(8000*sin(2*3.14159265358979*440*(k*FRAME+i)/(double)FS));
      len[k] = opus_encode(enc, in, FRAME, pkt[k], MAXB);
      if (len[k]<=0) return 2;
   }
   opus_encoder_destroy(enc);

   for (gi=0;gi<2;gi++)
   {
      OpusDecoder *da, *db;
      double gain = pow(10., gains[gi]/5120.);
      int maxa=0, maxb=0, nbad=0;
      da = opus_decoder_create(FS, 1, &err);
      db = opus_decoder_create(FS, 1, &err);
      if (opus_decoder_ctl(db, OPUS_SET_GAIN(gains[gi]))!=OPUS_OK) return 2;
      for (k=0;k<NPKT;k++)
      {
         int na, nb;
         na = opus_decode(da, pkt[k], len[k], outa, FRAME, 0);
         nb = opus_decode(db, pkt[k], len[k], outb, FRAME, 0);
         if (na!=FRAME || nb!=FRAME) return 2;
         for (i=0;i<FRAME;i++)
         {
            double want = gain*outa[i];
            if (want>32767) want=32767;
            if (want<-32768) want=-32768;
            if (abs(outa[i])>maxa) maxa=abs(outa[i]);
            if (abs(outb[i])>maxb) maxb=abs(outb[i]);
            /* the unity-gain twin is itself rounded to 16 bits: allow gain/2+1.5,
               plus 0.3% for the fixed-point approximation of 2^x */
            if (fabs(outb[i]-want) > 0.5*gain+1.5+0.003*fabs(want))
            {
               if (!nbad)
                  printf("gain %d packet %d sample %d: unity-gain twin %d, expected %.1f, got %d\n",
                        gains[gi], k, i, outa[i], want, outb[i]);
               nbad++;
            }
         }
      }
      printf("gain %d: peak of the unity-gain twin %d, peak with gain %d (expected about %.0f), %d samples wrong\n",
            gains[gi], maxa, maxb, gain*maxa>32767?32767.:gain*maxa, nbad);
      bad += nbad;
      opus_decoder_destroy(da);
      opus_decoder_destroy(db);
   }
   if (bad)
   {
      printf("FAIL: decoder gain does not scale the 16-bit output\n");
      return 1;
   }
   printf("PASS\n");
   return 0;
}
