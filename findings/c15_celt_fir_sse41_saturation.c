/* Replay for C15 / R15.4: in a fixed-point build celt_fir_c() and celt_fir_sse4_1() saturate differently.
 *
 * celt_fir_c stores SROUND16(sum, SIG_SHIFT) = SATURATE(.., 32767): the symmetric range [-32767, 32767].
 * celt_fir_sse4_1 narrows with _mm_packs_epi32 (and SATURATE16 in its scalar tail): [-32768, 32767].
 * Whenever the filter output underflows, the SSE4.1 level returns -32768 where the C level returns -32767,
 * so PCM of the CELT concealment (the caller) is not identical across CPU feature levels.
 *
 * needs a fixed-point build:  cmake -DOPUS_FIXED_POINT=ON ...
 *   cc -DHAVE_CONFIG_H -DFIXED_POINT=1 -DOPUS_HAVE_RTCD -DOPUS_X86_MAY_HAVE_SSE -DOPUS_X86_MAY_HAVE_SSE2 -DOPUS_X86_MAY_HAVE_SSE4_1 \
 *      -DOPUS_X86_MAY_HAVE_AVX2 -DOPUS_X86_PRESUME_SSE -DOPUS_X86_PRESUME_SSE2 -I<build> -I/repo/include -I/repo/celt -I/repo/silk -msse4.1 \
 *      findings/c15_celt_fir_sse41_saturation.c <build>/libopus.a -lm -o replay && ./replay
 * exits 1 on the defective tree (prints the mismatches), 0 when the two kernels agree.
 */
#include <stdio.h>
#include <string.h>
#include "config.h"
#include "arch.h"
#include "celt_lpc.h"
#include "x86/celt_lpc_sse.h"

#define N   64
#define ORD 24

int main(void)
{
   opus_val16 xbuf[N + ORD], num[ORD], yc[N], ys[N];
   int i, k, bad = 0, cases = 0;
   /* inputs the concealment can produce: samples in [-32767, 32767], an LPC filter with gain */
   for (k = 0; k < 4; k++) {
      for (i = 0; i < N + ORD; i++)
         xbuf[i] = (opus_val16)(k == 0 ? -32767 : k == 1 ? (i & 1 ? -32767 : -30000) : k == 2 ? -20000 - 37 * i : (i % 7 ? -32000 : 1000));
      for (i = 0; i < ORD; i++)
         num[i] = (opus_val16)(k == 3 ? (i < 4 ? 2048 : 0) : (i == 0 ? 4096 : i == 1 ? 1024 : 0));   /* Q12 taps that add to the input */
      memset(yc, 0, sizeof(yc));
      memset(ys, 0, sizeof(ys));
      celt_fir_c(xbuf + ORD, num, yc, N, ORD, 0);
      celt_fir_sse4_1(xbuf + ORD, num, ys, N, ORD, 0);
      for (i = 0; i < N; i++) {
         cases++;
         if (yc[i] != ys[i]) {
            if (bad < 6) printf("  data set %d, sample %d: celt_fir_c = %d, celt_fir_sse4_1 = %d\n", k, i, yc[i], ys[i]);
            bad++;
         }
      }
   }
   printf("%d of %d outputs differ between the C and the SSE4.1 kernel\n", bad, cases);
   printf(bad ? "FAIL: kernels are not bit-identical\n" : "PASS\n");
   return bad ? 1 : 0;
}
