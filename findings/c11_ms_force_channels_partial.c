/* C11 / R11.9 (known finding): a rejected OPUS_SET_FORCE_CHANNELS(2) on a 5.1
   surround encoder is already applied to the coupled streams. */
#include <stdio.h>
#include "opus.h"
#include "opus_multistream.h"
int main(void){
  int err,streams,coupled,s; unsigned char mapping[8];
  OpusMSEncoder *e=opus_multistream_surround_encoder_create(48000,6,1,&streams,&coupled,mapping,OPUS_APPLICATION_AUDIO,&err);
  int r=opus_multistream_encoder_ctl(e,OPUS_SET_FORCE_CHANNELS(2));
  printf("set -> %d\n",r);
  int bad=0;
  for(s=0;s<streams;s++){ OpusEncoder *se; opus_int32 v; opus_multistream_encoder_ctl(e,OPUS_MULTISTREAM_GET_ENCODER_STATE(s,&se));
    opus_encoder_ctl(se,OPUS_GET_FORCE_CHANNELS(&v)); printf("stream %d force_channels=%d\n",s,v); if(r!=0 && v!=OPUS_AUTO) bad=1; }
  return bad; }
