/* Replay for C16 / R16.11 (known finding; found by a sub-agent hunting for violations on the unmodified tree).
 *   cc -I/repo/include findings/c16_extension_count_sizes_stack_array.c <build>/libopus.a -lm -lpthread -o replay && ./replay */
/* finding_1: the repacketizer (and opus_packet_pad) put one 24-byte record per
   extension of every catenated packet on the C stack (VLA / alloca).  The
   number of extensions is chosen by the packet, and the "repeat these
   extensions" indicator multiplies it by up to 48 per padding byte, so a small
   well-formed packet exhausts the stack and the process dies with SIGSEGV.

   Build (default library build, public API only):
     cc -I/tmp/mut/HC16/include finding_1.c /tmp/mut/HC16/_build/libopus.a -lm -lpthread -o finding_1
   Run:
     ./finding_1            8 KB packet, main thread (8 MB stack)  -> child killed by SIGSEGV
     ./finding_1 thread     200-byte packet (9120 extensions, the property's own
                            "~9000 entries" bound) on a thread with a 192 KB stack
     ./finding_1 pad        same 8 KB packet through opus_packet_pad()
*/
#include <stdio.h>
#include <stdlib.h>
#include <string.h>
#include <signal.h>
#include <unistd.h>
#include <pthread.h>
#include <sys/wait.h>
#include <opus.h>

static unsigned char *pkt, *out;
static int pktlen, outmax, use_pad;

/* code-3 CBR packet, 48 empty 2.5 ms CELT frames, padding = N x {id 3, L=0}
   followed by "repeat these extensions" (0x04): N*48 extensions in N+1 bytes */
static void build(int N)
{
   int P = N+1, pos = 0, k = 0;
   pkt = malloc(P + P/254 + 16);
   pkt[pos++] = 0x83;
   pkt[pos++] = 48|0x40;
   while (P-254*k > 254) { pkt[pos++] = 255; k++; }
   pkt[pos++] = P-254*k;
   memset(pkt+pos, 0x06, N); pos += N;
   pkt[pos++] = 0x04;
   pktlen = pos;
   outmax = 4*pos + 4096;
   out = malloc(outmax);
}

static void *work(void *arg)
{
   int r;
   (void)arg;
   if (use_pad) {
      memcpy(out, pkt, pktlen);
      r = opus_packet_pad(out, pktlen, pktlen+10);
      printf("opus_packet_pad -> %d\n", r);
   } else {
      OpusRepacketizer *rp = opus_repacketizer_create();
      r = opus_repacketizer_cat(rp, pkt, pktlen);
      printf("opus_repacketizer_cat -> %d\n", r);
      r = opus_repacketizer_out(rp, out, outmax);
      printf("opus_repacketizer_out -> %d\n", r);
      opus_repacketizer_destroy(rp);
   }
   fflush(stdout);
   return NULL;
}

int main(int argc, char **argv)
{
   int thread = argc > 1 && !strcmp(argv[1], "thread");
   int status;
   pid_t pid;
   use_pad = argc > 1 && !strcmp(argv[1], "pad");
   build(thread ? 190 : 8000);
   printf("packet: %d bytes, %d frames, %d extensions\n", pktlen,
    opus_packet_get_nb_frames(pkt, pktlen), (thread ? 190 : 8000)*48);
   fflush(stdout);
   pid = fork();
   if (pid == 0) {
      if (thread) {
         pthread_t t; pthread_attr_t a;
         pthread_attr_init(&a);
         pthread_attr_setstacksize(&a, 192*1024);
         pthread_create(&t, &a, work, NULL);
         pthread_join(t, NULL);
      } else work(NULL);
      _exit(0);
   }
   waitpid(pid, &status, 0);
   if (WIFSIGNALED(status)) {
      printf("FAIL: child killed by signal %d (%s) inside the repacketizer\n",
       WTERMSIG(status), strsignal(WTERMSIG(status)));
      return 1;
   }
   printf("PASS\n");
   return 0;
}
