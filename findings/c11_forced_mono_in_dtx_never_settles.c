/* finding 1: with DTX enabled, OPUS_SET_FORCE_CHANNELS(1) issued mid-stream never settles:
 * while SILK DTX is active the encoder alternates between 1-byte mono DTX packets and
 * full (non-DTX) STEREO packets, far beyond "within three packets".
 * cc -I/tmp/mut/HC11/include finding_1.c /tmp/mut/HC11/_build/libopus.a -lm -o finding_1 && ./finding_1 */
#include <stdio.h>
#include <stdlib.h>
#include "opus.h"
int main(void)
{
   int err, k, i, fails = 0, Fs = 8000, fsz = Fs/50, change_at = 10;
   OpusEncoder *e = opus_encoder_create(Fs, 2, OPUS_APPLICATION_VOIP, &err);
   short pcm[2*160]; unsigned char pkt[1500];
   opus_encoder_ctl(e, OPUS_SET_BITRATE(24000));
   opus_encoder_ctl(e, OPUS_SET_DTX(1));
   for (k = 0; k < 60; k++) {
      int len, ch, fc;
      if (k == change_at) opus_encoder_ctl(e, OPUS_SET_FORCE_CHANNELS(1));
      for (i = 0; i < fsz; i++) { short v = (k < 5) ? (short)(rand()%20000-10000) : 0; pcm[2*i] = v; pcm[2*i+1] = (short)-v; }
      len = opus_encode(e, pcm, fsz, pkt, sizeof(pkt));
      if (len < 0) { printf("encode error %d\n", len); return 2; }
      ch = opus_packet_get_nb_channels(pkt);
      opus_encoder_ctl(e, OPUS_GET_FORCE_CHANNELS(&fc));
      printf("pkt %2d len=%3d toc=0x%02x channels=%d (force_channels getter=%d)", k, len, pkt[0], ch, fc);
      /* packets change_at, +1, +2 are the three packets of grace; len>2 means a real, non-DTX packet */
      if (k >= change_at+3 && len > 2 && ch != 1) { printf("  <-- FAIL: non-DTX stereo packet %d packets after FORCE_CHANNELS(1)", k-change_at+1); fails++; }
      printf("\n");
   }
   opus_encoder_destroy(e);
   printf("%s: %d non-DTX stereo packets later than three packets after OPUS_SET_FORCE_CHANNELS(1)\n", fails ? "FAIL" : "PASS", fails);
   return fails != 0;
}
