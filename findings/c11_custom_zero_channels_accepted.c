/* finding 4 (custom-modes build only): opus_custom_encoder_create()/opus_custom_decoder_create() and the
 * matching *_init() accept channels==0 (the check is "channels < 0 || channels > 2"); the object is then
 * sized for zero channels and opus_custom_encode() reads/writes outside its buffers.
 * Build the library with custom modes, e.g.
 *   cd /tmp/mut/HC11 && cmake -G Ninja -B _build_cm -DCMAKE_BUILD_TYPE=Debug -DOPUS_CUSTOM_MODES=ON -DOPUS_ASSERTIONS=ON \
 *      "-DCMAKE_C_FLAGS=-Wno-error -fsanitize=address,undefined -fno-omit-frame-pointer" && cmake --build _build_cm
 *   cc -g -DCUSTOM_MODES -fsanitize=address,undefined -I/tmp/mut/HC11/include finding_4.c /tmp/mut/HC11/_build_cm/libopus.a -lm -o finding_4
 *   ASAN_OPTIONS=allocator_may_return_null=1 ./finding_4          (reports FAIL)
 *   ASAN_OPTIONS=allocator_may_return_null=1 ./finding_4 encode   (additionally encodes with the 0-channel object: ASan stack-buffer-overflow)
 */
#include <stdio.h>
#include <stdlib.h>
#include "opus_custom.h"
int main(int argc, char **argv)
{
   int err = 123, fails = 0, ch;
   OpusCustomMode *m = opus_custom_mode_create(48000, 960, &err);
   if (!m) { printf("mode create failed %d\n", err); return 2; }
   for (ch = -1; ch <= 3; ch++) {
      int ee = 123, de = 123, ie, id; void *mem = calloc(1, 200000);
      OpusCustomEncoder *e = opus_custom_encoder_create(m, ch, &ee);
      OpusCustomDecoder *d = opus_custom_decoder_create(m, ch, &de);
      ie = opus_custom_encoder_init(mem, m, ch); id = opus_custom_decoder_init(mem, m, ch);
      printf("channels=%2d: encoder_create -> %s err=%d, decoder_create -> %s err=%d, encoder_init=%d decoder_init=%d\n", ch, e?"object":"NULL", ee, d?"object":"NULL", de, ie, id);
      if ((ch < 1 || ch > 2) && (e || d || ee != OPUS_BAD_ARG || de != OPUS_BAD_ARG || ie != OPUS_BAD_ARG || id != OPUS_BAD_ARG)) { printf("FAIL: unsupported channel count %d is not rejected with OPUS_BAD_ARG\n", ch); fails++; }
      if (e && ch == 0 && argc > 1) { short pcm[960*2] = {0}; unsigned char out[200]; int r = opus_custom_encode(e, pcm, 960, out, 100); printf("encode with 0-channel encoder returned %d\n", r); }
      if (e) opus_custom_encoder_destroy(e);
      if (d) opus_custom_decoder_destroy(d);
      free(mem);
   }
   printf("%s\n", fails ? "FAIL" : "PASS"); return fails != 0;
}
