#include <stdio.h>
#include <stdlib.h>
#include "opus.h"
/* internal API symbols present in libopus.a (public when CUSTOM_MODES is on) */
typedef struct OpusCustomEncoder OpusCustomEncoder;
int opus_custom_encoder_ctl(OpusCustomEncoder *st, int request, ...);
int celt_encoder_get_size(int channels);
int celt_encoder_init(OpusCustomEncoder *st, opus_int32 sampling_rate, int channels, int arch);
int main(void){
  OpusCustomEncoder *e=malloc(celt_encoder_get_size(2));
  printf("init %d\n", celt_encoder_init(e,48000,2,0));
  opus_int32 v=-1;
  printf("GET_LSB_DEPTH ok -> %d v=%d\n", opus_custom_encoder_ctl(e, OPUS_GET_LSB_DEPTH(&v)), v);
  printf("GET_COMPLEXITY(NULL)... ");fflush(stdout);
  printf("-> %d\n", opus_custom_encoder_ctl(e, OPUS_GET_FINAL_RANGE((opus_uint32*)0)));
  printf("GET_LSB_DEPTH(NULL)... ");fflush(stdout);
  printf("-> %d\n", opus_custom_encoder_ctl(e, OPUS_GET_LSB_DEPTH((opus_int32*)0)));
  return 0;}
