/* Replay for C05 / R05.9 (reproduced by an independent sub-agent; fixed in /repo): multistream CBR size was floor(), not round().
 *   cc -I/repo/include findings/c05_ms_cbr_size_truncated.c <build>/libopus.a -lm -o replay && ./replay */
/* Pristine-tree observation (C05, low severity): with VBR off the multistream
 * encoder sizes its packets as floor(bitrate*duration/8) while the plain
 * encoder uses round(bitrate*duration/8), so the same request gives packets
 * that differ by one byte and the multistream size is not the one the
 * property states.  One-stream stereo multistream encoder vs OpusEncoder.
 *
 * cc -I/tmp/mut/C05/include extra_pristine_2.c /tmp/mut/C05/_build/libopus.a -lm -o extra_pristine_2 && ./extra_pristine_2
 */
#include <stdio.h>
#include <stdlib.h>
#include <math.h>
#include "opus.h"
#include "opus_multistream.h"

int main(void)
{
   static const opus_int32 rates[] = { 9797, 24928, 53560, 78899, 103174 };
   static const int durs_x2[] = { 5, 10, 20, 40, 80, 120 };
   static short pcm[2880 * 2];
   static unsigned char buf[4000];
   int r, d, i, bad = 0, fs = 48000;
   for (r = 0; r < 5; r++)
   for (d = 0; d < 6; d++) {
      int err, streams, coupled, n = fs * durs_x2[d] / 2000, l1 = 0, l2 = 0, k, expect;
      unsigned char mapping[2];
      OpusEncoder *e = opus_encoder_create(fs, 2, OPUS_APPLICATION_AUDIO, &err);
      OpusMSEncoder *m = opus_multistream_surround_encoder_create(fs, 2, 0, &streams, &coupled, mapping, OPUS_APPLICATION_AUDIO, &err);
      if (!e || !m) return 2;
      opus_encoder_ctl(e, OPUS_SET_VBR(0));
      opus_encoder_ctl(e, OPUS_SET_BITRATE(rates[r]));
      opus_multistream_encoder_ctl(m, OPUS_SET_VBR(0));
      opus_multistream_encoder_ctl(m, OPUS_SET_BITRATE(rates[r]));
      for (k = 0; k < 3; k++) {
         for (i = 0; i < n * 2; i++) pcm[i] = (short)(6000 * sin(0.03 * (i / 2 + k * n)) + (rand() % 600 - 300));
         l1 = opus_encode(e, pcm, n, buf, 4000);
         l2 = opus_multistream_encode(m, pcm, n, buf, 4000);
      }
      expect = (int)floor((double)rates[r] * n / fs / 8 + 0.5);
      if (l1 != expect || l2 != expect) {
         printf("  %6d b/s, %5.1f ms: round()=%d, opus_encode=%d, opus_multistream_encode=%d\n", rates[r], durs_x2[d] / 2., expect, l1, l2);
         bad++;
      }
      opus_encoder_destroy(e);
      opus_multistream_encoder_destroy(m);
   }
   if (bad) { printf("FAIL (%d settings where a CBR size differs from round(bitrate*duration/8))\n", bad); return 1; }
   printf("PASS\n");
   return 0;
}
