/* After OPUS_RESET_STATE an encoder must behave like a fresh one with the same settings.
   silk_mode.LBRR_coded (last FEC decision, input of decide_fec's hysteresis) lies before the
   reset marker and is not re-initialised: inside the hysteresis band the reset encoder keeps FEC on.
   cc -I/repo/include reset_lbrr.c /repo/_build/libopus.a -lm && ./a.out */
#include <stdio.h>
#include <string.h>
#include <math.h>
#include "opus.h"
#define FS 16000
#define N 320
static void settings(OpusEncoder *e, int rate){
  opus_encoder_ctl(e, OPUS_SET_INBAND_FEC(1)); opus_encoder_ctl(e, OPUS_SET_PACKET_LOSS_PERC(5));
  opus_encoder_ctl(e, OPUS_SET_BITRATE(rate)); opus_encoder_ctl(e, OPUS_SET_COMPLEXITY(5));
}
static void sig(short *x, int f){ int i; for(i=0;i<N;i++){ double t=(f*N+i)/(double)FS; x[i]=(short)(6000*sin(2*3.14159265*150*t)*(1+0.5*sin(2*3.14159265*3*t))+1500*sin(2*3.14159265*1230*t)); } }
int main(void){
  int err, rate, bad=0;
  for(rate=17000; rate<=22000; rate+=500){
    OpusEncoder *a=opus_encoder_create(FS,1,OPUS_APPLICATION_VOIP,&err), *b=opus_encoder_create(FS,1,OPUS_APPLICATION_VOIP,&err);
    short x[N]; unsigned char pa[1500], pb[1500]; int f, la, lb, diff=0;
    settings(a, 32000);
    for(f=0;f<50;f++){ sig(x,f); opus_encode(a,x,N,pa,1500); }   /* FEC switches on at the high rate */
    opus_encoder_ctl(a, OPUS_SET_BITRATE(rate));
    for(f=50;f<100;f++){ sig(x,f); opus_encode(a,x,N,pa,1500); } /* stays on inside the hysteresis band */
    opus_encoder_ctl(a, OPUS_RESET_STATE);
    settings(b, rate);
    for(f=0;f<60;f++){ sig(x,f); la=opus_encode(a,x,N,pa,1500); lb=opus_encode(b,x,N,pb,1500); if(la!=lb||memcmp(pa,pb,la)) diff++; }
    printf("rate %d: %d of 60 packets differ between the reset encoder and a fresh one\n", rate, diff);
    if(diff) bad++;
    opus_encoder_destroy(a); opus_encoder_destroy(b);
  }
  printf(bad? "FAIL\n":"PASS\n");
  return bad!=0;
}
