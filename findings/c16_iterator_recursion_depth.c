/* Replay for C16 / R16.10 (reproduced by an independent sub-agent; fixed in /repo).  Needs an unoptimised (Debug) build of the library.
 *   cc -I/repo/include findings/c16_iterator_recursion_depth.c <debug build>/libopus.a -lm -o replay && ./replay */
/* extra_pristine_1: stack exhaustion in opus_extension_iterator_next() on an
   UNOPTIMISED build of the unmodified library.
   The "repeat these extensions" case ends in
       return opus_extension_iterator_next(iter, ext);
   so a padding area made of N repeat indicators (0x05) nests N calls unless
   the compiler turns the call into a jump.  With -O2 (RelWithDebInfo/Release)
   GCC does that and nothing happens; with -O0 (CMAKE_BUILD_TYPE=Debug) it does
   not, and a 4 MB padding area overflows an 8 MB stack.

   Build the library unoptimised and link against it:
     cmake -G Ninja -S /tmp/mut/C16 -B /tmp/dbg -DCMAKE_BUILD_TYPE=Debug && cmake --build /tmp/dbg
     cc -I/tmp/mut/C16/include extra_pristine_1.c /tmp/dbg/libopus.a -lm -o extra_pristine_1
   Public API only. */
#include <stdio.h>
#include <stdlib.h>
#include <string.h>
#include <signal.h>
#include <unistd.h>
#include "opus.h"

static char altstack[1<<16];
static void on_segv(int sig)
{
   static const char m[] = "crashed (stack exhausted) inside opus_repacketizer_out\nFAIL\n";
   (void)sig;
   if (write(1, m, sizeof(m)-1) < 0) _exit(1);
   _exit(1);
}

int main(void)
{
   opus_int32 padding = 4*1024*1024;     /* bytes of padding, all 0x05 */
   opus_int32 n255 = padding/254, rem = padding%254;
   opus_int32 len = 2 + n255 + 1 + 2 + padding;
   unsigned char *pkt = malloc(len), *out = malloc(len+16);
   opus_int32 n = 0, i, ret;
   OpusRepacketizer *rp;
   stack_t ss; struct sigaction sa;
   ss.ss_sp = altstack; ss.ss_size = sizeof(altstack); ss.ss_flags = 0;
   sigaltstack(&ss, NULL);
   memset(&sa, 0, sizeof(sa)); sa.sa_handler = on_segv; sa.sa_flags = SA_ONSTACK;
   sigaction(SIGSEGV, &sa, NULL);
   setvbuf(stdout, NULL, _IONBF, 0);

   pkt[n++] = (15<<3) | 3;       /* code 3 */
   pkt[n++] = 0x40 | 1;          /* one frame, padding */
   for (i=0;i<n255;i++) pkt[n++] = 255;
   pkt[n++] = (unsigned char)rem;
   pkt[n++] = 0x11; pkt[n++] = 0x22;       /* the frame */
   memset(pkt+n, 0x05, padding); n += padding;   /* ID 2 (repeat), L=1, over and over */

   rp = opus_repacketizer_create();
   ret = opus_repacketizer_cat(rp, pkt, n);
   printf("cat: %d\n", ret);
   ret = opus_repacketizer_out(rp, out, len+16);
   printf("out: %d\n", ret);
   opus_repacketizer_destroy(rp);
   printf("PASS\n");
   return 0;
}
