#include <stdio.h>
#include <string.h>
#include "opus.h"
#include "opus_multistream.h"
int main(void){
  int err; unsigned char mapping[2]={0,1};
  OpusMSEncoder *e=opus_multistream_encoder_create(48000,2,1,1,mapping,OPUS_APPLICATION_AUDIO,&err);
  int r=opus_multistream_encoder_ctl(e,OPUS_SET_EXPERT_FRAME_DURATION(12345));
  opus_int32 v=0; opus_multistream_encoder_ctl(e,OPUS_GET_EXPERT_FRAME_DURATION(&v));
  printf("ms set(12345) -> %d, get -> %d\n", r, v);
  short pcm[960*2]; memset(pcm,0,sizeof pcm); unsigned char out[1500];
  int n=opus_multistream_encode(e,pcm,960,out,1500);
  printf("encode 20ms -> %d\n", n);
  OpusEncoder *s=opus_encoder_create(48000,2,OPUS_APPLICATION_AUDIO,&err);
  r=opus_encoder_ctl(s,OPUS_SET_EXPERT_FRAME_DURATION(12345));
  printf("single set(12345) -> %d\n", r);
  return 0;}
