/* Positive control for C14: every function whose name starts with bad_ must be
   reported as writing static storage; every ok_ function must not. */
#include <string.h>
static int counter;
static const int tab[4]={1,2,3,4};
static int rw[4]={1,2,3,4};
static const int * const ptrs[2]={tab,rw};
struct S { int *p; const int *q; int arr[3]; };
static struct S gs;
int bad_direct(void){ return counter++; }
void bad_viaptr(void){ int *p=(int*)tab; p[1]=3; }
static void bad_viaparam_callee(int *x){ x[0]=1; }
void ok_viaparam(void){ bad_viaparam_callee(rw); }
void bad_viatable(int i){ int *p=(int*)ptrs[i]; *p=0; }
void ok_viafield(struct S *s){ s->p = rw; }
void bad_viafield2(struct S *s){ s->p[2] = 7; }
void bad_viamemset(void){ memset(rw,0,sizeof rw); }
void bad_viastruct(void){ gs.arr[1]=2; }
const int *ok_getter(void){ return tab; }
void bad_viaret(void){ int *p=(int*)ok_getter(); *p=1; }
void ok_read(int *out){ out[0]=tab[1]+rw[2]; }
void ok_pp(const int **v){ *v = tab; }
void ok_memcpy(int *dst){ memcpy(dst, tab, sizeof tab); dst[0]=1; }
int bad_funcstatic(void){ static int memo; if(!memo) memo=42; return memo; }
void bad_stackptrs(void){ int *a[2]; a[0]=rw; a[1]=(int*)tab; a[1][0]=5; }
void ok_stackptrs(void){ const int *a[2]; int loc[2]; a[0]=rw; a[1]=tab; loc[0]=a[1][0]; (void)loc; }
