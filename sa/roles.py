"""Role-based anchors: find functions by what they do in the call graph, not
by a frozen name, so that a refactor (split into a body and a wrapper, a
rename of a static helper) does not move a rule off its target."""
from . import sx
from .compdb import AnalysisBroken


def frame_decoders(prog):
    """the per-frame decoder(s) of the Opus decoder: static functions of
    src/opus_decoder.c called by opus_decode_native with the shape
    (OpusDecoder*, data, len, pcm, frame_size, ...), closed under calls among
    functions of the same shape (a gain-free body behind a wrapper, ...)."""
    top = prog.fn('opus_decode_native')

    def shaped(g):
        ps = g.params
        return g.file == top.file and g.static and len(ps) >= 5 and ps[0]['type'].startswith('OpusDecoder') and \
            any(p['name'] == 'pcm' for p in ps) and any(p['name'] == 'frame_size' for p in ps)
    out = []
    work = []
    for c in top.calls():
        g = prog.resolve_in(top, sx.callee_name(c) or '')
        if g is not None and shaped(g) and g not in work:
            work.append(g)
    while work:
        g = work.pop()
        if g in out:
            continue
        out.append(g)
        for c in g.calls():
            h = prog.resolve_in(g, sx.callee_name(c) or '')
            if h is not None and shaped(h) and h not in out:
                work.append(h)
    if not out:
        raise AnalysisBroken('no per-frame decoder function found under opus_decode_native')
    return out


def holding(funcs, pred):
    """the functions among funcs that contain a node satisfying pred"""
    return [f for f in funcs if any(pred(n) for n in f.all_nodes())]
