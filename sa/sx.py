"""S-expression helpers for the facts written by tool/opusfacts.

Node layout (JSON arrays, optional trailing dict of attributes):
  ["int",v] ["flt",v] ["str",s] ["param",i,name] ["local",name,id]
  ["global",name] ["func",name] ["field",base,Record,field,arrow]
  ["deref",e] ["addr",e] ["inc",op,post,e] ["un",op,e] ["bin",op,a,b]
  ["assign",l,r] ["cassign",op,l,r] ["comma",a,b] ["cond",c,a,b]
  ["idx",base,i] ["call",callee,[args]] ["cast",type,bits,signed,e]
  ["va_arg",type,e] ["initlist",[...]] ["paren",e] ["complit",e]
  ["decls",[["decl",name,id,init,attrs]|["sdecl",gname]]] ["ret",e,attrs]
  ["asm",outs,ins,clobbers] ["other",cls] ["stmt",cls]
Attributes: m = macro chain (outermost first), l = line, bound, sizeof, ...
"""


def A(e):
    if isinstance(e, list) and e and isinstance(e[-1], dict):
        return e[-1]
    return {}


def kind(e):
    return e[0] if isinstance(e, list) and e else None


def macros(e):
    return A(e).get('m', [])


def line(e):
    return A(e).get('l')


def children(e):
    """direct sub-expressions in evaluation order (best effort)"""
    k = kind(e)
    if k in ('int', 'flt', 'str', 'param', 'local', 'global', 'func', 'other', 'stmt', None):
        return []
    if k == 'field':
        return [e[1]]
    if k in ('deref', 'addr', 'paren', 'complit'):
        return [e[1]]
    if k == 'inc':
        return [e[3]]
    if k == 'un':
        return [e[2]]
    if k == 'bin':
        return [e[2], e[3]]
    if k == 'assign':
        return [e[2], e[1]]
    if k == 'cassign':
        return [e[3], e[2]]
    if k == 'comma':
        return [e[1], e[2]]
    if k == 'cond':
        return [e[1], e[2], e[3]]
    if k == 'idx':
        return [e[1], e[2]]
    if k == 'call':
        c = [] if kind(e[1]) == 'func' else [e[1]]
        return c + list(e[2])
    if k == 'cast':
        return [e[4]]
    if k == 'va_arg':
        return [e[2]]
    if k == 'initlist':
        return list(e[1])
    if k == 'ret':
        return [e[1]] if e[1] is not None else []
    if k == 'decls':
        out = []
        for d in e[1]:
            if d[0] == 'decl':
                a = A(d)
                if 'vla' in a:
                    out.append(a['vla'])
                if d[3] is not None:
                    out.append(d[3])
        return out
    if k == 'asm':
        return [x[1] for x in e[1]] + [x[1] for x in e[2]]
    return []


def walk(e):
    """pre-order over all nodes"""
    if not isinstance(e, list) or not e:
        return
    yield e
    for c in children(e):
        yield from walk(c)


def strip(e):
    """remove parens and casts"""
    while kind(e) in ('paren', 'cast'):
        e = e[1] if e[0] == 'paren' else e[4]
    return e


def strip_paren(e):
    while kind(e) == 'paren':
        e = e[1]
    return e


def is_int(e, v=None):
    e = strip(e)
    if kind(e) != 'int':
        return False
    return v is None or e[1] == v


def int_val(e):
    e = strip(e)
    if kind(e) == 'int':
        return e[1]
    if kind(e) == 'un' and e[1] == '-' and kind(strip(e[2])) == 'int':
        return -strip(e[2])[1]
    return None


def key(e):
    """structural key ignoring attributes, parens and implicit casts"""
    k = kind(e)
    if k is None:
        return None
    if k == 'paren':
        return key(e[1])
    if k == 'cast':
        if A(e).get('impl'):
            return key(e[4])
        return ('cast', e[1], key(e[4]))
    if k in ('int', 'flt', 'str'):
        return (k, e[1])
    if k == 'param':
        return ('param', e[1])
    if k == 'local':
        return ('local', e[2])
    if k in ('global', 'func'):
        return (k, e[1])
    if k == 'field':
        return ('field', key(e[1]), e[3])
    if k == 'inc':
        return ('inc', e[1], e[2], key(e[3]))
    if k == 'un':
        return ('un', e[1], key(e[2]))
    if k == 'bin':
        return ('bin', e[1], key(e[2]), key(e[3]))
    if k == 'assign':
        return ('assign', key(e[1]), key(e[2]))
    if k == 'cassign':
        return ('cassign', e[1], key(e[2]), key(e[3]))
    if k == 'call':
        return ('call', key(e[1]), tuple(key(a) for a in e[2]))
    if k == 'va_arg':
        return ('va_arg', e[1])
    return (k,) + tuple(key(c) for c in children(e))


def show(e, depth=0):
    """C-like rendering for reports"""
    k = kind(e)
    if depth > 12:
        return '...'
    d = depth + 1
    if k is None:
        return 'NULL' if e is None else str(e)
    if k == 'int':
        m = macros(e)
        return (m[0] if m and len(m[0]) > 2 else str(e[1]))
    if k == 'flt':
        return str(e[1])
    if k == 'str':
        return '"%s"' % e[1][:20]
    if k == 'param':
        return e[2]
    if k == 'local':
        return e[1]
    if k in ('global', 'func'):
        return e[1]
    if k == 'field':
        return show(e[1], d) + ('->' if e[4] else '.') + e[3]
    if k == 'deref':
        return '*' + show(e[1], d)
    if k == 'addr':
        return '&' + show(e[1], d)
    if k == 'paren':
        return '(' + show(e[1], d) + ')'
    if k == 'inc':
        return (show(e[3], d) + e[1]) if e[2] else (e[1] + show(e[3], d))
    if k == 'un':
        return e[1] + show(e[2], d)
    if k == 'bin':
        return '(' + show(e[2], d) + ' ' + e[1] + ' ' + show(e[3], d) + ')'
    if k == 'assign':
        return show(e[1], d) + ' = ' + show(e[2], d)
    if k == 'cassign':
        return show(e[2], d) + ' ' + e[1] + '= ' + show(e[3], d)
    if k == 'comma':
        return show(e[1], d) + ', ' + show(e[2], d)
    if k == 'cond':
        m = macros(e)
        return '(' + show(e[1], d) + ' ? ' + show(e[2], d) + ' : ' + show(e[3], d) + ')'
    if k == 'idx':
        return show(e[1], d) + '[' + show(e[2], d) + ']'
    if k == 'call':
        return show(e[1], d) + '(' + ', '.join(show(a, d) for a in e[2]) + ')'
    if k == 'cast':
        if A(e).get('impl'):
            return show(e[4], d)
        return '(' + e[1] + ')' + show(e[4], d)
    if k == 'va_arg':
        return 'va_arg(' + e[1] + ')'
    if k == 'ret':
        return 'return ' + (show(e[1], d) if e[1] is not None else '')
    if k == 'decls':
        return '; '.join((x[1] + ((' = ' + show(x[3], d)) if x[3] is not None else '')) for x in e[1] if x[0] == 'decl')
    return '<' + str(k) + '>'


def callee_name(e):
    """name of the directly called function of a call node, else None"""
    if kind(e) == 'call' and kind(e[1]) == 'func':
        return e[1][1]
    return None


def lvalue_root(e):
    """follow an lvalue down to its root: returns (root, path) where root is a
    param/local/global/call/other node and path is the list of steps taken
    ('idx', 'field:<name>', 'deref', 'arrow:<name>') from root to e"""
    path = []
    while True:
        k = kind(e)
        if k in ('paren',):
            e = e[1]
        elif k == 'cast':
            e = e[4]
        elif k == 'idx':
            path.append('idx')
            e = e[1]
        elif k == 'field':
            path.append(('arrow:' if e[4] else 'field:') + e[3])
            e = e[1]
        elif k == 'deref':
            path.append('deref')
            e = e[1]
        elif k == 'bin' and e[1] in ('+', '-') and A(e).get('ptr'):
            # pointer arithmetic: follow the pointer operand
            l, r = e[2], e[3]
            e = l if _ptrish(l) or not _ptrish(r) else r
        elif k == 'addr':
            path.append('addr')
            e = e[1]
        elif k == 'inc':
            e = e[3]
        elif k == 'assign':
            e = e[1]
        elif k == 'cond':
            # ambiguous: caller should handle; take first arm
            return e, list(reversed(path))
        else:
            return e, list(reversed(path))


def _ptrish(e):
    e = strip(e)
    k = kind(e)
    if k in ('addr',):
        return True
    if k == 'bin' and A(e).get('ptr'):
        return True
    if k == 'int':
        return False
    return k in ('param', 'local', 'global', 'field', 'idx', 'call', 'cast')


def nocast(e):
    """copy of e with every cast / paren removed (for cast-insensitive comparison)"""
    if not isinstance(e, list) or not e:
        return e
    if e[0] == 'cast':
        return nocast(e[4])
    if e[0] == 'paren':
        return nocast(e[1])
    return [nocast(x) if isinstance(x, list) else x for x in e]
