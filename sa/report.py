"""Outcome collection, evidence JSON, replay files, known findings, exit code."""
import json, os, sys, time

VERIF = os.path.dirname(os.path.dirname(os.path.abspath(__file__)))
EVID = os.environ.get('VERIF_EVIDENCE') or os.path.join(VERIF, 'evidence')  # the override serves tool/seedmatrix.py only
KNOWN = os.path.join(VERIF, 'known_findings.json')


class Report:
    """Three-valued rule outcomes.
       holds(rule, instance, ...)     – construct present and satisfies the rule
       violated(rule, instance, ...)  – construct present and contradicts it
       unresolved(rule, what)         – anchor missing / shape not understood
    """

    def __init__(self, pid, tier, level, explanation):
        self.pid = pid
        self.tier = tier
        self.level = level
        self.explanation = explanation
        self.t0 = time.time()
        self.obligations = []     # dicts
        self.violations = []
        self.unresolved_l = []
        self.notes = []
        self.units = {}
        self.functions = set()
        self.evaluations = 0
        self.rule_counts = {}
        self.minimums = {}
        self.selftest = []
        self.extra = {}
        self.assumptions = []
        self.trusted = ['clang 14 front end (AST, constant evaluation, CFG construction)',
                        'compile flags produced by cmake for each configuration',
                        'tool/opusfacts.cc (fact extractor) and the python rule code under sa/']

    # -- recording
    def holds(self, rule, instance, where=None, detail=None, n=1):
        self.rule_counts[rule] = self.rule_counts.get(rule, 0) + 1
        self.evaluations += n
        self.obligations.append({'rule': rule, 'instance': instance, 'where': where, 'detail': detail, 'outcome': 'holds'})

    def violated(self, rule, instance, where, detail, key=None):
        self.rule_counts[rule] = self.rule_counts.get(rule, 0) + 1
        self.evaluations += 1
        v = {'rule': rule, 'instance': instance, 'where': where, 'detail': detail, 'outcome': 'violated',
             'key': key or instance}
        self.obligations.append(v)
        self.violations.append(v)

    def unresolved(self, rule, what, where=None):
        self.unresolved_l.append({'rule': rule, 'what': what, 'where': where})

    def count(self, n=1):
        self.evaluations += n

    def minimum(self, rule, n):
        """frozen minimum-match count for a rule (vacuity guard)"""
        self.minimums[rule] = n

    def used(self, prog, fn=None):
        self.units.setdefault(prog.config, set()).update(prog.units.keys())
        if fn is not None:
            self.functions.add(fn.name if hasattr(fn, 'name') else fn)

    def note(self, s):
        self.notes.append(s)

    # -- finishing
    def finish(self):
        known = []
        try:
            kf = json.load(open(KNOWN))
            known = [k for k in kf.get('findings', []) if k.get('property') == self.pid and k.get('status') == 'known']
        except (OSError, ValueError):
            pass
        for rule, n in self.minimums.items():
            got = self.rule_counts.get(rule, 0)
            if got < n:
                self.unresolved(rule, 'rule matched %d instances, frozen minimum is %d (vacuity guard)' % (got, n))
        new_viol = []
        known_hits = []
        for v in self.violations:
            hit = None
            for k in known:
                if k.get('rule') == v['rule'] and k.get('key') == v['key']:
                    hit = k
                    break
            if hit:
                v['outcome'] = 'known-finding'
                known_hits.append((v, hit))
            else:
                new_viol.append(v)
        os.makedirs(os.path.join(EVID, 'replay'), exist_ok=True)
        replay_paths = []
        for i, v in enumerate(new_viol):
            rp = os.path.join(EVID, 'replay', '%s-%s-%d.json' % (self.pid, v['rule'].replace('/', '_'), i))
            with open(rp, 'w') as fh:
                json.dump({'property': self.pid, **v}, fh, indent=1, default=str)
            replay_paths.append(rp)
        held = [o for o in self.obligations if o['outcome'] == 'holds']
        distinct = len({(o['rule'], json.dumps(o['instance'], sort_keys=True, default=str)) for o in held})
        samples = []
        seen_rules = {}
        for o in self.obligations:
            c = seen_rules.get(o['rule'], 0)
            if c < 3:
                seen_rules[o['rule']] = c + 1
                samples.append({k: o[k] for k in ('rule', 'instance', 'where', 'detail', 'outcome')})
        samples = samples[:60]
        nobl = len(self.obligations)
        ndis = len(held) + len(known_hits)
        cov = {
            'explanation': self.explanation,
            'obligations': nobl,
            'discharged': len(held),
            'known_findings': len(known_hits),
            'evaluations': max(self.evaluations, nobl),
            'distinct_nontrivial': distinct,
            'rule': 'one obligation per rule instance (site, table, pair, path family) found in the parsed program; '
                    'non-trivial = the rule matched a concrete construct and was evaluated on it; distinct by (rule, instance)',
            'samples': samples or [{'note': 'no instance matched'}],
            'rule_instance_counts': dict(sorted(self.rule_counts.items())),
            'frozen_minimums': self.minimums,
            'units': {c: len(u) for c, u in self.units.items()},
            'unit_list': {c: sorted(u) for c, u in self.units.items()},
            'functions_analysed': len(self.functions),
            'checker_cmd': 'bin/check %s --tier %s' % (self.pid, self.tier),
            'trusted_base': self.trusted,
            'unresolved': self.unresolved_l,
            'notes': self.notes,
        }
        if self.selftest:
            cov['selftest'] = self.selftest
        cov.update(self.extra)
        ev = {
            'property_id': self.pid,
            'tier': self.tier,
            'seed': int(os.environ.get('VERIF_SEED', '0') or 0),
            'level': self.level,
            'coverage': cov,
            'assumptions': self.assumptions,
            'wall_s': round(time.time() - self.t0, 2),
            'violations': len(new_viol),
        }
        with open(os.path.join(EVID, self.pid + '.json'), 'w') as fh:
            json.dump(ev, fh, indent=1, default=str)
        # console
        print('[%s] tier=%s obligations=%d held=%d known=%d violated=%d unresolved=%d wall=%.1fs' %
              (self.pid, self.tier, nobl, len(held), len(known_hits), len(new_viol), len(self.unresolved_l), ev['wall_s']))
        for r, c in sorted(self.rule_counts.items()):
            print('   %-8s %4d instances' % (r, c))
        for v, k in known_hits:
            print('KNOWN-FINDING: property=%s %s %s at %s: %s' % (self.pid, v['rule'], v['key'], v['where'], k.get('what', v['detail'])))
        for v, rp in zip(new_viol, replay_paths):
            print('   violated %s %s at %s: %s' % (v['rule'], v['instance'], v['where'], v['detail']))
            print('VIOLATION property=%s replay=%s' % (self.pid, rp))
        if new_viol:
            return 1
        if self.unresolved_l:
            for u in self.unresolved_l:
                print('ANALYSIS-BROKEN %s %s: %s %s' % (self.pid, u['rule'], u['what'], u.get('where') or ''), file=sys.stderr)
            return 2
        return 0
