"""Decision tables: which stores / calls of a function are enabled under a
valuation of a few decision variables, using the branch conditions that
control each site (edge dominance) evaluated three-valued.

Used to check selectors ("fs_kHz == 8 and nb_subfr == 4 -> contour table X")
against an independent specification without executing anything: the guards are
read off the CFG and evaluated over the finite set of valuations the
specification enumerates.
"""
from . import sx, cfg as cfgm


def ev3(e, val, res=None):
    """three-valued evaluation of a side-effect-free expression under
    val: {sx.key(var): int}.  Returns int / bool-as-int, or None if unknown.
    res: optional resolver  node -> value or None, consulted first."""
    if res is not None:
        return _ev3r(e, val, res)
    return _ev3(e, val)


def _ev3r(e, val, res):
    """ev3 with a resolver: implemented by substituting resolved nodes"""
    def sub(x):
        if not isinstance(x, list) or not x:
            return x
        v = res(x)
        if v is not None:
            return ['int', v]
        return [sub(y) if isinstance(y, list) else y for y in x]
    return _ev3(sub(e), val)


def _ev3(e, val):
    e = sx.strip_paren(e)
    k = sx.kind(e)
    if k is None:
        return None
    if k == 'cast':
        return _ev3(e[4], val)
    if k == 'int':
        return e[1]
    if k == 'flt':
        try:
            return float(e[1])
        except (TypeError, ValueError):
            return None
    kk = sx.key(e)
    if kk in val:
        return val[kk]
    if k == 'assign':
        return _ev3(e[2], val)
    if k == 'un':
        v = _ev3(e[2], val)
        if v is None:
            return None
        return {'!': int(not v), '-': -v, '~': ~v, '+': v}.get(e[1])
    if k == 'bin':
        op = e[1]
        a, b = _ev3(e[2], val), _ev3(e[3], val)
        if op == '&&':
            if a == 0 or b == 0:
                return 0
            if a is None or b is None:
                return None
            return 1
        if op == '||':
            if (a is not None and a != 0) or (b is not None and b != 0):
                return 1
            if a is None or b is None:
                return None
            return 0
        if a is None or b is None:
            return None
        try:
            return {'<': lambda: int(a < b), '<=': lambda: int(a <= b), '>': lambda: int(a > b), '>=': lambda: int(a >= b),
                    '==': lambda: int(a == b), '!=': lambda: int(a != b), '+': lambda: a + b, '-': lambda: a - b,
                    '*': lambda: a * b, '/': lambda: ((a / b) if (isinstance(a, float) or isinstance(b, float)) else int(a / b)) if b else None, '%': lambda: (abs(a) % abs(b)) * (1 if a >= 0 else -1) if b else None,
                    '<<': lambda: a << b, '>>': lambda: a >> b, '&': lambda: a & b, '|': lambda: a | b, '^': lambda: a ^ b}[op]()
        except (KeyError, ValueError, OverflowError, TypeError, ZeroDivisionError):
            return None
    if k == 'cond':
        c = _ev3(e[1], val)
        if c is None:
            a, b = _ev3(e[2], val), _ev3(e[3], val)
            return a if a == b else None
        return _ev3(e[2] if c else e[3], val)
    if k == 'call' and sx.callee_name(e) == '__builtin_expect':
        return _ev3(e[2][0], val)
    return None


def _assign_blocks(cf, keys):
    """blocks holding an assignment to one of the variable keys"""
    out = {k: set() for k in keys}
    for b, i, s in cf.positions():
        for n in sx.walk(s):
            tgt = None
            if n[0] == 'assign':
                tgt = n[1]
            elif n[0] == 'cassign':
                tgt = n[2]
            elif n[0] == 'inc':
                tgt = n[3]
            if tgt is not None:
                k = sx.key(sx.strip(tgt))
                if k in out:
                    out[k].add(b)
    return out


def feasible_blocks(cf, val, entry=False):
    """blocks reachable from the entry along edges that are not definitely
    excluded under val.  A condition that mentions a decision variable which
    may still be assigned later (the branch block reaches an assignment to it)
    is treated as unknown, so the valuation describes the variable's final
    value."""
    asg = _assign_blocks(cf, val.keys())
    stale = {}
    for k, blocks in asg.items():
        st = set()
        for b in cf.blocks:
            if entry:
                # the valuation is the value at function ENTRY: unknown once an assignment may have happened
                if blocks and any(b == a or b in cf.reachable_from(a) for a in blocks):
                    st.add(b)
            elif blocks and (cf.reachable_from(b) & blocks):
                st.add(b)
        stale[k] = st
    seen = {cf.entry}
    edges = set()
    work = [cf.entry]
    while work:
        b = work.pop()
        es = cf.edges(b)
        c = cf.cond(b)
        v = None
        if c is not None and len(es) == 2 and es[0][1] is not None:
            live = {k: x for k, x in val.items() if b not in stale[k]}
            v = ev3(c, live)
        for s, pol in es:
            if v is not None and pol is not None and bool(v) != pol:
                continue
            edges.add((b, s))
            if s not in seen:
                seen.add(s)
                work.append(s)
    cf.__dict__.setdefault('_feas_edges', {})[(entry,) + tuple(sorted((str(k), v_) for k, v_ in val.items()))] = edges
    return seen


def feasible_edges(cf, val, entry=False):
    """(blocks, edges) that can be traversed under val"""
    blocks = feasible_blocks(cf, val, entry)
    return blocks, cf.__dict__['_feas_edges'][(entry,) + tuple(sorted((str(k), v_) for k, v_ in val.items()))]


def enabled(cf, block, val):
    """False if `block` cannot be reached under val, None otherwise (may)."""
    cache = cf.__dict__.setdefault('_feas', {})
    key = tuple(sorted((str(k), v) for k, v in val.items()))
    fb = cache.get(key)
    if fb is None:
        fb = cache[key] = feasible_blocks(cf, val)
    return None if block in fb else False


def field_stores(f, cf, field):
    """(block, index, assign node) of every `x->field = rhs` / `x.field = rhs`"""
    out = []
    for b, i, s in cf.positions():
        for n in sx.walk(s):
            if n[0] == 'assign':
                lv = sx.strip_paren(n[1])
                if sx.kind(lv) == 'field' and lv[3] == field:
                    out.append((b, i, n))
    return out


def rhs_object(e):
    """global object named by an rvalue: T, &T, &T[0], T[k] (row k) -> (name, row or None)"""
    e = sx.strip(e)
    row = None
    while True:
        k = sx.kind(e)
        if k == 'addr':
            e = sx.strip(e[1])
        elif k == 'idx':
            r = sx.int_val(e[2])
            row = r if row is None else row
            e = sx.strip(e[1])
        elif k == 'global':
            return e[1], row
        else:
            return None, None


def selector_table(f, field, valuations):
    """for each valuation (dict key->int), the set of objects a store to
    `field` that is not definitely disabled assigns.  Returns list of
    (valuation, sorted objects, all_definite)"""
    cf = cfgm.CFG(f)
    stores = field_stores(f, cf, field)
    out = []
    for val in valuations:
        objs = set()
        definite = True
        for b, i, n in stores:
            en = enabled(cf, b, val)
            if en is False:
                continue
            if en is None:
                definite = False
            o, row = rhs_object(n[2])
            objs.add(o if row is None else '%s[%d]' % (o, row))
        out.append((val, sorted(str(x) for x in objs), definite))
    return out, len(stores)


def find_assign(f, name, pred=None):
    """RHS expressions assigned to the local called `name` (decl initialisers and assignments)"""
    out = []
    for n in f.all_nodes():
        if n[0] == 'assign' and sx.kind(n[1]) == 'local' and n[1][1] == name:
            if pred is None or pred(n[2]):
                out.append((n[1], n[2]))
        if n[0] == 'decls':
            for d in n[1]:
                if d[0] == 'decl' and d[1] == name and d[3] is not None and (pred is None or pred(d[3])):
                    out.append((['local', d[1], d[2]], d[3]))
    return out


def mentions(e, pred):
    return any(pred(n) for n in sx.walk(e))
