"""Decomposition of the ctl dispatchers (switch on the request) into arms."""
from . import sx, cfg as cfgm
from .compdb import AnalysisBroken


class Arm:
    def __init__(self, f, cf, sw, entry, labels, blocks):
        self.f = f
        self.cf = cf
        self.sw = sw
        self.entry = entry
        self.labels = labels          # list of dict(case=[lo,hi], m=macro) / dict(default=True)
        self.blocks = blocks
        self.is_default = any(l.get('default') for l in labels)

    @property
    def names(self):
        return [l.get('m') or str(l.get('case', ['default'])[0]) for l in self.labels]

    @property
    def name(self):
        return self.names[0]

    def line(self):
        return self.labels[0].get('l')

    def positions(self):
        for b in sorted(self.blocks, reverse=True):
            blk = self.cf.blocks[b]
            for i, s in enumerate(blk['stmts']):
                yield b, i, s
            c = self.cf.cond(b)
            if c is not None:
                yield b, len(blk['stmts']), c

    def find(self, pred):
        for b, i, s in self.positions():
            for n in sx.walk(s):
                if pred(n):
                    yield b, i, n

    def va_args(self):
        return [n for b, i, n in self.find(lambda n: n[0] == 'va_arg')]

    def value_local(self):
        """(local id, type string) of the variable initialised from va_arg"""
        for b, i, s in self.positions():
            if sx.kind(s) == 'decls':
                for d in s[1]:
                    if d[0] == 'decl' and d[3] is not None:
                        e = sx.strip(d[3])
                        if sx.kind(e) == 'va_arg':
                            return d[2], e[1]
            for n in sx.walk(s):
                if n[0] == 'assign' and sx.kind(sx.strip(n[2])) == 'va_arg' and sx.kind(n[1]) == 'local':
                    return n[1][2], sx.strip(n[2])[1]
        return None, None


def switch_arms(f, on_param=None):
    """arms of the (outermost) switch of function f"""
    cf = cfgm.CFG(f)
    sws = [b for b in cf.blocks if cf.blocks[b].get('term', {}).get('kind') == 'SwitchStmt']
    if not sws:
        raise AnalysisBroken('%s has no switch statement' % f.name)
    # outermost: the one dominating the others / with most cases
    sw = max(sws, key=lambda b: len(cf.succ[b]))
    succs = cf.succ[sw]
    labelled = {}
    for s in succs:
        lab = cf.blocks[s].get('label', {})
        if 'case' in lab or lab.get('default'):
            labelled[s] = lab
    # chains "case A: case B: body": an empty labelled block whose only
    # successor is another labelled block of the same switch
    def chain_target(s):
        seen = []
        while s in labelled and not cf.blocks[s]['stmts'] and cf.cond(s) is None and len(cf.succ[s]) == 1 \
                and cf.succ[s][0] in labelled:
            seen.append(s)
            s = cf.succ[s][0]
        return s
    groups = {}
    for s in labelled:
        groups.setdefault(chain_target(s), []).append(s)
    arms = []
    entries = set(groups)
    for entry, members in groups.items():
        seen = {entry}
        work = [entry]
        while work:
            n = work.pop()
            for t in cf.succ[n]:
                if t in seen or t in labelled:
                    continue
                seen.add(t)
                work.append(t)
        # blocks after the switch (join) are shared: drop blocks post-dominating the switch
        seen = {b for b in seen if not (b != entry and cf.postdominates(b, sw))}
        labs = [labelled[m] for m in sorted(members, reverse=True)]
        arms.append(Arm(f, cf, sw, entry, labs, seen))
    if not any(a.is_default for a in arms):
        arms_default = None
    return cf, arms
