"""Forward abstract interpreter over the exported CFG.

Domain: interval sets — a value is a sorted tuple of disjoint closed integer
intervals (at most MAXP pieces; more are merged at the smallest gaps), with
-INF / INF sentinels.  TOP = ((-INF, INF),), BOTTOM = ().
State: dict  variable-key -> value.  Variable keys are structural keys
(sx.key) of scalars: locals, parameters and field paths rooted at them with no
index; arrays are summarised into one cell ('cell', key-of-array).
Unknown = TOP clipped to the type range when the type is known.
Everything the domain cannot express evaluates to TOP; callers turn TOP at a
proof obligation into `unresolved`, never `violated`.
"""
from . import sx, cfg as cfgm

INF = 10 ** 30
MAXP = 12
TOP = ((-INF, INF),)
BOT = ()


# ---------------------------------------------------------------- values

def mk(lo, hi):
    if lo > hi:
        return BOT
    return ((max(lo, -INF), min(hi, INF)),)


def const(v):
    return ((v, v),)


def is_top(v):
    return v == TOP or (len(v) == 1 and v[0][0] <= -INF and v[0][1] >= INF)


def norm(parts):
    parts = sorted(p for p in parts if p[0] <= p[1])
    out = []
    for lo, hi in parts:
        if out and lo <= out[-1][1] + 1:
            out[-1] = (out[-1][0], max(out[-1][1], hi))
        else:
            out.append((lo, hi))
    while len(out) > MAXP:
        # merge the two pieces with the smallest gap
        gi = min(range(len(out) - 1), key=lambda i: out[i + 1][0] - out[i][1])
        out[gi] = (out[gi][0], out[gi + 1][1])
        del out[gi + 1]
    return tuple(out)


def join(a, b):
    if not a:
        return b
    if not b:
        return a
    return norm(list(a) + list(b))


def meet(a, b):
    out = []
    for l1, h1 in a:
        for l2, h2 in b:
            lo, hi = max(l1, l2), min(h1, h2)
            if lo <= hi:
                out.append((lo, hi))
    return norm(out)


def lo(v):
    return v[0][0] if v else INF


def hi(v):
    return v[-1][1] if v else -INF


def hull(v):
    return mk(lo(v), hi(v)) if v else BOT


def remove_point(v, c):
    return meet(v, ((-INF, c - 1), (c + 1, INF)))


def size(v):
    if not v:
        return 0
    n = 0
    for l, h in v:
        if l <= -INF or h >= INF:
            return INF
        n += h - l + 1
    return n


def values(v, limit=4096):
    """enumerate if finite and small"""
    if size(v) > limit:
        return None
    out = []
    for l, h in v:
        out.extend(range(l, h + 1))
    return out


def from_values(vals):
    return norm([(x, x) for x in vals])


def _sat(x):
    return max(-INF, min(INF, x))


def _pairs(a, b, f):
    out = []
    for l1, h1 in a:
        for l2, h2 in b:
            out.append(f(l1, h1, l2, h2))
    return norm([p for p in out if p is not None])


def add(a, b):
    return _pairs(a, b, lambda l1, h1, l2, h2: (_sat(l1 + l2) if l1 > -INF and l2 > -INF else -INF,
                                                _sat(h1 + h2) if h1 < INF and h2 < INF else INF))


def neg(a):
    return norm([(-h if h < INF else -INF, -l if l > -INF else INF) for l, h in a])


def sub(a, b):
    return add(a, neg(b))


def mul(a, b):
    def f(l1, h1, l2, h2):
        if (l1 <= -INF or h1 >= INF or l2 <= -INF or h2 >= INF):
            # unbounded unless the other is exactly 0
            if (l1, h1) == (0, 0) or (l2, h2) == (0, 0):
                return (0, 0)
            # sign reasoning for half-bounded
            if l1 >= 0 and l2 >= 0:
                return (l1 * l2, INF)
            return (-INF, INF)
        c = [l1 * l2, l1 * h2, h1 * l2, h1 * h2]
        return (_sat(min(c)), _sat(max(c)))
    return _pairs(a, b, f)


def div(a, b):
    # C truncating division; only handle divisors of a single sign not containing 0
    b = remove_point(b, 0)
    if not b:
        return BOT

    def tdiv(x, y):
        q = abs(x) // abs(y)
        return q if (x >= 0) == (y >= 0) else -q

    def f(l1, h1, l2, h2):
        if l2 <= -INF or h2 >= INF:
            m = max(abs(l1) if l1 > -INF else INF, abs(h1) if h1 < INF else INF)
            return (-m, m)
        if l1 <= -INF or h1 >= INF:
            return (-INF if (l1 <= -INF or True) else 0, INF) if not (l1 >= 0 and l2 > 0) else (0, INF)
        c = [tdiv(l1, l2), tdiv(l1, h2), tdiv(h1, l2), tdiv(h1, h2)]
        if l1 < 0 < h1:
            c.append(0)
        return (min(c), max(c))
    return _pairs(a, b, f)


def mod(a, b):
    b = remove_point(b, 0)
    if not b:
        return BOT
    m = max(abs(lo(b)), abs(hi(b)))
    if m >= INF:
        return TOP
    out = []
    if hi(a) >= 0:
        out.append((0, min(m - 1, hi(a))) if lo(a) >= 0 else (0, m - 1))
    if lo(a) < 0:
        out.append((-(m - 1), 0))
    # exact for small finite operands
    va, vb = values(a, 512), values(b, 64)
    if va is not None and vb is not None:
        def cmod(x, y):
            r = abs(x) % abs(y)
            return r if x >= 0 else -r
        return from_values({cmod(x, y) for x in va for y in vb})
    return norm(out)


def shl(a, b):
    vb = values(b, 64)
    if vb is None or any(x < 0 or x > 62 for x in vb):
        return TOP
    out = BOT
    for s in vb:
        out = join(out, mul(a, const(1 << s)))
    return out


def shr(a, b):
    vb = values(b, 64)
    if vb is None or any(x < 0 or x > 62 for x in vb):
        return TOP
    out = []
    for s in vb:
        for l, h in a:
            out.append((l >> s if l > -INF else -INF, h >> s if h < INF else INF))
    return norm(out)


def band(a, b):
    va, vb = values(a, 1024), values(b, 64)
    if va is not None and vb is not None:
        return from_values({x & y for x in va for y in vb})
    # x & m with m a non-negative constant set: result in [0, max m]
    if lo(b) >= 0 and hi(b) < INF:
        if lo(a) >= 0:
            return mk(0, min(hi(a), hi(b)))
        return mk(0, hi(b))
    if lo(a) >= 0 and hi(a) < INF:
        return mk(0, hi(a))
    return TOP


def bor(a, b):
    va, vb = values(a, 256), values(b, 256)
    if va is not None and vb is not None:
        return from_values({x | y for x in va for y in vb})
    if lo(a) >= 0 and lo(b) >= 0 and hi(a) < INF and hi(b) < INF:
        m = (1 << max(hi(a).bit_length(), hi(b).bit_length())) - 1
        return mk(max(lo(a), lo(b)), m)
    return TOP


def bxor(a, b):
    va, vb = values(a, 256), values(b, 256)
    if va is not None and vb is not None:
        return from_values({x ^ y for x in va for y in vb})
    if lo(a) >= 0 and lo(b) >= 0 and hi(a) < INF and hi(b) < INF:
        m = (1 << max(hi(a).bit_length(), hi(b).bit_length())) - 1
        return mk(0, m)
    return TOP


def type_range(bits, signed):
    if not bits or bits <= 0 or bits > 64:
        return TOP
    if signed:
        return mk(-(1 << (bits - 1)), (1 << (bits - 1)) - 1)
    return mk(0, (1 << bits) - 1)


def cast(v, bits, signed):
    r = type_range(bits, signed)
    if r == TOP or not v:
        return v
    if lo(v) >= lo(r) and hi(v) <= hi(r):
        return v
    # wraps: exact for small finite sets
    vs = values(v, 1024)
    if vs is not None:
        m = 1 << bits
        out = set()
        for x in vs:
            y = x % m
            if signed and y >= m >> 1:
                y -= m
            out.add(y)
        return from_values(out)
    return r


def cmp_result(op, a, b):
    """value of (a op b) as {0},{1},{0,1}"""
    if not a or not b:
        return BOT
    t = f = False
    if op == '<':
        t = lo(a) < hi(b)
        f = hi(a) >= lo(b)
    elif op == '<=':
        t = lo(a) <= hi(b)
        f = hi(a) > lo(b)
    elif op == '>':
        return cmp_result('<', b, a)
    elif op == '>=':
        return cmp_result('<=', b, a)
    elif op == '==':
        t = bool(meet(a, b))
        f = not (size(a) == 1 and size(b) == 1 and a == b)
    elif op == '!=':
        r = cmp_result('==', a, b)
        return from_values({1 - x for x in values(r)})
    return from_values(([1] if t else []) + ([0] if f else []))


def show(v):
    if not v:
        return 'BOTTOM'
    if is_top(v):
        return 'TOP'
    def b(x):
        return '-inf' if x <= -INF else ('+inf' if x >= INF else str(x))
    return ' u '.join(('{%s}' % b(l)) if l == h else ('[%s,%s]' % (b(l), b(h))) for l, h in v)


# ---------------------------------------------------------------- analysis

class Analyzer:
    def __init__(self, prog, f, entry_state=None, call_summary=None, field_summary=None, global_tables=True,
                 havoc_fields_on_call=True, load_hook=None, diffs=(), ghosts=None, preserve_fields=(), start=None):
        # start: analyse the region reachable from this block only (entry_state describes its IN)
        self.start = start
        # preserve_fields: field names whose cells survive calls (the caller proves separately that no callee writes them)
        self.preserve_fields = set(preserve_fields)
        # ghosts: name -> {varkey: coef}: tracks  sum(coef*var) - (its value at entry)  as a linear
        # form  const-interval + symbolic terms  (so that  len -= b; data += b  cancels exactly)
        self.ghosts = dict(ghosts or {})
        # diffs: pairs (kx, ky) of variable keys whose difference x - y is tracked as a ghost variable
        self.diffs = set(diffs)
        self.prog = prog
        self.f = f
        self.cf = cfgm.CFG(f)
        self.entry_state = dict(entry_state or {})
        for g in self.ghosts:
            self.entry_state[('ghost', g)] = (const(0), ())
        self.call_summary = call_summary
        self.field_summary = field_summary or {}
        self.load_hook = load_hook
        self.havoc_fields_on_call = havoc_fields_on_call
        self.IN = {}
        self.notes = []
        self._addr_taken = self._compute_addr_taken()
        self._facts_cache = {}
        self._wcount = {}
        self._pending_rhs = None
        self._pending_lin = None
        self._pending_rel = None
        self._loop_cache = {}
        self.cur_block = None
        self._solve()

    # -- variable typing
    def _local_range(self, lid):
        l = self.f.locals.get(lid)
        if l and 'bits' in l and '[' not in l['type']:
            return type_range(l['bits'], l['signed'])
        return TOP

    def _param_range(self, i):
        if 0 <= i < len(self.f.params):
            p = self.f.params[i]
            if 'bits' in p:
                return type_range(p['bits'], p['signed'])
        return TOP

    def _node_range(self, e):
        a = sx.A(e)
        if 'w' in a:
            return type_range(a['w'], not a.get('u'))
        return TOP

    def _compute_addr_taken(self):
        s = set()
        for n in self.f.all_nodes():
            if n[0] == 'addr':
                r = sx.strip(n[1])
                if sx.kind(r) in ('local', 'param'):
                    s.add(sx.key(r))
        return s

    # -- variable keys
    def varkey(self, e):
        """key of a trackable scalar lvalue, or None"""
        e = sx.strip_paren(e)
        k = sx.kind(e)
        if k == 'local':
            l = self.f.locals.get(e[2])
            if l and ('[' in l['type']):
                return None
            return ('local', e[2])
        if k == 'param':
            return ('param', e[1])
        if k == 'field':
            if sx.A(e).get('t') in ('a', 'r'):
                return None
            b = self._pathkey(e[1])
            if b is None:
                return None
            return ('field', b, e[3])
        if k == 'deref':
            # *p for a pointer parameter/local used as an out/in scalar
            b = sx.strip(e[1])
            if sx.kind(b) in ('param', 'local') and sx.A(e).get('t') in ('s',):
                return ('deref', sx.key(b))
            return None
        return None

    def _pathkey(self, e):
        e = sx.strip(e)
        k = sx.kind(e)
        if k in ('local', 'param'):
            return sx.key(e)
        if k == 'field':
            b = self._pathkey(e[1])
            return None if b is None else ('field', b, e[3])
        if k == 'addr':
            return self._pathkey(e[1])
        if k == 'deref':
            return self._pathkey(e[1])
        return None

    def cellkey(self, e):
        """summary cell for an array element lvalue  base[i] / *(base+i)"""
        e = sx.strip_paren(e)
        if sx.kind(e) == 'idx':
            b = sx.strip(e[1])
            kb = self._pathkey(b) if sx.kind(b) in ('local', 'param', 'field') else None
            if kb is not None:
                return ('cell', kb)
        return None

    def lookup(self, st, key, default):
        v = st.get(key)
        return default if v is None else v

    # -- expression evaluation
    def ev(self, e, st):
        """value of e in state st.  Expression facts ("this side-effect-free
        sub-expression is known to lie in I", pushed while evaluating the arms
        of a ?: whose condition compares it with a constant) are met with the
        structural result - this is what makes the saturation idiom
        (X > C ? C : (X < c ? c : X)) exact when X is not a variable."""
        v = self._ev(e, st)
        ef = getattr(self, '_exprfacts', None)
        if ef and sx.kind(e) in ('bin', 'idx', 'deref', 'field', 'cast', 'paren', 'un', 'call', 'cond'):
            kk = sx.key(e)
            for fk, fv in ef:
                if fk == kk:
                    v = meet(v, fv)
        return v

    def _cond_exprfacts(self, c, pol):
        """[(key, interval)] for complex operands compared with constants in c"""
        out = []
        from . import guards as _g
        for op, l, r in _g.atoms(c, pol):
            for a, b, o in ((l, r, op), (r, l, {'<': '>', '<=': '>=', '==': '==', '!=': '!='}[op])):
                if b[0] == 'int' and isinstance(a, tuple) and a[0] not in ('int', 'local', 'param'):
                    cst = b[1]
                    iv = {'<': mk(-INF, cst - 1), '<=': mk(-INF, cst), '>': mk(cst + 1, INF), '>=': mk(cst, INF), '==': const(cst)}.get(o)
                    if iv is not None:
                        out.append((a, iv))
        return out

    def _ev(self, e, st):
        k = sx.kind(e)
        if k is None:
            return TOP
        if k == 'int':
            return const(e[1])
        if k in ('flt', 'str', 'func', 'other', 'stmt', 'initlist', 'complit'):
            return TOP
        if k == 'paren':
            return self.ev(e[1], st)
        if k == 'local':
            return self.lookup(st, ('local', e[2]), self._local_range(e[2]))
        if k == 'param':
            return self.lookup(st, ('param', e[1]), self._param_range(e[1]))
        if k == 'global':
            g = self.prog.globals.get(e[1])
            if g and g['const'] and isinstance(g.get('init'), int):
                return const(g['init'])
            return TOP
        if k == 'cast':
            v = self.ev(e[4], st)
            if e[2] and e[2] > 0:
                if sx.A(e[4]).get('t') == 'f' or sx.kind(sx.strip(e[4])) == 'flt':
                    return type_range(e[2], bool(e[3]))
                return cast(v, e[2], bool(e[3]))
            return v
        if k == 'field':
            vk = self.varkey(e)
            if vk is not None and vk in st:
                return st[vk]
            # member of a const global struct
            b = sx.strip(e[1])
            if sx.kind(b) == 'global':
                g = self.prog.globals.get(b[1])
                if g and g['const'] and isinstance(g.get('init'), dict) and isinstance(g['init'].get(e[3]), int):
                    return const(g['init'][e[3]])
            if self.load_hook:
                v = self.load_hook(self, e, st)
                if v is not None:
                    return meet(v, self._node_range(e)) or v
            fs = self.field_summary.get((e[2], e[3]))
            if fs is not None:
                return fs
            return self._node_range(e)
        if k == 'idx' or k == 'deref':
            if k == 'deref':
                vk = self.varkey(e)
                if vk is not None and vk in st:
                    return st[vk]
            v = self._table_load(e, st)
            if v is not None:
                return v
            if self.load_hook:
                # the caller's model of this memory cell takes precedence over the (weak) array summary
                v = self.load_hook(self, e, st)
                if v is not None:
                    return v
            ck = self.cellkey(e)
            if ck is not None and ck in st:
                return st[ck]
            return self._node_range(e)
        if k == 'un':
            v = self.ev(e[2], st)
            if e[1] == '-':
                return neg(v)
            if e[1] == '+':
                return v
            if e[1] == '!':
                r = cmp_result('==', v, const(0))
                return r
            if e[1] == '~':
                return sub(neg(v), const(1))
            return TOP
        if k == 'bin':
            op = e[1]
            if op in ('&&', '||'):
                a = self.truth(e[2], st)
                if op == '&&':
                    if a == const(0):
                        return const(0)
                    b = self.truth(e[3], self.refine(st, e[2], True))
                    if a == const(1):
                        return b
                    return join(const(0), b)
                else:
                    if a == const(1):
                        return const(1)
                    b = self.truth(e[3], self.refine(st, e[2], False))
                    if a == const(0):
                        return b
                    return join(const(1), b)
            if sx.A(e).get('ptr'):
                return TOP
            a = self.ev(e[2], st)
            b = self.ev(e[3], st)
            if op in ('<', '<=', '>', '>=', '==', '!='):
                return cmp_result(op, a, b)
            if op == '-':
                dk = self._diffkey(e[2], e[3])
                if dk is not None and dk in st:
                    return meet(sub(a, b), st[dk]) or st[dk]
                d = self._difference_fact(e[2], e[3])
                if d is not None:
                    return meet(sub(a, b), mk(d, INF)) or sub(a, b)
            r = {'+': add, '-': sub, '*': mul, '/': div, '%': mod, '<<': shl, '>>': shr, '&': band, '|': bor, '^': bxor}.get(op)
            if r is None:
                return TOP
            v = r(a, b)
            at = sx.A(e)
            if at.get('u') and at.get('w'):
                v = cast(v, at['w'], False)
            return v
        if k == 'cond':
            mm = self._minmax(e, st)
            t = self.truth(e[1], st)
            if mm is not None:
                return mm
            out = BOT
            old = getattr(self, '_exprfacts', None) or []
            pure = not any(x[0] in ('assign', 'cassign', 'inc', 'call') for x in sx.walk(e[1]))
            try:
                if t != const(0):
                    self._exprfacts = old + (self._cond_exprfacts(e[1], True) if pure else [])
                    out = join(out, self.ev(e[2], self.refine(st, e[1], True)))
                if t != const(1):
                    self._exprfacts = old + (self._cond_exprfacts(e[1], False) if pure else [])
                    out = join(out, self.ev(e[3], self.refine(st, e[1], False)))
            finally:
                self._exprfacts = old
            return out
        if k == 'comma':
            return self.ev(e[2], st)
        if k == 'assign':
            return self.ev(e[2], st)
        if k == 'cassign':
            return self._binop(e[1], self.ev(e[2], st), self.ev(e[3], st))
        if k == 'inc':
            v = self.ev(e[3], st)
            if e[2]:   # postfix: old value
                return v
            return add(v, const(1 if e[1] == '++' else -1))
        if k == 'call':
            if self.call_summary:
                r = self.call_summary(self, e, st)
                if r is not None:
                    return r
            n = sx.callee_name(e)
            if n == '__builtin_expect' and e[2]:
                return self.ev(e[2][0], st)
            if n == 'abs' and e[2]:
                v = self.ev(e[2][0], st)
                return join(meet(v, mk(0, INF)), neg(meet(v, mk(-INF, -1))))
            return self._node_range(e)
        if k == 'va_arg':
            return TOP
        return TOP

    def ghost_value(self, st, name):
        """interval of the ghost linear form in state st"""
        g = st.get(('ghost', name))
        if g is None:
            return TOP
        v = g[0]
        for key, coef in g[1]:
            val = st.get(key)
            if val is None:
                val = self._key_range(key)
            v = add(v, mul(val, const(coef)))
        return v

    def _ghost_update(self, st, vk, lin):
        """variable vk is about to change; lin describes new-old: ('const', iv) | ('var', key, sign) | None"""
        if not self.ghosts:
            return st
        for name, coefs in self.ghosts.items():
            gk = ('ghost', name)
            g = st.get(gk)
            if g is None:
                continue
            c, terms = g
            terms = dict(terms)
            # a symbolic term over vk refers to its old value: concretise it now
            if vk in terms:
                val = st.get(vk)
                if val is None:
                    val = self._key_range(vk)
                c = add(c, mul(val, const(terms.pop(vk))))
            a = coefs.get(vk)
            if a:
                if lin is None:
                    c = TOP
                    terms = {}
                elif lin[0] == 'const':
                    c = add(c, mul(lin[1], const(a)))
                else:
                    k2, sg = lin[1], lin[2]
                    terms[k2] = terms.get(k2, 0) + a * sg
                    if terms[k2] == 0:
                        del terms[k2]
            st[gk] = (c, tuple(sorted(terms.items())))
        return st

    def _lin_of(self, target, op, e, st):
        """new-old of `target op= e` for ghost tracking"""
        sg = 1 if op == '+' else -1
        v = sx.int_val(e)
        if v is not None:
            return ('const', const(sg * v))
        k = self.varkey(sx.strip(e))
        if k is not None and k[0] in ('local', 'param') and k != target and k not in self._addr_taken:
            return ('var', k, sg)
        val = self.ev(e, st)
        return ('const', val if sg == 1 else neg(val))

    def _diffkey(self, x, y):
        if not self.diffs:
            return None
        kx, ky = sx.key(sx.strip(x)), sx.key(sx.strip(y))
        if (kx, ky) in self.diffs:
            return ('diff', kx, ky)
        return None

    def _difference_fact(self, x, y):
        """lower bound of x - y from branch facts that dominate the current
        block (x, y plain variables that are not re-assigned in between):
        y < x  =>  x - y >= 1 ;  y <= x  =>  x - y >= 0"""
        b = getattr(self, 'cur_block', None)
        if b is None:
            return None
        kx, ky = sx.key(sx.strip(x)), sx.key(sx.strip(y))
        if kx is None or ky is None or kx[0] in ('int',) or ky[0] in ('int',):
            return None
        facts = self._facts_cache.get(b)
        if facts is None:
            from . import templates
            facts = templates.stable_facts(self.cf, b, None)
            self._facts_cache[b] = facts
        best = None
        for a in facts:
            if a == ('<', ky, kx):
                best = 1
            elif a == ('<=', ky, kx) and best is None:
                best = 0
        return best

    def _diff_of(self, kx, e, st, depth=0):
        """interval for (x - e) where x is the variable kx, using tracked
        differences for variables and the min/max structure of e"""
        if depth > 6:
            return None
        e0 = sx.strip(e)
        ke = sx.key(e0)
        if ke == kx:
            return const(0)
        vk = self.varkey(e0)
        if vk is not None:
            d = st.get(('diff', kx, vk))
            xv = st.get(kx)
            if xv is None:
                xv = self._key_range(kx) if kx[0] in ('local', 'param') else TOP
            plain = sub(xv, self.ev(e0, st))
            if d is not None:
                return meet(d, plain) or d
            return plain
        if sx.kind(e0) == 'cond':
            c = sx.strip_paren(e0[1])
            if sx.kind(c) == 'bin' and c[1] in ('<', '<=', '>', '>='):
                ka, kb = sx.key(c[2]), sx.key(c[3])
                kt, kf = sx.key(e0[2]), sx.key(e0[3])
                is_min = None
                if (ka, kb) == (kt, kf):
                    is_min = c[1] in ('<', '<=')
                elif (ka, kb) == (kf, kt):
                    is_min = c[1] in ('>', '>=')
                if is_min is not None:
                    da = self._diff_of(kx, e0[2], st, depth + 1)
                    db = self._diff_of(kx, e0[3], st, depth + 1)
                    if da is None or db is None or not da or not db:
                        return None
                    if is_min:     # x - min(A,B) = max(x-A, x-B)
                        return mk(max(lo(da), lo(db)), max(hi(da), hi(db)))
                    return mk(min(lo(da), lo(db)), min(hi(da), hi(db)))
        if sx.kind(e0) == 'bin' and e0[1] in ('+', '-') and not sx.A(e0).get('ptr'):
            da = self._diff_of(kx, e0[2], st, depth + 1)
            if da is not None:
                kv = self.ev(e0[3], st)
                return sub(da, kv) if e0[1] == '+' else add(da, kv)
        xv = st.get(kx)
        if xv is None:
            xv = self._key_range(kx) if kx[0] in ('local', 'param') else TOP
        return sub(xv, self.ev(e0, st))

    def _minmax_rel(self, e):
        """x = IMIN(c, y) / IMAX(c, y) with c constant and y a plain variable: ('min'|'max', c, ykey)"""
        e = sx.strip(e)
        if sx.kind(e) != 'cond':
            return None
        c = sx.strip_paren(e[1])
        if sx.kind(c) != 'bin' or c[1] not in ('<', '<=', '>', '>='):
            return None
        ka, kb = sx.key(c[2]), sx.key(c[3])
        kt, kf = sx.key(e[2]), sx.key(e[3])
        if (ka, kb) == (kt, kf):
            is_min = c[1] in ('<', '<=')
        elif (ka, kb) == (kf, kt):
            is_min = c[1] in ('>', '>=')
        else:
            return None
        a, b = sx.strip(e[2]), sx.strip(e[3])
        for x, y in ((a, b), (b, a)):
            cv = sx.int_val(x)
            yk = self.varkey(y)
            if cv is not None and yk is not None:
                return ('min' if is_min else 'max', cv, yk)
        return None

    def _propagate_rel(self, st, vk):
        """after refining x (vk), refine y where x = min/max(c, y)"""
        rel = st.get(('rel', vk))
        if rel is None or vk not in st:
            return st
        kind_, c, yk = rel
        x = st[vk]
        ycur = st.get(yk)
        if ycur is None:
            ycur = self._key_range(yk) if yk[0] in ('local', 'param') else TOP
        if kind_ == 'min':
            allowed = join(meet(x, mk(-INF, c - 1)), mk(c, INF) if meet(x, const(c)) else BOT)
        else:
            allowed = join(meet(x, mk(c + 1, INF)), mk(-INF, c) if meet(x, const(c)) else BOT)
        ny = meet(ycur, allowed)
        if ny and ny != ycur:
            st = dict(st)
            st[yk] = ny
        return st

    def _minmax(self, e, st):
        """(A < B) ? A : B  and friends: interval min / max"""
        c = sx.strip_paren(e[1])
        if sx.kind(c) != 'bin' or c[1] not in ('<', '<=', '>', '>='):
            return None
        ka, kb = sx.key(c[2]), sx.key(c[3])
        kt, kf = sx.key(e[2]), sx.key(e[3])
        if (ka, kb) == (kt, kf):
            is_min = c[1] in ('<', '<=')
        elif (ka, kb) == (kf, kt):
            is_min = c[1] in ('>', '>=')
        else:
            return None
        a, b = self.ev(e[2], st), self.ev(e[3], st)
        if not a or not b:
            return BOT
        if is_min:
            return join(meet(a, mk(-INF, hi(b))), meet(b, mk(-INF, hi(a))))
        return join(meet(a, mk(lo(b), INF)), meet(b, mk(lo(a), INF)))

    def _binop(self, op, a, b):
        r = {'+': add, '-': sub, '*': mul, '/': div, '%': mod, '<<': shl, '>>': shr, '&': band, '|': bor, '^': bxor}.get(op)
        return r(a, b) if r else TOP

    def truth(self, e, st):
        v = self.ev(e, st)
        if not v:
            return BOT
        z = bool(meet(v, const(0)))
        nz = bool(remove_point(v, 0))
        return from_values(([1] if nz else []) + ([0] if z else []))

    def _table_load(self, e, st):
        """load from a const global table (1-D/2-D, possibly through a row):
        the set of entries selected by the index range"""
        idxs = []
        b = e
        while sx.kind(b) in ('idx', 'paren', 'cast'):
            if b[0] == 'idx':
                idxs.append(b[2])
                b = b[1]
            elif b[0] == 'paren':
                b = b[1]
            else:
                b = b[4]
        if sx.kind(b) != 'global' or sx.kind(e) != 'idx':
            return None
        g = self.prog.globals.get(b[1])
        if not g or not g['const'] or not isinstance(g.get('init'), list):
            return None
        idxs.reverse()
        cur = [g['init']]
        for ix in idxs:
            iv = self.ev(ix, st)
            nxt = []
            for arr in cur:
                if not isinstance(arr, list):
                    return None
                sel = values(meet(iv, mk(0, len(arr) - 1)), 4096)
                if sel is None:
                    sel = range(len(arr))
                for i in sel:
                    nxt.append(arr[i])
            cur = nxt
            if len(cur) > 20000:
                return None
        if not cur or any(not isinstance(x, int) for x in cur):
            return None
        return from_values(set(cur))

    # -- branch refinement
    def refine(self, st, c, pol):
        """state after the branch on c took polarity pol; None if that is impossible.
        The truth value of a side-effect-free condition is consulted first, so that an
        edge is pruned even when the operands are not variables the state can refine."""
        if st is not None and c is not None and not getattr(self, '_in_refine', False):
            pure = not any(x[0] in ('assign', 'cassign', 'inc', 'call') for x in sx.walk(c))
            if pure:
                self._in_refine = True
                try:
                    t = self.truth(c, st)
                finally:
                    self._in_refine = False
                if t == const(0) and pol:
                    return None
                if t == const(1) and not pol:
                    return None
        return self._refine(st, c, pol)

    def _refine(self, st, c, pol):
        c = sx.strip_paren(c)
        k = sx.kind(c)
        if k == 'cast' and sx.A(c).get('impl'):
            return self.refine(st, c[4], pol)
        if k == 'un' and c[1] == '!':
            return self.refine(st, c[2], not pol)
        if k == 'bin' and c[1] == '&&':
            if pol:
                return self.refine(self.refine(st, c[2], True), c[3], True)
            a = self.refine(st, c[2], False)
            b = self.refine(self.refine(st, c[2], True), c[3], False)
            return self.join_states(a, b)
        if k == 'bin' and c[1] == '||':
            if not pol:
                return self.refine(self.refine(st, c[2], False), c[3], False)
            a = self.refine(st, c[2], True)
            b = self.refine(self.refine(st, c[2], False), c[3], True)
            return self.join_states(a, b)
        if k == 'call' and sx.callee_name(c) == '__builtin_expect' and c[2]:
            return self.refine(st, c[2][0], pol)
        if k == 'bin' and c[1] in ('<', '<=', '>', '>=', '==', '!='):
            op = c[1]
            if not pol:
                op = {'<': '>=', '<=': '>', '>': '<=', '>=': '<', '==': '!=', '!=': '=='}[op]
            return self._refine_cmp(st, c[2], op, c[3])
        # bare value
        tgt = c[1] if k == 'assign' else c
        return self._refine_cmp(st, tgt, '!=' if pol else '==', ['int', 0])

    def _refine_cmp(self, st, a, op, b):
        if st is None:
            return None
        out = st
        for (x, o, y) in ((a, op, b), (b, {'<': '>', '<=': '>=', '>': '<', '>=': '<=', '==': '==', '!=': '!='}[op], a)):
            x0 = sx.strip_paren(x)
            while sx.kind(x0) == 'cast' and self._cast_transparent(x0, out):
                x0 = sx.strip_paren(x0[4])
            if sx.kind(x0) == 'assign':
                x0 = sx.strip_paren(x0[1])
            vk = self.varkey(x0)
            if vk is None and sx.kind(x0) == 'bin' and x0[1] == '-':
                vk = self._diffkey(x0[2], x0[3])
            if vk is None and sx.kind(x0) == 'bin' and x0[1] == '*' and o in ('<', '<='):
                # a*b <= c with a,b >= 1: each factor <= c / lo(other)
                yv = self.ev(y, out)
                if yv and hi(yv) < INF:
                    cmax = hi(yv) - (1 if o == '<' else 0)
                    for p_, q_ in ((x0[2], x0[3]), (x0[3], x0[2])):
                        pk = self.varkey(sx.strip(p_))
                        while pk is None and sx.kind(sx.strip_paren(p_)) == 'cast' and self._cast_transparent(sx.strip_paren(p_), out):
                            p_ = sx.strip_paren(p_)[4]
                            pk = self.varkey(sx.strip(p_))
                        qv = self.ev(q_, out)
                        pv = self.ev(p_, out)
                        if pk is not None and qv and lo(qv) >= 1 and lo(pv) >= 0 and cmax >= 0:
                            newp = meet(pv, mk(-INF, cmax // lo(qv)))
                            if not newp:
                                return None
                            if newp != pv:
                                out = dict(out)
                                out[pk] = newp
                continue
            if vk is None:
                continue
            cur = self.ev(x0, out)
            yv = self.ev(y, out)
            if not yv:
                continue
            if o == '<':
                new = meet(cur, mk(-INF, hi(yv) - 1))
            elif o == '<=':
                new = meet(cur, mk(-INF, hi(yv)))
            elif o == '>':
                new = meet(cur, mk(lo(yv) + 1, INF))
            elif o == '>=':
                new = meet(cur, mk(lo(yv), INF))
            elif o == '==':
                new = meet(cur, yv)
            else:
                new = remove_point(cur, lo(yv)) if size(yv) == 1 else cur
            if not new:
                return None     # infeasible
            if new != cur or vk not in out:
                out = dict(out)
                out[vk] = new
                if ('rel', vk) in out:
                    out = self._propagate_rel(out, vk)
        return out

    def _cast_transparent(self, c, st):
        if not (c[2] and c[2] > 0):
            return False
        v = self.ev(c[4], st)
        r = type_range(c[2], bool(c[3]))
        return bool(v) and lo(v) >= lo(r) and hi(v) <= hi(r)

    # -- states
    def join_states(self, a, b):
        if a is None:
            return b
        if b is None:
            return a
        out = {}
        for k in set(a) & set(b):
            if k[0] == 'rel':
                if a[k] == b[k]:
                    out[k] = a[k]
                continue
            if k[0] == 'ghost':
                if a[k][1] == b[k][1]:
                    out[k] = (join(a[k][0], b[k][0]), a[k][1])
                else:
                    out[k] = (join(self.ghost_value(a, k[1]), self.ghost_value(b, k[1])), ())
                continue
            out[k] = join(a[k], b[k])
        return out

    def _loop_assigned(self, head):
        """variable keys that may be assigned inside the loop headed by `head`
        (blocks on a cycle through head); None = unknown (widen everything)"""
        c = self._loop_cache.get(head)
        if c is not None:
            return c
        cf = self.cf
        # natural loop of the back edges into head
        body = {head}
        work = [p_ for p_ in cf.pred[head] if cf.dominates(head, p_)]
        if not work:
            fwd = cf.reachable_from(head)
            body = {b for b in fwd if head in cf.reachable_from(b)} | {head}
        while work:
            n_ = work.pop()
            if n_ in body:
                continue
            body.add(n_)
            work.extend(cf.pred[n_])
        keys = set()
        for b in body:
            for s in self.f.block_exprs(cf.blocks[b]):
                for n in sx.walk(s):
                    lv = None
                    if n[0] == 'assign':
                        lv = n[1]
                    elif n[0] == 'cassign':
                        lv = n[2]
                    elif n[0] == 'inc':
                        lv = n[3]
                    elif n[0] == 'decls':
                        for d in n[1]:
                            if d[0] == 'decl':
                                keys.add(('local', d[2]))
                    elif n[0] == 'addr':
                        lv = n[1]
                    elif n[0] == 'call':
                        keys.add('CALL')
                    if lv is not None:
                        vk = self.varkey(lv) or self.cellkey(lv) or self._pathkey(lv)
                        keys.add(vk if vk is not None else 'UNKNOWN')
        self._loop_cache[head] = keys
        return keys

    def widen_states(self, old, new, head=None):
        if old is None:
            return new
        if new is None:
            return old
        assigned = self._loop_assigned(head) if head is not None else None
        out = {}
        for k in set(old) & set(new):
            o, n = old[k], new[k]
            if n == o:
                out[k] = o
                continue
            if k[0] == 'rel':
                continue
            if k[0] == 'ghost':
                ov = self.ghost_value(old, k[1]) if o[1] != n[1] else o[0]
                nv = self.ghost_value(new, k[1]) if o[1] != n[1] else n[0]
                j = join(ov, nv)
                l_ = lo(j) if lo(j) >= lo(ov) else -INF
                h_ = hi(j) if hi(j) <= hi(ov) else INF
                out[k] = (mk(l_, h_), o[1] if o[1] == n[1] else ())
                continue
            if assigned is not None and k[0] in ('local', 'param') and k not in assigned and k not in self._addr_taken:
                # not assigned inside the loop: its value at the head can only change because the
                # state entering the loop changed - plain join keeps the entry bound
                out[k] = n
                continue
            j = join(o, n)
            wc = self._wcount.get((head, k), 0) + 1
            self._wcount[(head, k)] = wc
            if wc > 4:
                # thresholds exhausted their welcome: go to the type bound
                l = lo(j) if lo(j) >= lo(o) else self._type_lo(k)
                h = hi(j) if hi(j) <= hi(o) else self._type_hi(k)
            else:
                l = lo(j) if lo(j) >= lo(o) else self._wlow(k, lo(j))
                h = hi(j) if hi(j) <= hi(o) else self._whigh(k, hi(j))
            if lo(j) >= lo(o) and hi(j) <= hi(o):
                out[k] = j
            else:
                out[k] = mk(l, h)
        return out

    LADDER = [0, 1, 3, 7, 15, 31, 63, 127, 255, 1023, 4095, 32767, 65535, 1 << 31]

    def _whigh(self, k, h):
        for x in self.LADDER:
            if x >= h:
                return x if x < (1 << 31) else self._type_hi(k)
        return self._type_hi(k)

    def _wlow(self, k, l):
        for x in self.LADDER:
            if -x <= l:
                return -x if x < (1 << 31) else self._type_lo(k)
        return self._type_lo(k)

    def _type_hi(self, k):
        r = self._key_range(k)
        return hi(r)

    def _type_lo(self, k):
        r = self._key_range(k)
        return lo(r)

    def _key_range(self, k):
        if k[0] == 'local':
            return self._local_range(k[1])
        if k[0] == 'param':
            return self._param_range(k[1])
        return TOP

    # -- transfer
    def exec_stmt(self, s, st):
        """returns new state (or None if infeasible)"""
        if st is None:
            return None
        k = sx.kind(s)
        if k == 'decls':
            for d in s[1]:
                if d[0] == 'decl':
                    a = sx.A(d)
                    if 'vla' in a:
                        st = self._effects(a['vla'], st)
                    if d[3] is not None:
                        st = self._effects(d[3], st)
                        l = self.f.locals.get(d[2])
                        if l and '[' not in l['type']:
                            v = self.ev(d[3], st)
                            self._pending_rel = self._minmax_rel(d[3])
                            self._pending_rhs = d[3]
                            st = self._store(['local', d[1], d[2]], meet(v, self._local_range(d[2])) or v, st)
                            self._pending_rel = None
                            self._pending_rhs = None
                    else:
                        st = dict(st)
                        st.pop(('local', d[2]), None)
            return st
        if k == 'ret':
            return self._effects(s[1], st) if s[1] is not None else st
        return self._effects(s, st)

    def _effects(self, e, st):
        """apply side effects of evaluating e (in evaluation order)"""
        if st is None or not isinstance(e, list) or not e:
            return st
        k = e[0]
        if k in ('int', 'flt', 'str', 'local', 'param', 'global', 'func', 'other', 'stmt'):
            return st
        if k == 'assign':
            st = self._effects(e[2], st)
            st = self._effects_lvalue(e[1], st)
            if st is None:
                return None
            v = self.ev(e[2], st)
            self._pending_delta = None
            self._pending_rel = self._minmax_rel(e[2])
            self._pending_rhs = e[2]
            r = sx.strip(e[2])
            self._pending_lin = None
            if self.ghosts:
                tk = self.varkey(e[1])
                if tk is not None and sx.kind(r) == 'bin' and r[1] in ('+', '-') and sx.key(sx.strip(r[2])) == sx.key(sx.strip_paren(e[1])):
                    self._pending_lin = self._lin_of(tk, r[1], r[3], st)
                elif tk is not None and any(tk in c_ for c_ in self.ghosts.values()):
                    # x = f(x) through clamps:  new - old = -(x_old - rhs), from the min/max structure of the right-hand side
                    d_ = self._diff_of(tk, e[2], st)
                    if d_ is not None and d_:
                        self._pending_lin = ('const', neg(d_))
            if self.diffs and sx.kind(r) == 'bin' and r[1] in ('+', '-') and sx.key(sx.strip(r[2])) == sx.key(sx.strip_paren(e[1])):
                d = self.ev(r[3], st)
                self._pending_delta = d if r[1] == '+' else neg(d)
            out = self._store(e[1], v, st)
            self._pending_delta = None
            self._pending_rel = None
            self._pending_rhs = None
            self._pending_lin = None
            return out
        if k == 'cassign':
            st = self._effects(e[3], st)
            st = self._effects_lvalue(e[2], st)
            if st is None:
                return None
            v = self._binop(e[1], self.ev(e[2], st), self.ev(e[3], st))
            self._pending_delta = None
            if self.diffs and e[1] in ('+', '-'):
                d = self.ev(e[3], st)
                self._pending_delta = d if e[1] == '+' else neg(d)
            self._pending_lin = None
            if self.ghosts and e[1] in ('+', '-'):
                tk = self.varkey(e[2])
                if tk is not None:
                    self._pending_lin = self._lin_of(tk, e[1], e[3], st)
            out = self._store(e[2], v, st)
            self._pending_delta = None
            self._pending_lin = None
            return out
        if k == 'inc':
            st = self._effects_lvalue(e[3], st)
            if st is None:
                return None
            v = add(self.ev(e[3], st), const(1 if e[1] == '++' else -1))
            self._pending_delta = const(1 if e[1] == '++' else -1)
            self._pending_lin = ('const', const(1 if e[1] == '++' else -1))
            out = self._store(e[3], v, st)
            self._pending_delta = None
            self._pending_lin = None
            return out
        if k == 'bin' and e[1] in ('&&', '||'):
            st1 = self._effects(e[2], st)
            st2 = self._effects(e[3], self.refine(st1, e[2], e[1] == '&&'))
            return self.join_states(st1, st2) if st2 is not None else st1
        if k == 'cond':
            st = self._effects(e[1], st)
            a = self._effects(e[2], self.refine(st, e[1], True))
            b = self._effects(e[3], self.refine(st, e[1], False))
            if a is None:
                return b
            if b is None:
                return a
            return self.join_states(a, b)
        if k == 'call':
            for c in sx.children(e):
                st = self._effects(c, st)
            return self._call_effects(e, st)
        for c in sx.children(e):
            st = self._effects(c, st)
        return st

    def _effects_lvalue(self, lv, st):
        for c in sx.children(lv):
            st = self._effects(c, st)
        return st

    def _store(self, lv, v, st):
        if st is None:
            return None
        lv = sx.strip_paren(lv)
        vk = self.varkey(lv)
        st = dict(st)
        if vk is not None and self.ghosts:
            st = self._ghost_update(st, vk, getattr(self, '_pending_lin', None))
        if vk is not None:
            for k2 in list(st):
                if k2[0] == 'rel' and (k2[1] == vk or st[k2][2] == vk):
                    del st[k2]
            pr = getattr(self, '_pending_rel', None)
            if pr is not None and pr[2] != vk:
                st[('rel', vk)] = pr
        if vk is not None and self.diffs:
            oldv = st.get(vk)
            if oldv is None:
                oldv = self._key_range(vk) if vk[0] in ('local', 'param') else TOP
            delta = getattr(self, '_pending_delta', None)
            for (kx, ky) in self.diffs:
                dk = ('diff', kx, ky)
                if vk == kx or vk == ky:
                    cur = st.get(dk)
                    rhs = getattr(self, '_pending_rhs', None)
                    if delta is not None and cur is not None:
                        st[dk] = add(cur, delta) if vk == kx else sub(cur, delta)
                    elif vk == ky and rhs is not None:
                        # y' = rhs:  x - y' evaluated relationally
                        d = self._diff_of(kx, rhs, st)
                        if d is not None and not is_top(d):
                            st[dk] = d
                        elif dk in st:
                            del st[dk]
                    elif dk in st:
                        del st[dk]
        if vk is not None:
            if vk[0] == 'local':
                v = cast_to(v, self._local_range(vk[1]))
            elif vk[0] == 'param':
                v = cast_to(v, self._param_range(vk[1]))
            else:
                r = self._node_range(lv)
                v = cast_to(v, r)
            st[vk] = v
            # a store to p->f invalidates other views of the same field name through different bases
            if vk[0] == 'field':
                for k2 in list(st):
                    if k2 != vk and k2[0] == 'field' and k2[2] == vk[2]:
                        del st[k2]
            if vk[0] in ('local', 'param'):
                # paths rooted at a re-assigned pointer are stale
                for k2 in list(st):
                    if k2 != vk and _rooted(k2, vk):
                        del st[k2]
            return st
        ck = self.cellkey(lv)
        if ck is not None:
            r = self._node_range(lv)
            v = cast_to(v, r)
            old = st.get(ck)
            st[ck] = v if old is None and self._fresh_cell(ck) else join(old if old is not None else r, v)
            return st
        # store through an unknown pointer: forget derefs and fields (not locals whose address is never taken)
        for k2 in list(st):
            if k2[0] in ('field', 'deref', 'cell') or (k2 in self._addr_taken):
                del st[k2]
        return st

    def _fresh_cell(self, ck):
        return False

    def _call_effects(self, e, st):
        if st is None:
            return None
        n = sx.callee_name(e)
        pure = n in PURE or (n or '').startswith('__builtin_')
        st2 = st
        # out-parameters: &x arguments lose their value
        killed = []
        for a in e[2]:
            a0 = sx.strip(a)
            if sx.kind(a0) == 'addr':
                vk = self.varkey(a0[1]) or self._pathkey(a0[1])
                if vk is not None:
                    killed.append(vk)
            elif sx.kind(a0) in ('local', 'param'):
                # array/pointer argument: its summary cell may be written
                killed.append(('cell', sx.key(a0)))
                killed.append(('deref', sx.key(a0)))
            elif sx.kind(a0) == 'bin' and sx.A(a0).get('ptr'):
                r0, _ = sx.lvalue_root(a0)
                if sx.kind(r0) in ('local', 'param'):
                    killed.append(('cell', sx.key(r0)))
                    killed.append(('deref', sx.key(r0)))
        if killed or (not pure and self.havoc_fields_on_call):
            st2 = dict(st)
            for k2 in list(st2):
                if self.preserve_fields and k2[0] == 'field' and k2[2] in self.preserve_fields:
                    continue
                if k2 in killed or any(_rooted(k2, kk) for kk in killed):
                    del st2[k2]
                elif not pure and self.havoc_fields_on_call and k2[0] in ('field', 'deref') and not self._const_rooted(k2):
                    del st2[k2]
        return st2

    def _const_rooted(self, k):
        """field path rooted at a pointer-to-const parameter cannot be changed by callees we pass it to"""
        while k[0] in ('field', 'deref'):
            k = k[1]
        if k[0] == 'param' and 0 <= k[1] < len(self.f.params):
            return bool(self.f.params[k[1]].get('pointee_const'))
        return False

    # -- fixpoint
    def _solve(self):
        cf = self.cf
        start = self.start if self.start is not None else cf.entry
        order = cf._rpo(start, cf.succ)
        pos = {b: i for i, b in enumerate(order)}
        back_targets = set()
        for b in order:
            for s in cf.succ[b]:
                if s in pos and pos[s] <= pos[b]:
                    back_targets.add(s)
        IN = {start: dict(self.entry_state)}
        visits = {}
        work = [start]
        inwork = {start}
        steps = 0
        self.edge_out = {}
        while work and steps < 20000:
            steps += 1
            work.sort(key=lambda b: pos.get(b, 0))
            b = work.pop(0)
            inwork.discard(b)
            st = IN.get(b)
            if st is None:
                continue
            out = st
            self.cur_block = b
            for s in cf.blocks[b]['stmts']:
                out = self.exec_stmt(s, out)
                if out is None:
                    break
            c = cf.cond(b)
            if out is not None and c is not None:
                out = self._effects(c, out)
            for s, pol in cf.edges(b):
                so = out
                if so is not None and pol is not None and c is not None:
                    so = self.refine(so, c, pol)
                elif so is not None and pol is None and cf.blocks[b].get('term', {}).get('kind') == 'SwitchStmt' and c is not None:
                    lab = cf.blocks[s].get('label', {})
                    if 'case' in lab and lab['case'][0] is not None:
                        so = self._refine_cmp(so, c, '>=', ['int', lab['case'][0]])
                        if so is not None:
                            so = self._refine_cmp(so, c, '<=', ['int', lab['case'][1]])
                self.edge_out[(b, s)] = so
                if so is None:
                    continue
                old = IN.get(s)
                if old is None:
                    new = so
                else:
                    new = self.join_states(old, so)
                    if s in back_targets:
                        visits[s] = visits.get(s, 0) + 1
                        if visits[s] > 3:
                            new = self.widen_states(old, new, s)
                if old is None or new != old:
                    IN[s] = new
                    if s not in inwork:
                        work.append(s)
                        inwork.add(s)
        self.converged = not work
        # one narrowing pass: recompute INs from predecessors' edge outputs without widening
        for _ in range(2):
            for b in order:
                if b == start:
                    continue
                ins = [self.edge_out.get((p, b)) for p in cf.pred[b]]
                ins = [x for x in ins if x is not None]
                if not ins:
                    continue
                new = ins[0]
                for x in ins[1:]:
                    new = self.join_states(new, x)
                # narrowing: only accept if it is below the widened state
                old = IN.get(b)
                if old is not None:
                    nn = {}
                    for k in new:
                        if k[0] in ('rel', 'ghost'):
                            nn[k] = new[k]
                        elif k in old:
                            m = meet(old[k], new[k])
                            nn[k] = m if m else new[k]
                        else:
                            nn[k] = new[k]
                    new = nn
                IN[b] = new
                # re-run the block to refresh edge outputs
                out = new
                self.cur_block = b
                for s in cf.blocks[b]['stmts']:
                    out = self.exec_stmt(s, out)
                    if out is None:
                        break
                c = cf.cond(b)
                if out is not None and c is not None:
                    out = self._effects(c, out)
                for s, pol in cf.edges(b):
                    so = out
                    if so is not None and pol is not None and c is not None:
                        so = self.refine(so, c, pol)
                    self.edge_out[(b, s)] = so
        self.IN = IN

    def infeasible_edges(self):
        """edges that no abstract state can traverse"""
        out = set()
        for (b, s), st in self.edge_out.items():
            if st is None and b in self.IN:
                out.add((b, s))
        for b in self.cf.blocks:
            if b not in self.IN and b != self.cf.entry:
                for s in self.cf.succ.get(b, []):
                    out.add((b, s))
        return out

    # -- queries
    def state_at(self, b, i):
        """state just before statement i of block b (i == len(stmts) -> before the branch condition)"""
        st = self.IN.get(b)
        if st is None:
            return None
        self.cur_block = b
        blk = self.cf.blocks[b]
        for j, s in enumerate(blk['stmts']):
            if j >= i:
                break
            st = self.exec_stmt(s, st)
            if st is None:
                return None
        return st

    def state_before_node(self, b, i, node):
        """state when `node` (a sub-expression of statement i of block b) is
        evaluated: effects of earlier siblings in the same statement applied,
        and short-circuit / ?: conditions that must hold to reach it assumed"""
        st = self.state_at(b, i)
        if st is None:
            return None
        blk = self.cf.blocks[b]
        stmts = blk['stmts']
        s = stmts[i] if i < len(stmts) else self.cf.cond(b)
        return self._descend(s, node, st)

    def _descend(self, e, target, st):
        if e is target or st is None:
            return st
        k = sx.kind(e)
        if k is None:
            return None
        if k == 'decls':
            for d in e[1]:
                if d[0] == 'decl':
                    if d[3] is not None and _contains(d[3], target):
                        return self._descend(d[3], target, st)
                    if 'vla' in sx.A(d) and _contains(sx.A(d)['vla'], target):
                        return self._descend(sx.A(d)['vla'], target, st)
                    st = self.exec_stmt(['decls', [d]], st)
            return None
        if k == 'bin' and e[1] in ('&&', '||'):
            if _contains(e[2], target):
                return self._descend(e[2], target, st)
            st = self._effects(e[2], st)
            return self._descend(e[3], target, self.refine(st, e[2], e[1] == '&&'))
        if k == 'cond':
            if _contains(e[1], target):
                return self._descend(e[1], target, st)
            st = self._effects(e[1], st)
            if _contains(e[2], target):
                return self._descend(e[2], target, self.refine(st, e[1], True))
            return self._descend(e[3], target, self.refine(st, e[1], False))
        for c in sx.children(e):
            if _contains(c, target):
                return self._descend(c, target, st)
            st = self._effects(c, st)
        return None


PURE = {'abs', 'silk_min_int', 'silk_max_int', 'silk_min_32', 'silk_max_32', 'silk_min_16', 'silk_max_16', 'silk_CLZ32',
        'silk_log2lin', 'silk_lin2log', 'silk_SMULWB', 'silk_SMLAWB', 'silk_SMULBB', 'ec_tell', 'ec_tell_frac', 'align',
        'celt_fatal', 'opus_packet_get_samples_per_frame', 'opus_packet_get_nb_channels', 'opus_packet_get_bandwidth',
        'get_pulses', 'opus_select_arch', 'EC_ILOG', 'ec_ilog', 'silk_ROR32', 'silk_LIMIT_int', 'silk_LIMIT_32'}


def cast_to(v, r):
    """value stored into a variable of range r.  Signed targets: signed
    overflow is undefined behaviour, so values outside the type are clipped
    (assumption stated in DESIGN.md); unsigned targets wrap: full range."""
    if r == TOP or not v:
        return v
    if lo(v) >= lo(r) and hi(v) <= hi(r):
        return v
    if lo(r) < 0:
        m = meet(v, r)
        return m if m else r
    return r


def _rooted(k, root):
    while isinstance(k, tuple) and k and k[0] in ('field', 'deref', 'cell'):
        k = k[1]
        if k == root:
            return True
    return False


def _contains(e, target):
    if e is target:
        return True
    for n in sx.walk(e):
        if n is target:
            return True
    return False


# ---------------------------------------------------------------- product analysis

class _ProductFn:
    """a Function-like view whose CFG is the product of f's CFG with a small
    finite automaton (typestate / trace partitioning): node (b, q) has id
    b * nq + q; transition(b, s, q) -> q' labels the edges"""

    def __init__(self, f, nq, transition, q0=0):
        self.name = f.name
        self.file = f.file
        self.tu = f.tu
        self.d = f.d
        self.params = f.params
        self.locals = f.locals
        self.nq = nq
        self.base = f
        blocks = {}
        for b, blk in f.blocks.items():
            for q in range(nq):
                nb = dict(blk)
                nb['id'] = b * nq + q
                nb['succ'] = [None if s is None else s * nq + transition(b, s, q) for s in blk['succ']]
                blocks[b * nq + q] = nb
        self.blocks = blocks
        self.entry = f.entry * nq + q0
        self.exit = f.exit * nq        # nominal
        # make every (exit, q) flow to the nominal exit
        for q in range(1, nq):
            blocks[f.exit * nq + q]['succ'] = [self.exit]

    def stmts(self):
        return self.base.stmts()

    def block_exprs(self, b):
        return self.base.block_exprs(b)

    def all_nodes(self):
        return self.base.all_nodes()

    def calls(self):
        return self.base.calls()

    def param_index(self, n):
        return self.base.param_index(n)

    def where(self, ln=None):
        return self.base.where(ln)


def product_analysis(prog, f, nq, transition, q0=0, **kw):
    """abstract interpretation of f partitioned by automaton state; returns
    (analyzer, feasible) where feasible(b, q) says whether block b can be
    entered in automaton state q"""
    pf = _ProductFn(f, nq, transition, q0)
    an = Analyzer(prog, pf, **kw)

    def feasible(b, q):
        return (b * nq + q) in an.IN and an.IN[b * nq + q] is not None
    return an, feasible


def inline_summary(prog, max_depth=2, extra=None):
    """call_summary that analyses small side-effect-free callees with the
    abstract arguments bound to their parameters and returns the join of the
    values at their return statements.  Only callees whose body contains no
    store through a pointer, no call to a non-inlinable function and at most
    `40` CFG blocks are inlined; everything else falls through (None)."""
    cache = {}

    def _inlinable(g):
        if len(g.blocks) > 40:
            return False
        for n in g.all_nodes():
            if n[0] in ('assign', 'cassign', 'inc'):
                lv = sx.strip_paren(n[1] if n[0] == 'assign' else (n[2] if n[0] == 'cassign' else n[3]))
                if sx.kind(lv) != 'local':
                    return False
            if n[0] == 'asm':
                return False
        return True

    def summary(an, e, st, depth=0):
        if extra is not None:
            r = extra(an, e, st)
            if r is not None:
                return r
        name = sx.callee_name(e)
        if name is None:
            return None
        g = prog.resolve_in(an.f, name)
        if g is None or g is an.f or not g.blocks:
            return None
        ok = cache.get(('inl', g.file, name))
        if ok is None:
            ok = cache[('inl', g.file, name)] = _inlinable(g)
        if not ok:
            return None
        d = getattr(an, '_inline_depth', 0)
        if d >= max_depth:
            return None
        args = tuple(an.ev(a, st) for a in e[2])
        key = (g.file, name, args)
        if key in cache:
            return cache[key]
        entry = {('param', i): v for i, v in enumerate(args) if i < len(g.params)}
        try:
            sub = Analyzer.__new__(Analyzer)
            sub._inline_depth = d + 1
            Analyzer.__init__(sub, prog, g, entry_state=entry, call_summary=summary, havoc_fields_on_call=False)
        except RecursionError:
            return None
        res = BOT
        cfb = sub.cf
        for b, i, s in cfb.positions():
            if sx.kind(s) == 'ret' and s[1] is not None:
                stb = sub.state_at(b, i)
                if stb is not None:
                    res = join(res, sub.ev(s[1], stb))
        if res == BOT:
            res = None
        cache[key] = res
        return res
    return summary
