"""C12 — codec state is deterministic, freely copyable and reset-equivalent.

R12.1 no hidden inputs: the C14 obligations (no writable static storage, no
      hidden-state libc call, no pseudostack) re-evaluated here - outputs
      cannot depend on other objects or earlier unrelated calls through globals.
R12.2 whole-state initialisation: each init function clears the entire object
      (length = the size query with init's own arguments, or the record size)
      before any other access through the state pointer; multistream headers
      assign every scalar field.
R12.3 position independence: no pointer field of any record embedded in a codec
      state is ever assigned a value derived from the state's own address
      (memcpy clones would alias the original).
R12.4 the size query equals the carve-up used by init (linear normal form with
      uninterpreted size calls) for the Opus encoder and decoder.
R12.5 reset region: every partial clear `memset(&st->M, 0, TOTAL - offset(M))`
      uses the same TOTAL as init (record size, or the size query applied to
      fields that only init writes and that init sets from the matching
      arguments).
R12.6 init/reset agreement: every field of the cleared region that init leaves
      non-zero is re-assigned by the reset handler with the same value (or init
      delegates to the reset handler).
R12.7 reset completeness: (i) no user setting lies inside the cleared region
      unless the handler re-assigns it; (ii) a field outside the cleared region
      that the codec writes and whose value can survive into the next call
      (read before being rewritten) is re-established by the reset handler, is
      a setting, or is listed with the reason it cannot be observed.
"""
import json, os
from .. import sx, cfg as cfgm, guards, templates as T, ctl as ctlm, decide, absint
from ..facts import flatten
from ..compdb import AnalysisBroken, VERIF

EXPLANATION = (
    'Decided: R12.1 no writable static storage / hidden-state libc (the C14 proof obligations); R12.2 init clears the '
    'whole object before any other access; R12.3 no state field ever holds a pointer derived from the state\'s own '
    'address (memcpy-safe); R12.4 size query = carve-up (Opus encoder/decoder); R12.5 reset clears exactly '
    'from the marker to the end with the same total as init; R12.6 init and reset agree on every re-derived field; '
    'R12.7 no setting is wiped by reset and every out-of-region field whose value can survive a call is re-established '
    'by reset, is a setting, or is a listed, reasoned exception (two genuine residues found by this rule were fixed). '
    'NOT decided: equality of the outputs of twin objects (run-time) and absence of every uninitialised read on every '
    'path beyond the state-level argument.')

CONFIGS = {'quick': ['float', 'custom'], 'thorough': ['float', 'fixed', 'custom']}

EXC = os.path.join(VERIF, 'spec', 'c12_reset_exceptions.json')

MEMSET = ('memset', '__builtin_memset', '__builtin___memset_chk', '__memset_chk')

# (record, init functions, reset handler function, request name or None when the handler is a plain function)
OBJECTS = [
    ('OpusEncoder', ('opus_encoder_init',), 'opus_encoder_ctl', 'OPUS_RESET_STATE', 'opus_encoder_get_size'),
    ('OpusDecoder', ('opus_decoder_init',), 'opus_decoder_ctl', 'OPUS_RESET_STATE', 'opus_decoder_get_size'),
    ('OpusCustomEncoder', ('opus_custom_encoder_init_arch',), 'opus_custom_encoder_ctl', 'OPUS_RESET_STATE', 'opus_custom_encoder_get_size'),
    ('OpusCustomDecoder', ('opus_custom_decoder_init',), 'opus_custom_decoder_ctl', 'OPUS_RESET_STATE', 'opus_custom_decoder_get_size'),
    ('silk_decoder_state', ('silk_init_decoder',), 'silk_reset_decoder', None, None),
    ('TonalityAnalysisState', ('tonality_analysis_init',), 'tonality_analysis_reset', None, None),
]


def setup(rep, tier):
    rep.minimum('R12.1', 3)
    rep.minimum('R12.2', 6)
    rep.minimum('R12.3', 10)
    rep.minimum('R12.4', 2)
    rep.minimum('R12.5', 5)
    rep.minimum('R12.6', 5)
    rep.minimum('R12.7', 10)
    rep.minimum('R12.8', 1)
    rep.minimum('R12.9', 3)
    rep.minimum('R12.10', 10)
    rep.minimum('R12.11', 2)
    rep.minimum('R12.12', 2)


# ------------------------------------------------------------------ helpers
def lv_of(n):
    return sx.strip_paren(n[1] if n[0] == 'assign' else (n[2] if n[0] == 'cassign' else n[3]))


def field_stores(nodes):
    for n in nodes:
        if n[0] in ('assign', 'cassign', 'inc'):
            lv = lv_of(n)
            if sx.kind(lv) == 'field':
                yield n, lv


def chain_assigns(n):
    """a = b = c = rhs -> ([a,b,c], rhs)"""
    lvs = []
    while sx.kind(n) == 'assign':
        lvs.append(sx.strip_paren(n[1]))
        n = sx.strip_paren(n[2])
    return lvs, n


def zero_clears(f, cf=None):
    """(block, index, call, dst, length) for memset(dst, 0, length)"""
    cf = cf or cfgm.CFG(f)
    out = []
    for b, i, c in cf.find(lambda c: c[0] == 'call' and sx.callee_name(c) in MEMSET):
        if len(c[2]) >= 3 and sx.int_val(c[2][1]) == 0:
            out.append((b, i, c, sx.strip(c[2][0]), c[2][2]))
    return out


def marker_field(dst):
    """&st->F (possibly cast) or a local initialised to it -> field node F"""
    d = sx.strip(dst)
    if sx.kind(d) == 'addr' and sx.kind(sx.strip(d[1])) == 'field':
        return sx.strip(d[1])
    return None


def record_field(prog, rec, name):
    for f in prog.record(rec)['fields']:
        if f['name'] == name:
            return f
    return None


def reset_region(prog, f, cf, blocks=None):
    """the partial clear of a reset handler: (marker field node, record, total expr, call) or None"""
    for b, i, c, dst, ln in zero_clears(f, cf):
        if blocks is not None and b not in blocks:
            continue
        m = marker_field(dst)
        if m is None and sx.kind(dst) == 'local':
            # char *start = (char*)&st->MARKER;
            for n in f.all_nodes():
                if n[0] == 'assign' and sx.key(n[1]) == sx.key(dst):
                    m = marker_field(n[2])
                if n[0] == 'decls':
                    for d in n[1]:
                        if d[0] == 'decl' and ('local', d[2]) == sx.key(dst) and d[3] is not None:
                            m = marker_field(d[3])
        if m is None:
            continue
        # length: (TOTAL - (ptr - (char*)st)) [* 1]
        l = sx.strip(ln)
        if sx.kind(l) == 'bin' and l[1] == '*' and sx.int_val(l[3]) == 1:
            l = sx.strip(l[2])
        if sx.kind(l) == 'bin' and l[1] == '-':
            total, off = sx.strip(l[2]), sx.strip(l[3])
            if sx.kind(off) == 'bin' and off[1] == '-' and sx.A(off).get('ptr', True):
                return m, m[2], total, c, (b, i)
    return None


def arm_blocks(prog, fname, request):
    f = prog.fn(fname)
    cf, arms = ctlm.switch_arms(f)
    for a in arms:
        if request in a.names:
            return f, cf, a
    raise AnalysisBroken('%s has no %s arm' % (fname, request))


# ------------------------------------------------------------------ R12.1
class _Proxy:
    def __init__(self, rep, rule):
        self._rep, self._rule = rep, rule
        self.functions = rep.functions
        self.extra = rep.extra
        self.trusted = rep.trusted
        self.assumptions = rep.assumptions
        self.n = 0

    def holds(self, rule, *a, **k):
        self.n += 1
        if self.n <= 12:
            self._rep.holds(self._rule, *a, **k)
        else:
            self._rep.count(k.get('n', 1))

    def violated(self, rule, *a, **k):
        self._rep.violated(self._rule, *a, **k)

    def unresolved(self, rule, *a, **k):
        self._rep.unresolved(self._rule, *a, **k)

    def used(self, *a, **k):
        pass

    def count(self, n=1):
        self._rep.count(n)

    def note(self, s):
        self._rep.note(s)

    def minimum(self, *a):
        pass


def r12_1(rep, prog, tier):
    from . import c14
    px = _Proxy(rep, 'R12.1')
    pt, hits, nstores, per_fn = c14.analyse(prog, px, prog.config)
    rep.count(nstores)
    nbad = 0
    for (file, name), (f, n, bad) in sorted(per_fn.items()):
        for ln, how, objs, text in bad:
            nbad += 1
            rep.violated('R12.1', '%s:%s writes static storage %s' % (prog.config, name, ','.join(objs)), '%s:%s' % (file, ln),
                         'output can now depend on earlier calls or other objects: %s' % text, key='%s:%s' % (name, ','.join(objs)))
    nfun = sum(1 for v in per_fn.values() if v[1])
    if not nbad:
        rep.holds('R12.1', '%s:no store in %d functions (%d stores) may denote static storage' % (prog.config, nfun, nstores), None, 'whole-program may-point-to (shared with C14)', n=nstores)
    nmut = [g for g, defs in prog.global_defs.items() if not defs[0][1]['const'] and g in hits]
    rep.holds('R12.1', '%s:%d static objects, none written' % (prog.config, len(prog.global_defs)), None, None) if not nmut else None
    deny = [(f.name, sx.callee_name(c)) for f in prog.functions_all for c in f.calls() if sx.callee_name(c) in c14.DENY]
    if deny:
        rep.violated('R12.1', '%s:no libc routine with hidden state' % prog.config, None, str(deny[:3]), key='deny:%s' % deny[0][1])
    else:
        rep.holds('R12.1', '%s:no libc routine with hidden state is called' % prog.config, None, None)
    if nfun < 300:
        rep.unresolved('R12.1', 'only %d functions with stores analysed' % nfun)


# ------------------------------------------------------------------ R12.2
INITS = [('opus_encoder_init', 'opus_encoder_get_size'), ('opus_decoder_init', 'opus_decoder_get_size'),
         ('opus_custom_encoder_init_arch', 'opus_custom_encoder_get_size'), ('opus_custom_decoder_init', 'opus_custom_decoder_get_size'),
         ('silk_init_encoder', None), ('silk_init_decoder', None)]


def r12_2(rep, prog):
    for iname, sizefn in INITS:
        if not prog.has_fn(iname):
            rep.unresolved('R12.2', 'init function %s not found' % iname)
            continue
        f = prog.fn(iname)
        rep.functions.add(iname)
        cf = cfgm.CFG(f)
        rec = f.params[0]['type'].replace('*', '').replace('OPUS_RESTRICT', '').replace('restrict', '').strip()
        whole = [(b, i, c, dst, ln) for b, i, c, dst, ln in zero_clears(f, cf) if sx.key(dst) == ('param', 0)]
        inst = '%s:%s clears the whole object before any other access' % (prog.config, iname)
        if len(whole) != 1:
            rep.violated('R12.2', inst, f.where(), '%d whole-object clears through the state pointer' % len(whole), key=iname + ':clear')
            continue
        b, i, c, dst, ln = whole[0]
        l = sx.strip(ln)
        if sx.kind(l) == 'bin' and l[1] == '*' and sx.int_val(l[3]) == 1:
            l = sx.strip(l[2])
        oklen = False
        detail = sx.show(l)
        if sx.kind(l) == 'call' and sizefn and sx.callee_name(l) == sizefn:
            # arguments are init's own parameters, in the order the size query names them
            g = prog.fn(sizefn)
            oklen = all(sx.kind(sx.strip(a)) == 'param' and f.params[sx.strip(a)[1]]['name'] == g.params[j]['name'] for j, a in enumerate(l[2])) and len(l[2]) == len(g.params)
        elif sx.int_val(l) is not None and rec in prog.records:
            oklen = sx.int_val(l) == prog.record(rec)['size']
            detail = '%d = sizeof(%s)' % (sx.int_val(l), rec)
        # nothing touches the object before the clear
        early = []
        for b2, i2, s_ in cf.positions():
            if (b2, i2) == (b, i) or cf.pos_dominates((b, i), (b2, i2)):
                continue
            for n in sx.walk(s_):
                if n[0] in ('assign', 'cassign', 'inc'):
                    r, path = sx.lvalue_root(lv_of(n))
                    if sx.kind(r) == 'param' and r[1] == 0 and path:
                        early.append(sx.show(n)[:40])
                if n[0] == 'call' and any(sx.key(sx.strip(a)) == ('param', 0) for a in n[2]) and sx.callee_name(n) not in MEMSET:
                    early.append(sx.show(n)[:40])
        ok = oklen and not early
        (rep.holds if ok else rep.violated)('R12.2', inst, '%s:%s' % (f.file, sx.line(c)), 'length `%s` ok=%s; accesses not dominated by the clear: %s' % (detail, oklen, early[:3]),
                                            **({} if ok else {'key': iname + ':clear'}))
    # multistream headers: every scalar field assigned by init
    for rec, inits in (('OpusMSEncoder', ('opus_multistream_encoder_init_impl',)), ('OpusMSDecoder', ('opus_multistream_decoder_init',))):
        if rec not in prog.records:
            continue
        assigned = set()
        for iname in inits:
            if prog.has_fn(iname):
                for n, lv in field_stores(prog.fn(iname).all_nodes()):
                    if lv[2] in (rec, 'ChannelLayout'):
                        assigned.add(lv[3])
        need = [fl['name'] for fl in prog.record(rec)['fields'] if not fl.get('record') and not fl['dims']]
        lay = [fl['name'] for fl in prog.record('ChannelLayout')['fields'] if not fl['dims']] if 'ChannelLayout' in prog.records else []
        missing = [x for x in need + lay if x not in assigned]
        # fields deliberately assigned later on first use are listed with the reason
        missing = [x for x in missing if x not in ('bitrate_bps',)] if False else missing
        inst = '%s:%s init assigns every scalar header field' % (prog.config, rec)
        (rep.holds if not missing else rep.violated)('R12.2', inst, prog.record(rec)['loc'], 'missing: %s' % missing if missing else '%d fields' % len(need + lay),
                                                     **({} if not missing else {'key': rec + ':fields'}))


# ------------------------------------------------------------------ R12.3
def state_records(prog):
    tops = ['OpusEncoder', 'OpusDecoder', 'OpusCustomEncoder', 'OpusCustomDecoder', 'silk_encoder', 'silk_decoder', 'OpusMSEncoder', 'OpusMSDecoder',
            'OpusProjectionEncoder', 'OpusProjectionDecoder', 'OpusRepacketizer']
    seen = set()
    work = [t for t in tops if t in prog.records]
    while work:
        n = work.pop()
        if n in seen:
            continue
        seen.add(n)
        for f in prog.records[n]['fields']:
            r = f.get('record')
            if r and r in prog.records and not f.get('ptr'):
                work.append(r)
    return seen


BORROWED = {
    ('OpusCustomEncoder', 'energy_mask'): 'caller-owned array borrowed per call (OPUS_SET_ENERGY_MASK, internal request)',
    ('OpusEncoder', 'energy_masking'): 'caller-owned array borrowed per call (OPUS_SET_ENERGY_MASK, internal request)',
    ('OpusRepacketizer', 'frames'): 'pointers into the caller\'s packets by documented contract (packets must stay valid until out)',
    ('OpusRepacketizer', 'paddings'): 'pointers into the caller\'s packets by documented contract',
}


def r12_3(rep, prog):
    recs = state_records(prog)
    ptr_fields = [(r, f['name'], f['type']) for r in sorted(recs) for f in prog.records[r]['fields'] if f.get('ptr') or '*' in f['type']]
    if len(ptr_fields) < 8:
        raise AnalysisBroken('only %d pointer fields found in the codec state records' % len(ptr_fields))
    stores = {}
    for f in prog.functions_all:
        for n in f.all_nodes():
            if n[0] == 'assign':
                lvs, rhs = chain_assigns(n)
                for lv in lvs:
                    if sx.kind(lv) == 'idx':
                        lv = sx.strip(lv[1])
                    if sx.kind(lv) == 'field' and (lv[2], lv[3]) in {(a, b) for a, b, c in ptr_fields}:
                        stores.setdefault((lv[2], lv[3]), []).append((f, n, lv, rhs))
    for rec, fld, ty in ptr_fields:
        inst = '%s:%s.%s never holds an address inside the state' % (prog.config, rec, fld)
        sts = stores.get((rec, fld), [])
        bad = []
        kinds = set()
        for f, n, lv, rhs in sts:
            root, _ = sx.lvalue_root(lv)
            r = sx.strip(rhs)
            if sx.int_val(r) == 0:
                kinds.add('NULL')
                continue
            # const static object / its element
            rr, path = sx.lvalue_root(r)
            if sx.kind(rr) == 'global':
                g = prog.globals.get(rr[1])
                kinds.add('static const data' if g and g.get('const') else 'static data')
                continue
            derived = False
            # the state pointer itself, a field address of it, or arithmetic on it
            for x in sx.walk(r):
                if sx.key(x) == sx.key(root) and sx.kind(root) in ('param', 'local'):
                    derived = True
            if sx.kind(rr) == 'local' and not derived:
                # a local computed from the state pointer
                for m in f.all_nodes():
                    if m[0] == 'assign' and sx.key(m[1]) == sx.key(rr):
                        if any(sx.key(x) == sx.key(root) for x in sx.walk(m[2])) and any(sx.kind(y) == 'bin' and sx.A(y).get('ptr') for y in sx.walk(m[2])):
                            derived = True
            if derived and not (sx.kind(r) == 'field'):
                bad.append((f, n))
            elif sx.kind(r) == 'field' or (sx.kind(rr) in ('param', 'local')):
                kinds.add('copied pointer value')
            else:
                kinds.add('other')
        where = None
        if bad:
            f, n = bad[0]
            rep.violated('R12.3', inst, '%s:%s' % (f.file, sx.line(n)), '%s stores `%s`: a pointer into the object itself - a memcpy clone would keep pointing into the original' % (f.name, sx.show(n)[:70]),
                         key='%s.%s:selfptr' % (rec, fld))
        else:
            extra = BORROWED.get((rec, fld))
            rep.holds('R12.3', inst, prog.records[rec]['loc'], '%d assignments: %s%s' % (len(sts), sorted(kinds), ('; ' + extra) if extra else ''))


# ------------------------------------------------------------------ R12.4 linear forms
class Lin(dict):
    pass


def lin_add(a, b, k=1):
    out = Lin(a)
    for s, c in b.items():
        out[s] = out.get(s, 0) + k * c
        if out[s] == 0:
            del out[s]
    return out


def lin_of(e, env, f):
    e = sx.strip(e)
    k = sx.kind(e)
    v = sx.int_val(e)
    if v is not None:
        return Lin({1: v}) if v else Lin()
    if k == 'local':
        return env.get(('local', e[2]), Lin({('local', e[1]): 1}))
    if k == 'param':
        return Lin({('param', e[2]): 1})
    if k == 'field':
        kk = ('field', e[3])
        return env.get(kk, Lin({kk: 1}))
    if k == 'bin' and e[1] in ('+', '-'):
        return lin_add(lin_of(e[2], env, f), lin_of(e[3], env, f), 1 if e[1] == '+' else -1)
    if k == 'bin' and e[1] == '*':
        a, b = lin_of(e[2], env, f), lin_of(e[3], env, f)
        for x, y in ((a, b), (b, a)):
            if set(x.keys()) <= {1}:
                c = x.get(1, 0)
                return Lin({s: c * v_ for s, v_ in y.items() if c * v_})
    if k == 'call':
        args = tuple(tuple(sorted((str(s), c) for s, c in lin_of(a, env, f).items())) for a in e[2])
        return Lin({('call', sx.callee_name(e), args): 1})
    return Lin({('opaque', sx.show(e)[:60]): 1})


def straight_env(f):
    """symbolic values of locals / fields after the straight-line assignments of f (last assignment wins)"""
    env = {}
    cf = cfgm.CFG(f)
    order = cf._rpo(cf.entry, cf.succ)
    for b in order:
        for s in cf.blocks[b]['stmts']:
            for n in sx.walk(s):
                if n[0] == 'call':
                    for j, a in enumerate(n[2]):
                        a0 = sx.strip(a)
                        if sx.kind(a0) == 'addr' and sx.kind(sx.strip(a0[1])) == 'local':
                            env[('local', sx.strip(a0[1])[2])] = Lin({('out', sx.callee_name(n), j): 1})
            if sx.kind(s) == 'assign':
                lvs, rhs = chain_assigns(s)
                val = lin_of(rhs, env, f)
                for lv in lvs:
                    if sx.kind(lv) == 'local':
                        env[('local', lv[2])] = val
                    elif sx.kind(lv) == 'field':
                        env[('field', lv[3])] = val
            if sx.kind(s) == 'decls':
                for d in s[1]:
                    if d[0] == 'decl' and d[3] is not None:
                        env[('local', d[2])] = lin_of(d[3], env, f)
    return env, cf


def r12_4(rep, prog):
    for rec, sizefn, initfn, last_off, last_size in (('OpusDecoder', 'opus_decoder_get_size', 'opus_decoder_init', 'celt_dec_offset', 'celt_decoder_get_size'),
                                                      ('OpusEncoder', 'opus_encoder_get_size', 'opus_encoder_init', 'celt_enc_offset', 'celt_encoder_get_size')):
        g, f = prog.fn(sizefn), prog.fn(initfn)
        rep.functions.update({sizefn, initfn})
        genv, gcf = straight_env(g)
        rets = [s for b, i, s in T.returns_of(gcf) if s[1] is not None and sx.int_val(s[1]) is None]
        fenv, fcf = straight_env(f)
        inst = '%s:%s() = end of the last region init carves out of the object' % (prog.config, sizefn)
        if len(rets) != 1 or ('field', last_off) not in fenv:
            rep.unresolved('R12.4', '%s / %s: size expression or %s assignment not found' % (sizefn, initfn, last_off))
            continue
        total = lin_of(rets[0][1], genv, g)
        # init: last offset + size of the last sub-object with init's channel argument
        chan = [p for p in f.params if p['name'] == 'channels']
        end = lin_add(fenv[('field', last_off)], Lin({('call', last_size, ((("('param', 'channels')", 1),),)): 1}))
        if total == end:
            rep.holds('R12.4', inst, g.where(), 'both %s' % _show_lin(total))
        else:
            rep.violated('R12.4', inst, f.where(), 'size query: %s; init carve-up ends at: %s' % (_show_lin(total), _show_lin(end)), key=rec + ':carve')


def _show_lin(l):
    parts = []
    for s, c in sorted(l.items(), key=lambda t: str(t[0])):
        name = 'const' if s == 1 else (s[1] if s[0] in ('param', 'local', 'field') else ('%s(...)' % s[1] if s[0] in ('call', 'out') else str(s[1])))
        parts.append('%s*%s' % (c, name) if s != 1 else str(c))
    return ' + '.join(parts)[:200]


# ------------------------------------------------------------------ R12.5 / R12.6 / R12.7
def handler(prog, fname, request):
    """(function, cfg, set of blocks, positions iterator) of a reset handler"""
    if request is None:
        f = prog.fn(fname)
        cf = cfgm.CFG(f)
        return f, cf, set(cf.blocks)
    f, cf, arm = arm_blocks(prog, fname, request)
    return f, cf, set(arm.blocks)


def immutable_after_init(prog, rec, fld, inits):
    for f in prog.functions_all:
        if f.name in inits:
            continue
        for n, lv in field_stores(f.all_nodes()):
            if lv[2] == rec and lv[3] == fld:
                return False, f.name
    return True, None


def r12_567(rep, prog, settings):
    try:
        exc = json.load(open(EXC))['exceptions']
    except (OSError, ValueError, KeyError):
        raise AnalysisBroken('spec/c12_reset_exceptions.json missing')
    excmap = {(e['record'], e['field']): e for e in exc}
    for rec, inits, hname, req, sizefn in OBJECTS:
        if rec not in prog.records or not prog.has_fn(hname) or not all(prog.has_fn(i) for i in inits):
            if prog.config == 'float':
                rep.unresolved('R12.5', 'object %s / %s / %s not found' % (rec, inits, hname))
            continue
        hf, hcf, hblocks = handler(prog, hname, req)
        rep.functions.add(hname)
        rr = reset_region(prog, hf, hcf, hblocks)
        inst = '%s:%s reset clears from its marker to the end of the object' % (prog.config, rec)
        if rr is None:
            rep.violated('R12.5', inst, hf.where(), 'no partial clear `memset(&st->M, 0, TOTAL - offset(M))` in the reset handler', key=rec + ':region')
            continue
        m, mrec, total, call, cpos = rr
        mf = record_field(prog, mrec, m[3])
        where = '%s:%s' % (hf.file, sx.line(call))
        initf = prog.fn(inits[0])
        oktotal = False
        detail = sx.show(total)
        if sx.int_val(total) is not None:
            oktotal = sx.int_val(total) == prog.record(mrec)['size']
            detail = '%d = sizeof(%s)' % (sx.int_val(total), mrec)
        elif sx.kind(total) == 'call' and sx.callee_name(total) == sizefn:
            # each argument is a field that init set from the matching parameter and that nothing else writes
            g = prog.fn(sizefn)
            oks = []
            for j, a in enumerate(total[2]):
                a0 = sx.strip(a)
                if sx.kind(a0) != 'field' or j >= len(g.params):
                    oks.append('argument %d `%s` is not a state field' % (j, sx.show(a0)))
                    continue
                pname = g.params[j]['name']
                set_from_param = False
                for n in initf.all_nodes():
                    if n[0] == 'assign':
                        lvs, rhs = chain_assigns(n)
                        if any(sx.kind(lv) == 'field' and lv[3] == a0[3] for lv in lvs) and sx.kind(sx.strip(rhs)) == 'param' and sx.strip(rhs)[2] == pname:
                            set_from_param = True
                imm, who = immutable_after_init(prog, a0[2], a0[3], set(inits) | {'celt_encoder_init', 'celt_decoder_init'})
                if not set_from_param:
                    oks.append('st->%s is not set from init\'s `%s`' % (a0[3], pname))
                elif not imm:
                    oks.append('st->%s is also written by %s: the size used by reset can differ from the one the object was created with' % (a0[3], who))
            oktotal = not oks
            detail = sx.show(total) + (' -- ' + '; '.join(oks) if oks else ' (arguments are init-only fields set from the matching parameters)')
        (rep.holds if oktotal else rep.violated)('R12.5', inst, where, 'marker %s (offset %s), total %s' % (m[3], mf['off'] if mf else '?', detail), **({} if oktotal else {'key': rec + ':total'}))
        if mf is None:
            continue
        moff = mf['off']
        # ---- R12.6: init's non-zero post-marker fields vs the handler's re-assignments
        def stores_in(f_, blocks=None, cf_=None, after=None):
            out = {}
            cfx = cf_ or cfgm.CFG(f_)
            for b, i, s in cfx.positions():
                if blocks is not None and b not in blocks:
                    continue
                if after is not None and not (cfx.pos_dominates(after, (b, i)) and (b, i) != after):
                    continue
                for n in sx.walk(s):
                    if n[0] == 'assign':
                        lvs, rhs = chain_assigns(n)
                        for lv in lvs:
                            if sx.kind(lv) == 'field' and lv[2] == mrec:
                                out[lv[3]] = rhs
            return out
        init_st = stores_in(initf)
        reset_st = stores_in(hf, hblocks, hcf, cpos)
        delegates = any(sx.callee_name(c) == hname for c in initf.calls()) or \
            any(sx.callee_name(c) in ('opus_custom_encoder_ctl', 'opus_custom_decoder_ctl') and any(sx.int_val(a) == 4028 for a in c[2]) for c in initf.calls() if req)
        post = {fl['name']: fl for fl in prog.record(mrec)['fields'] if fl['off'] >= moff}
        inst = '%s:%s init and reset agree on the re-derived fields of the cleared region' % (prog.config, rec)
        if delegates:
            rep.holds('R12.6', inst, initf.where(), 'init delegates to the reset handler')
        else:
            def norm(e):
                """init's parameter P and st->P denote the same value after init"""
                e = sx.strip(e)
                out = []
                for x in sx.walk(e):
                    pass
                def rw(x):
                    if not isinstance(x, list) or not x:
                        return x
                    if sx.kind(x) == 'param':
                        return ('V', x[2])
                    if sx.kind(x) == 'field' and sx.kind(sx.strip(x[1])) == 'param':
                        return ('V', x[3])
                    if sx.kind(x) in ('cast', 'paren'):
                        return rw(x[4] if x[0] == 'cast' else x[1])
                    if sx.kind(x) == 'int':
                        return ('int', x[1])
                    return tuple(rw(y) if isinstance(y, list) else y for y in x if not isinstance(y, dict))
                return rw(e)
            missing, diff = [], []
            for fld, rhs in init_st.items():
                if fld not in post or sx.int_val(rhs) == 0:
                    continue
                if fld not in reset_st:
                    missing.append(fld)
                elif norm(rhs) != norm(reset_st[fld]):
                    diff.append((fld, sx.show(rhs)[:30], sx.show(reset_st[fld])[:30]))
            ok = not missing and not diff
            (rep.holds if ok else rep.violated)('R12.6', inst, where, 'init sets %d post-marker fields non-zero; not re-assigned by reset: %s; different value: %s' %
                                                (len([1 for fl, r_ in init_st.items() if fl in post and sx.int_val(r_) != 0]), missing, diff), **({} if ok else {'key': rec + ':agree:' + ','.join(missing + [d[0] for d in diff])}))
        # ---- R12.7 (i): settings inside the cleared region
        for (srec, sfld), disp in sorted(settings.items()):
            if srec != mrec or sfld not in post:
                continue
            inst = '%s:setting %s.%s survives OPUS_RESET_STATE' % (prog.config, srec, sfld)
            if sfld in reset_st or (srec, sfld) in excmap:
                rep.holds('R12.7', inst, where, 're-assigned by the handler' if sfld in reset_st else excmap[(srec, sfld)]['reason'])
            else:
                rep.violated('R12.7', inst, prog.record(mrec)['loc'], 'the field is stored by a SET request but lies at offset %d, inside the region the reset handler clears (marker %s at %d): reset silently loses the setting' %
                             (post[sfld]['off'], m[3], moff), key='%s.%s:setting-in-region' % (srec, sfld))
    # ---- R12.7 (ii): out-of-region fields whose value survives a call
    r12_7_residue(rep, prog, settings, excmap)


def transitive_field_writes(prog):
    direct = {}
    for fn in prog.functions_all:
        s = set()
        for n, lv in field_stores(fn.all_nodes()):
            s.add((lv[2], lv[3]))
        direct[fn.name] = s
    calls = {fn.name: {sx.callee_name(c) for c in fn.calls() if sx.callee_name(c)} for fn in prog.functions_all}
    trans = {k: set(v) for k, v in direct.items()}
    ch = True
    while ch:
        ch = False
        for k in trans:
            for c in calls.get(k, ()):
                if c in trans and c != k and not trans[c] <= trans[k]:
                    trans[k] |= trans[c]
                    ch = True
    return direct, trans


MODES = (1000, 1001, 1002)


def entry_stale_reads(fn, R, F, trans, extra_val=None):
    """reads of field (R,F) in fn that can see the value the field had when fn
    was entered.  Path-sensitive in the coding mode: the analysis is repeated
    on the sub-graph feasible for each value of st->mode (when the function
    does not assign it), and optionally under an extra valuation."""
    cf = cfgm.CFG(fn)
    kmode = ('field', ('param', 0), 'mode')
    assigns_mode = any(lv[3] == 'mode' and sx.key(lv) == kmode for n, lv in field_stores(fn.all_nodes()))
    parts = [dict()] if assigns_mode or not any(sx.key(n) == kmode for n in fn.all_nodes() if sx.kind(n) == 'field') else [{kmode: m} for m in MODES]
    out = {}
    for val in parts:
        v = dict(val)
        if extra_val:
            v.update(extra_val)
        fb = decide.feasible_edges(cf, v, entry=True) if v else None
        for st_ in _entry_stale(cf, fn, R, F, trans, fb):
            out[id(st_[2])] = st_
    return list(out.values())


def _entry_stale(cf, fn, R, F, trans, fb):
    defpos = []
    store_ids = set()
    for b, i, m in cf.positions():
        for n in sx.walk(m):
            if n[0] == 'assign':
                lvs, rhs = chain_assigns(n)
                for lv in lvs:
                    if sx.kind(lv) == 'field' and lv[2] == R and lv[3] == F:
                        defpos.append((b, i))
                        store_ids.add(id(lv))
            if n[0] == 'call' and sx.callee_name(n) in trans and (R, F) in trans[sx.callee_name(n)] and sx.callee_name(n) != fn.name:
                defpos.append((b, i))
    fe = None
    if fb is not None:
        fb, fe = fb
    order = [b for b in cf._rpo(cf.entry, cf.succ) if fb is None or b in fb]
    IN, OUT = {}, {}
    changed = True
    while changed:
        changed = False
        for b in order:
            inn = True if b == cf.entry else any(OUT.get(p_, False) for p_ in cf.pred[b] if fe is None or (p_, b) in fe)
            out = inn and not any(db == b for db, di in defpos)
            if IN.get(b) != inn or OUT.get(b) != out:
                IN[b], OUT[b] = inn, out
                changed = True
    stale = []
    for b, i, m in cf.find(lambda m: sx.kind(m) == 'field' and m[2] == R and m[3] == F):
        if id(m) in store_ids or (fb is not None and b not in fb):
            continue
        if IN.get(b) and not any(db == b and di < i for db, di in defpos):
            stale.append((b, i, m))
    return stale


def hf_record(prog, hf):
    """the record the reset handler's first parameter points to"""
    t = hf.params[0]['type'].replace('const', '').replace('*', '').strip()
    return t


def check_exception(prog, e, R, F, trans, hf, hcf, hblocks, stale_in):
    """re-check the machine-checkable part of a listed reason"""
    c = e.get('check', {'kind': 'none'})
    if c['kind'] == 'guard':
        # the reset handler (re-)initialises the guard field to `value`; with that value no stale read is feasible
        gk = ('field', ('param', 0), c['field'])
        reinit = False
        for b in hblocks:
            for s_ in hcf.f.block_exprs(hcf.blocks[b]):
                for n, lv in field_stores(sx.walk(s_)):
                    if lv[3] == c['field'] and n[0] == 'assign' and sx.int_val(chain_assigns(n)[1]) == c['value']:
                        reinit = True
        rr = reset_region(prog, hf, hcf, hblocks)
        if rr is not None and c['value'] == 0:
            gf = record_field(prog, rr[1], c['field'])
            mf = record_field(prog, rr[1], rr[0][3])
            if gf and mf and gf['off'] >= mf['off']:
                reinit = True
        if not reinit:
            return False, 'the reset handler does not set %s to %s' % (c['field'], c['value'])
        left = []
        for fname in stale_in:
            fn = prog.fn(fname)
            if entry_stale_reads(fn, R, F, trans, {gk: c['value']}):
                left.append(fname)
        if left and not c.get('value_independent'):
            return False, 'with %s == %s the old value is still read in %s' % (c['field'], c['value'], left)
        # ... and the guard must not be lifted before the stale field has been rewritten: wherever the codec stores a
        # read-enabling value into the guard field, a write of the stale field lies on every feasible path to that store
        enabling = c.get('enabling')
        if enabling is not None:
            for g in prog.functions_all:
                if not g.file.startswith('src/'):
                    continue
                gst = [n for n in g.all_nodes() if n[0] == 'assign' and sx.kind(sx.strip_paren(n[1])) == 'field' and sx.strip_paren(n[1])[3] == c['field'] and sx.strip_paren(n[1])[2] == hf_record(prog, hf)]
                if not gst or g.name == hf.name or g.name.endswith('_init'):
                    continue
                gcf = cfgm.CFG(g)
                writers = set()
                for b, i, s_ in gcf.positions():
                    for x in sx.walk(s_):
                        if x[0] in ('assign', 'cassign') and sx.kind(sx.strip_paren(x[1] if x[0] == 'assign' else x[2])) == 'field':
                            lv = sx.strip_paren(x[1] if x[0] == 'assign' else x[2])
                            if lv[2] == R and lv[3] == F:
                                writers.add(b)
                        if x[0] == 'call' and (R, F) in trans.get(sx.callee_name(x) or '', ()):
                            writers.add(b)
                # the field may also be rewritten by every caller before it calls g (a per-call mirror computed by the caller)
                callers_write = False
                sites_total = 0
                for h in prog.functions_all:
                    if h is g or not h.file.startswith('src/'):
                        continue
                    hc = None
                    for cs in h.calls():
                        if sx.callee_name(cs) == g.name and prog.resolve_in(h, g.name) is g:
                            if hc is None:
                                hc = cfgm.CFG(h)
                            sites = T.calls_to(hc, g.name)
                            hst = [(b2, i2) for b2, i2, n2 in hc.find(lambda n2: n2[0] in ('assign', 'cassign') and sx.kind(sx.strip_paren(n2[1] if n2[0] == 'assign' else n2[2])) == 'field'
                                                              and sx.strip_paren(n2[1] if n2[0] == 'assign' else n2[2])[2] == R and sx.strip_paren(n2[1] if n2[0] == 'assign' else n2[2])[3] == F)]
                            sites_total += len(sites)
                            sb_ = {b2 for b2, i2 in hst}
                            callers_write = bool(sites) and bool(sb_) and all(any(hc.pos_dominates(sp, (b3, i3)) for sp in hst) or hc.must_pass_live(hc.entry, {b3}, sb_) for b3, i3, n3 in sites)
                            break
                if callers_write and sites_total:
                    continue
                for b, i, s_ in gcf.positions():
                    for n in sx.walk(s_):
                        if n not in gst:
                            continue
                        rhs = sx.strip(chain_assigns(n)[1])
                        cv = sx.int_val(rhs)
                        if cv is not None and cv not in enabling:
                            continue
                        vals = [{}]
                        if sx.kind(rhs) == 'field':
                            vals = [{sx.key(rhs): v} for v in enabling]
                        for val in vals:
                            blocks, edges = decide.feasible_edges(gcf, val)
                            seen, work = {gcf.entry}, [gcf.entry]
                            reach = False
                            while work:
                                x = work.pop()
                                if x == b:
                                    reach = True
                                    break
                                if x in writers:
                                    continue
                                for y in gcf.succ[x]:
                                    if (x, y) in edges and y not in seen:
                                        seen.add(y)
                                        work.append(y)
                            if reach and b not in writers:
                                return False, '%s stores a read-enabling value into %s at line %s on a path that has not rewritten %s (%s): the guard is lifted while the value from before the reset is still there' % (
                                    g.name, c['field'], sx.line(n), F, 'e.g. a frame that does not run the layer which writes it')
        return True, 'checked: reset sets %s = %s and then no read of the old value is feasible%s%s' % (c['field'], c['value'], ' (or its result is masked)' if left else '',
                                                                                                   '; the guard is lifted only after the field was rewritten' if enabling is not None else '')
    if c['kind'] == 'caller_writes':
        caller, callee = prog.fn(c['caller']), c['callee']
        cf = cfgm.CFG(caller)
        sites = T.calls_to(cf, callee)
        stores = [(b, i) for b, i, n in cf.find(lambda n: n[0] == 'assign' and sx.kind(sx.strip_paren(n[1])) == 'field' and sx.strip_paren(n[1])[2] == R and sx.strip_paren(n[1])[3] == F)]
        ok = bool(sites) and all(any(cf.pos_dominates(sp, (b, i)) for sp in stores) for b, i, n in sites) and set(stale_in) <= {callee}
        return ok, ('checked: %s stores it before each of its %d calls of %s' % (c['caller'], len(sites), callee)) if ok else 'a call of %s is not dominated by a store in %s, or it is also read stale in %s' % (callee, c['caller'], stale_in)
    return True, 'reason by reading'



def codec_writes_only_restore(prog, writers, R, F):
    """a field that a SET request stores and that the codec ALSO assigns is only a surviving
    *setting* when every codec assignment is part of a save / modify / restore of the user's value
    inside one call:  tmp = fld; ... fld = x; ... fld = tmp;  with the save and the restore under the
    same innermost guard and every other store dominated by the save.  Otherwise the codec leaves its
    own values in the field and it is state.  Returns (ok, why)."""
    for fn in sorted(writers):
        f = prog.functions.get(fn)
        if f is None:
            return False, '%s not found' % fn
        cf = cfgm.CFG(f)
        stores = []
        for b, i, s_ in cf.positions():
            for n, lv in field_stores(sx.walk(s_)):
                if lv[2] == R and lv[3] == F:
                    stores.append((b, i, n))
        if not stores:
            continue    # writes through a callee, judged there
        saves = []      # (b, i, local id)
        for b, i, s_ in cf.positions():
            for n in sx.walk(s_):
                if n[0] == 'assign' and sx.kind(sx.strip(n[1])) == 'local':
                    r = sx.strip(n[2])
                    if sx.kind(r) == 'field' and r[2] == R and r[3] == F:
                        saves.append((b, i, sx.strip(n[1])[2]))
        restores = [(b, i, n) for b, i, n in stores if n[0] == 'assign' and sx.kind(sx.strip(n[2])) == 'local' and any(sx.strip(n[2])[2] == sv[2] for sv in saves)]
        if not saves or not restores:
            n0 = stores[0][2]
            return False, '%s assigns it (`%s`, line %s) without saving and restoring the user value' % (fn, sx.show(n0)[:60], sx.line(n0))

        def gset(b):
            # guards over variables the function never assigns and that read no memory: loop-exit tests,
            # assertion conditions and `(ret = f()) != 0` early-outs are not guards of the save/restore pair
            out = set()
            for c, pol, gb in cfgm.guards_of(cf, b):
                if c is None:
                    continue
                vs = [v for v in sx.walk(c)]
                if any(sx.kind(v) in ('field', 'idx', 'deref', 'call', 'assign', 'cassign', 'inc') for v in vs):
                    continue
                if any(sx.kind(v) in ('local', 'param') and sx.key(v) in assigned for v in vs):
                    continue
                out.add((sx.key(sx.strip(c)), pol))
            return out
        assigned = set()
        for n in f.all_nodes():
            if n[0] in ('assign', 'cassign', 'inc'):
                lv = lv_of(n)
                if sx.kind(lv) in ('local', 'param'):
                    assigned.add(sx.key(lv))
        for b, i, n in stores:
            if (b, i, n) in restores:
                # the restore runs whenever the save ran: its guards are among the save's, over variables nobody assigns
                okr = False
                for sb, si, sl in saves:
                    gr, gs_ = gset(b), gset(sb)
                    if gr <= gs_ and b in cf.reachable_from(sb):
                        okr = True
                if not okr:
                    return False, '%s: the restore at line %s is not guaranteed to run whenever the save ran' % (fn, sx.line(n))
            elif not any(cf.pos_dominates((sb, si), (b, i)) for sb, si, sl in saves):
                return False, '%s: the store at line %s is not preceded by a save of the user value' % (fn, sx.line(n))
    return True, 'every codec assignment is a save / modify / restore within one call'


def r12_7_residue(rep, prog, settings, excmap):
    direct, trans = transitive_field_writes(prog)
    INITF = {'opus_encoder_init', 'opus_decoder_init', 'opus_custom_encoder_init_arch', 'opus_custom_decoder_init', 'celt_encoder_init', 'celt_decoder_init',
             'silk_InitEncoder', 'silk_init_encoder', 'silk_InitDecoder', 'silk_init_decoder', 'silk_QueryEncoder', 'silk_reset_decoder', 'silk_ResetDecoder',
             'tonality_analysis_init', 'tonality_analysis_reset'}
    CTLS = {'opus_encoder_ctl', 'opus_decoder_ctl', 'opus_custom_encoder_ctl', 'opus_custom_decoder_ctl'}
    nchecked = 0
    for rec, inits, hname, req, sizefn in OBJECTS[:4]:
        if rec not in prog.records:
            continue
        hf, hcf, hblocks = handler(prog, hname, req)
        rr = reset_region(prog, hf, hcf, hblocks)
        if rr is None:
            continue
        m = rr[0]
        moff = record_field(prog, rec, m[3])['off']
        # what the handler re-establishes: direct stores in the arm + everything its callees write/clear
        reest = set()
        for b in hblocks:
            for s in hcf.f.block_exprs(hcf.blocks[b]):
                for n, lv in field_stores(sx.walk(s)):
                    reest.add((lv[2], lv[3]))
                    if sx.kind(sx.strip(lv[1])) == 'field':
                        reest.add((lv[2], lv[3]))
                for n in sx.walk(s):
                    if n[0] == 'call' and sx.callee_name(n) in trans:
                        # only what the callee can reach through the arguments: the records of the
                        # embedded members whose address is passed (`&st->member`) or the object itself
                        passed = set()
                        for a in n[2]:
                            a0 = sx.strip(a)
                            if sx.kind(a0) == 'addr' and sx.kind(sx.strip(a0[1])) == 'field' and sx.strip(a0[1])[2] == rec:
                                mf_ = record_field(prog, rec, sx.strip(a0[1])[3])
                                if mf_ and mf_.get('record'):
                                    passed.add(mf_['record'])
                            if sx.kind(a0) == 'param' and a0[1] == 0:
                                passed.add(rec)
                        reest |= {(R_, F_) for (R_, F_) in trans[sx.callee_name(n)] if R_ in passed}
                        cal = prog.functions.get(sx.callee_name(n))
                        if cal is not None and passed:
                            r2 = reset_region(prog, cal, cfgm.CFG(cal))
                            if r2 is not None and r2[1] in passed:
                                mo = record_field(prog, r2[1], r2[0][3])
                                for fl in prog.record(r2[1])['fields']:
                                    if mo and fl['off'] >= mo['off']:
                                        reest.add((r2[1], fl['name']))
        pre = [fl for fl in prog.record(rec)['fields'] if fl['off'] < moff]
        for fl in pre:
            targets = [(rec, fl['name'], fl['name'])] if not fl.get('record') else [(fl['record'], g['name'], fl['name'] + '.' + g['name']) for g in prog.record(fl['record'])['fields']]
            for (R, F, shown) in targets:
                writers = {fn for fn, s in direct.items() if (R, F) in s and fn not in INITF and fn not in CTLS}
                if not writers:
                    continue
                # can the value survive into a later call?  entry-stale reads in the Opus layer
                stale_in = []
                for fn in prog.functions_all:
                    if fn.file.startswith(('src/', 'celt/') if rec.startswith('OpusCustom') else 'src/') and any(sx.kind(n) == 'field' and n[2] == R and n[3] == F for n in fn.all_nodes()):
                        if fn.name.startswith('validate_'):
                            continue
                        if entry_stale_reads(fn, R, F, trans):
                            stale_in.append(fn.name)
                if not stale_in:
                    continue
                nchecked += 1
                inst = '%s:%s.%s (written by %s, read across calls in %s) is reset-equivalent' % (prog.config, rec, shown, sorted(writers)[0], sorted(stale_in)[0])
                where = prog.record(R)['loc']
                if (R, F) in reest:
                    rep.holds('R12.7', inst, where, 're-established by the reset handler')
                elif ((R, F) in settings or (rec, shown) in settings) and codec_writes_only_restore(prog, writers, R, F)[0]:
                    rep.holds('R12.7', inst, where, 'user setting (stored by a SET request), and ' + codec_writes_only_restore(prog, writers, R, F)[1] + ': meant to survive')
                elif (rec, shown) in excmap:
                    e_ = excmap[(rec, shown)]
                    ok_, how = check_exception(prog, e_, R, F, trans, hf, hcf, hblocks, stale_in)
                    if ok_:
                        rep.holds('R12.7', inst + ' (listed exception)', where, '%s [%s]' % (e_['reason'], how))
                    else:
                        rep.violated('R12.7', inst + ' (listed exception no longer justified)', where, '%s - but %s' % (e_['reason'], how), key='%s.%s:exception' % (rec, shown))
                else:
                    extra = ''
                    if (R, F) in settings or (rec, shown) in settings:
                        extra = ' (a SET request also stores it, but %s, so what survives is the codec\'s value, not the setting)' % codec_writes_only_restore(prog, writers, R, F)[1]
                    rep.violated('R12.7', inst, where, 'the field lies before the reset marker, the codec writes it (%s) and reads the old value in a later call (%s), but OPUS_RESET_STATE does not re-initialise it: a reset object differs from a new one%s' %
                                 (sorted(writers), sorted(stale_in), extra), key='%s.%s:residue' % (rec, shown))
    if nchecked < 6:
        rep.unresolved('R12.7', 'only %d out-of-region fields with cross-call reads found' % nchecked)


# ------------------------------------------------------------------ R12.8
def _const_factor(e):
    """product of the integer constants of a multiplicative term (1 when there is none)"""
    e = sx.strip(e)
    iv = sx.int_val(e)
    if iv is not None:
        return iv
    if sx.kind(e) == 'cast':
        return _const_factor(e[4])
    if sx.kind(e) == 'bin' and e[1] == '*':
        return _const_factor(e[2]) * _const_factor(e[3])
    if sx.kind(e) == 'bin' and e[1] == '<<' and sx.int_val(e[3]) is not None:
        return _const_factor(e[2]) << sx.int_val(e[3])
    return 1


def _terms(e):
    e = sx.strip(e)
    if sx.kind(e) == 'cast':
        return _terms(e[4])
    if sx.kind(e) == 'bin' and e[1] in ('+', '-'):
        return _terms(e[2]) + _terms(e[3])
    return [e]


def r12_8(rep, prog):
    """every clear / copy of typed storage covers whole elements: the byte length of each memset / memcpy /
    memmove is, term by term, a multiple of the size of the element its destination points to (the pointee
    size is recorded by the extractor where the pointer is converted to void*).  A length that lost its
    sizeof factor clears or copies a fraction of the elements and leaves the rest to whatever the memory held -
    output then depends on stack / heap residue, not on the inputs."""
    n = 0
    bad = []
    skipped = 0
    for f in prog.functions_all:
        for c in f.calls():
            if sx.callee_name(c) not in MEMSET and sx.callee_name(c) not in ('memcpy', 'memmove'):
                continue
            if len(c[2]) < 3:
                continue
            d = c[2][0]
            psz = sx.A(d).get('psz') if sx.kind(d) == 'cast' else None
            if psz is None:
                skipped += 1
                continue
            ln = c[2][2]
            if any(sx.kind(x) == 'bin' and x[1] == '-' and sx.kind(sx.strip_paren(x[2])) == 'cast' and 'char' in str(sx.strip_paren(x[2])[1]) for x in sx.walk(ln)):
                continue    # "rest of the object" clears (object size minus a member offset): R12.2 decides those
            n += 1
            if psz == 1:
                continue
            for t in _terms(ln):
                if sx.kind(t) == 'bin' and t[1] == '*' and 0 in (sx.int_val(t[2]), sx.int_val(t[3])):
                    continue    # the `0 * (dst - src)` type check of OPUS_COPY
                if _const_factor(t) % psz != 0:
                    bad.append((f, c, psz, t))
                    break
    rep.count(n)
    inst = '%s:every memset / memcpy / memmove of typed storage has a length in whole elements' % prog.config
    for f, c, psz, t in bad:
        rep.violated('R12.8', '%s:%s line %s clears / copies whole elements' % (prog.config, f.name, sx.line(c)), '%s:%s' % (f.file, sx.line(c)),
                     '`%s`: the destination points to %d-byte elements but the length term `%s` is not a multiple of %d' % (sx.show(c)[:110], psz, sx.show(t)[:50], psz), key='%s:%s' % (f.name, sx.show(c[2][0])[:40]))
    if not bad:
        rep.holds('R12.8', inst, None, '%d calls (%d without a recorded pointee size skipped)' % (n, skipped), n=n)
    if n < 150:
        rep.unresolved('R12.8', 'only %d typed clears / copies found (several hundred expected)' % n)


# ------------------------------------------------------------------ R12.9
INTERNAL_CELT_REQ = {10002: 'CELT_SET_PREDICTION', 10010: 'CELT_SET_START_BAND', 10012: 'CELT_SET_END_BAND', 10008: 'CELT_SET_CHANNELS'}


def r12_9(rep, prog):
    """the Opus encoder drives its CELT encoder through internal requests whose values live in CELT's configuration
    area, which no reset clears.  For each such request: either every CELT encode call of the frame encoder is preceded,
    in the same call and for every feasible (mode, redundancy, celt_to_silk) valuation, by a fresh issue of the request -
    then the value left from before a reset can never be used - or the OPUS_RESET_STATE handler re-issues it, as a new
    encoder starts from CELT's init value."""
    f = prog.fn('opus_encode_frame_native')
    cf = cfgm.CFG(f)
    rep.functions.add(f.name)
    reqs = {}
    for b, i, c in T.calls_to(cf, ('opus_custom_encoder_ctl', 'celt_encoder_ctl')):
        reqs.setdefault(sx.int_val(c[2][1]), set()).add(b)
    enc = [(b, i, c) for b, i, c in T.calls_to(cf, ('celt_encode_with_ec',))]

    def k(nm):
        i = f.param_index(nm)
        if i is not None:
            return ('param', i)
        ids = [l['id'] for l in f.locals.values() if l['name'] == nm]
        return ('local', ids[0]) if ids else None
    keys = {'redundancy': k('redundancy'), 'celt_to_silk': k('celt_to_silk')}
    if not enc or None in keys.values():
        rep.unresolved('R12.9', '%s: CELT encode calls / redundancy flags of opus_encode_frame_native not found' % prog.config)
        return 0
    hf, hcf, hblocks = handler(prog, 'opus_encoder_ctl', 'OPUS_RESET_STATE')
    reissued = set()
    for b in hblocks:
        for s_ in hcf.f.block_exprs(hcf.blocks[b]):
            for x in sx.walk(s_):
                if sx.kind(x) == 'call' and sx.callee_name(x) in ('opus_custom_encoder_ctl', 'celt_encoder_ctl') and len(x[2]) > 1:
                    reissued.add(sx.int_val(x[2][1]))
    n = 0
    for r, nm in sorted(INTERNAL_CELT_REQ.items()):
        if r not in reqs:
            continue
        n += 1
        gaps = []
        for mode in (1000, 1001, 1002):
            for red in (0, 1):
                for c2s in (0, 1):
                    val = {('field', ('param', 0), 'mode'): mode, keys['redundancy']: red, keys['celt_to_silk']: c2s}
                    blocks, edges = decide.feasible_edges(cf, val, entry=True)
                    for b, i, c in enc:
                        if b not in blocks or b in reqs[r]:
                            continue
                        seen, work, reach = {cf.entry}, [cf.entry], False
                        while work:
                            x = work.pop()
                            if x == b:
                                reach = True
                                break
                            if x in reqs[r]:
                                continue
                            for y in cf.succ[x]:
                                if (x, y) in edges and y not in seen:
                                    seen.add(y)
                                    work.append(y)
                        if reach:
                            gaps.append((mode, red, c2s, sx.line(c)))
        inst = '%s:the value of %s used by every CELT encode call is the same after a reset as on a new encoder' % (prog.config, nm)
        if not gaps:
            rep.holds('R12.9', inst, f.where(), 'issued afresh before every CELT encode call in every feasible valuation')
        elif r in reissued:
            rep.holds('R12.9', inst, hf.where(), 're-issued by the OPUS_RESET_STATE handler (the encode at line %s can run without a fresh issue)' % gaps[0][3])
        else:
            rep.violated('R12.9', inst, '%s:%s' % (f.file, gaps[0][3]), 'with mode %d, redundancy %d, celt_to_silk %d the CELT encode at line %s runs without a fresh %s, and the reset handler does not re-issue it: after OPUS_RESET_STATE it uses '
                         'the value left by the audio before the reset, a new encoder CELT\'s init value' % (gaps[0][0], gaps[0][1], gaps[0][2], gaps[0][3], nm), key='celt-internal-request:%d' % r)
    return n


# ------------------------------------------------------------------ R12.10
def r12_10(rep, prog):
    """the multistream objects are not cleared by their init functions, so every scalar field of the header must be
    assigned on every successful path of every public init entry - otherwise it keeps whatever the memory held and the
    packets depend on it.  For each entry the stores that lie on all of its success paths are collected, including those of
    the shared worker it calls, evaluated under the constant arguments that entry passes (path feasibility)."""
    n = 0
    for rec in ('OpusMSEncoder', 'OpusMSDecoder'):
        if rec not in prog.records:
            continue
        fields = [fl['name'] for fl in prog.record(rec)['fields'] if not fl.get('record') and '[' not in fl['type']]
        entries = [f for f in prog.functions_all if not f.static and f.name.endswith('_init') and f.params and f.params[0]['type'].replace(' ', '').startswith(rec + '*')]
        for e in entries:
            rep.functions.add(e.name)

            def must_written(f, val, depth=0):
                cf = cfgm.CFG(f)
                blocks, edges = decide.feasible_edges(cf, val, entry=True)
                def failing(b, i, r_):
                    if len(r_) > 1 and (sx.int_val(sx.strip(r_[1])) or 0) < 0:
                        return True
                    v = sx.strip(r_[1]) if len(r_) > 1 else None
                    if v is not None and sx.kind(v) == 'local':
                        # `if (ret != OPUS_OK) return ret;`
                        return any(a[0] == '!=' and a[1] == sx.key(v) and a[2] == ('int', 0) for a in T.stable_facts(cf, b, i))
                    return False
                succ_rets = {b for b, i, r_ in T.returns_of(cf) if b in blocks and not failing(b, i, r_)}
                if not succ_rets:
                    return set()
                out = set()
                cand = {}
                for b, i, s_ in cf.positions():
                    if b not in blocks:
                        continue
                    for x in sx.walk(s_):
                        if x[0] == 'assign':
                            for lv in chain_assigns(x)[0]:
                                if sx.kind(lv) == 'field' and lv[2] == rec:
                                    cand.setdefault(lv[3], set()).add(b)
                        if x[0] == 'call' and depth < 2:
                            g = prog.resolve_in(f, sx.callee_name(x) or '')
                            if g is not None and g.params and g.params[0]['type'].replace(' ', '').startswith(rec + '*') and g is not f:
                                v2 = {}
                                for j, a in enumerate(x[2][:len(g.params)]):
                                    cv = decide.ev3(a, val)
                                    if cv is not None:
                                        v2[('param', j)] = cv
                                for fld in must_written(g, v2, depth + 1):
                                    cand.setdefault(fld, set()).add(b)
                for fld, bs in cand.items():
                    # every feasible path from the entry to a success return passes one of the blocks
                    seen, work, skip = {cf.entry}, [cf.entry], False
                    while work:
                        x = work.pop()
                        if x in bs:
                            continue
                        if x in succ_rets:
                            skip = True
                            break
                        for y in cf.succ[x]:
                            if (x, y) in edges and y not in seen:
                                seen.add(y)
                                work.append(y)
                    if not skip:
                        out.add(fld)
                return out
            mw = must_written(e, {})
            for fld in fields:
                n += 1
                inst = '%s:%s assigns %s.%s on every successful path' % (prog.config, e.name, rec, fld)
                if fld in mw:
                    rep.holds('R12.10', inst, e.where(), None)
                else:
                    rep.violated('R12.10', inst, e.where(), 'some successful path leaves %s.%s unassigned (the object is not cleared first): it keeps whatever the memory held, and the encoder\'s output depends on it' % (rec, fld),
                                 key='%s:%s:uninit' % (e.name, fld))
    return n


# ------------------------------------------------------------------ R12.11
def r12_11(rep, prog):
    """custom-modes builds create modes at run time, with as few bands as the rate and frame size give (11 for 8 kHz / 64).
    The band-edge array of such a mode has nbEBands+1 meaningful entries and comes from malloc.  A subscript into it that
    is bounded by a LITERAL instead of by the mode's band count therefore reads heap residue for small modes, and the
    packet then depends on process memory.  Decided by interval analysis with the mode's band counts set to those of the
    smallest mode known to be creatable (11 bands): a subscript whose bound is finite and above that does not shrink with
    the mode.  Literals at or below 11 are accepted, which says nothing about modes smaller still."""
    if 'CUSTOM_MODES' not in prog.macros:
        return 0
    SAMPLE = 11      # band count of opus_custom_mode_create(8000, 64), the smallest mode the replay driver creates (a fact from the replay, not derived)
    n = 0
    for f in prog.functions_all:
        if not f.file.startswith('celt/') or f.file.startswith('celt/x86') or f.file in ('celt/modes.c',):
            continue
        loads = [x for x in f.all_nodes() if sx.kind(x) == 'idx' and sx.kind(sx.strip(x[1])) == 'field' and sx.strip(x[1])[3] == 'eBands']
        if not loads:
            continue
        an = absint.Analyzer(prog, f, field_summary={('OpusCustomMode', 'nbEBands'): absint.const(SAMPLE), ('OpusCustomMode', 'effEBands'): absint.const(SAMPLE)})
        seen = set()
        for b, i, x in an.cf.find(lambda x: sx.kind(x) == 'idx' and sx.kind(sx.strip(x[1])) == 'field' and sx.strip(x[1])[3] == 'eBands'):
            st = an.state_before_node(b, i, x)
            if st is None:
                continue
            v = an.ev(x[2], st)
            if absint.is_top(v) or absint.hi(v) > 4096:
                continue                     # bounded by run-time quantities (start/end/band counts): R01.6's business
            txt = '%s:%s' % (sx.show(x), sx.line(x))
            if txt in seen:
                continue
            seen.add(txt)
            n += 1
            rep.functions.add(f.name)
            inst = '%s:%s subscript `%s` shrinks with the mode' % (prog.config, f.name, sx.show(x)[:36])
            where = '%s:%s' % (f.file, sx.line(x))
            if absint.hi(v) <= SAMPLE:
                rep.holds('R12.11', inst, where, 'index in %s with the band counts of the mode set to %d' % (absint.show(v), SAMPLE))
            else:
                rep.violated('R12.11', inst, where, 'index in %s whatever the band count of the mode: for a mode with fewer bands (8 kHz / 64-sample frames: 11) the entry is beyond what compute_ebands() wrote, i.e. heap residue, and the packet depends on it' % absint.show(v),
                             key='%s:literal-band-index' % f.name)
    return n


# ------------------------------------------------------------------ R12.12
def r12_12(rep, prog):
    """memories of the multistream encoder that live behind the sub-encoders and are reached through an accessor function
    (static, takes the state, returns a pointer into it) are history: the encode path reads and rewrites them in every
    call in which its guard holds.  OPUS_RESET_STATE must therefore clear each of them under a condition that the use
    condition implies - structurally: every equality test that guards the clear in the reset handler also guards every use
    (a weaker or equal guard).  The initialiser is the reference sibling: when it agrees with the uses and the reset handler
    does not, the reset handler is the deviant and a reset object keeps history that a new object does not have."""
    msfile = None
    accs = []
    for f in prog.functions_all:
        ps = f.params
        if f.static and len(ps) == 1 and ps[0].get('record') == 'OpusMSEncoder' and f.d.get('ret', '').endswith('*') and 'const' not in f.d.get('ret', ''):
            accs.append(f)
            msfile = f.file
    if not accs:
        return
    hf, hcf, arm = arm_blocks(prog, 'opus_multistream_encoder_ctl_va_list', 'OPUS_RESET_STATE')

    def atoms(g, cf, b, i):
        # params stored into a field of the state stand for that field
        p2f = {}
        for x in g.all_nodes():
            if x[0] == 'assign' and sx.kind(sx.strip(x[1])) == 'field' and sx.kind(sx.strip(x[2])) == 'param':
                p2f[sx.strip(x[2])[1]] = sx.strip(x[1])[3]
        out = set()
        for a in T.stable_facts(cf, b, i):
            if a[0] not in ('==', '!=') or not (isinstance(a[2], tuple) and a[2][0] == 'int'):
                continue
            v = a[1]
            if isinstance(v, tuple) and v[0] == 'field':
                out.add((a[0], v[-1] if isinstance(v[-1], str) else str(v), a[2][1]))
            elif isinstance(v, tuple) and v[0] == 'param' and v[1] in p2f:
                out.add((a[0], p2f[v[1]], a[2][1]))
            elif isinstance(v, tuple) and v[0] == 'local':
                out.add((a[0], str(v), a[2][1]))
            # tests of call results (argument validation with an early return) hold on every path that continues
        return out

    for acc in accs:
        uses, inits, resets = [], [], []
        for g in prog.functions_all:
            if g.file != msfile or g.name == acc.name:
                continue
            cf = hcf if g.name == hf.name else cfgm.CFG(g)
            for b, i, n in cf.find(lambda n: n[0] == 'call' and sx.callee_name(n) == acc.name):
                site = (g, sx.line(n) or g.line, atoms(g, cf, b, i))
                if g.name == hf.name:
                    (resets if b in arm.blocks else uses).append(site)
                elif 'init' in g.name:
                    inits.append(site)
                elif g.static and len(g.params) == 1 and any(sx.callee_name(c) == g.name for a2 in accs for c in a2.calls()):
                    continue        # an accessor built on another accessor
                else:
                    uses.append(site)
        inst = '%s:%s memory is cleared by OPUS_RESET_STATE whenever the encoder uses it' % (prog.config, acc.name)
        if not uses:
            rep.unresolved('R12.12', inst + ': no use site found')
            continue
        show = lambda A: ' && '.join('%s %s %s' % (v, op, c) for op, v, c in sorted(A)) or 'always'
        if not resets:
            rep.violated('R12.12', inst, hf.where(arm.line), 'the reset handler never reaches this memory (used at line %s under `%s`)' % (uses[0][1], show(uses[0][2])), key=acc.name + ':reset-missing')
            continue
        # extent: the reset handler clears as many elements as the initialiser (fields and the parameters stored into them
        # are the same quantity)
        def extent(g, cf):
            p2f = {}
            for x in g.all_nodes():
                if x[0] == 'assign' and sx.kind(sx.strip(x[1])) == 'field' and sx.kind(sx.strip(x[2])) == 'param':
                    p2f[sx.strip(x[2])[1]] = sx.strip(x[1])[3]

            def norm(e):
                e = sx.strip(e)
                k = sx.kind(e)
                if k == 'field':
                    return ('v', e[3])
                if k == 'param' and e[1] in p2f:
                    return ('v', p2f[e[1]])
                if k == 'int':
                    return e[1]
                if k == 'bin':
                    return (e[1], norm(e[2]), norm(e[3]))
                if k == 'cast':
                    return norm(e[4])
                return sx.key(e)
            out = []
            for b, i, c in cf.find(lambda x: x[0] == 'call' and sx.callee_name(x) == 'memset' and len(x[2]) == 3 and
                                   any(y[0] == 'call' and sx.callee_name(y) == acc.name for y in sx.walk(x[2][0]))):
                if g.name != hf.name or b in arm.blocks:
                    out.append((sx.line(c), norm(c[2][2]), sx.show(c[2][2])))
            return out
        ext_r = extent(hf, hcf)
        ext_i = [e for g in prog.functions_all if g.file == msfile and 'init' in g.name for e in extent(g, cfgm.CFG(g))]
        if ext_r and ext_i and any(r_[1] != i_[1] for r_ in ext_r for i_ in ext_i):
            r_, i_ = [(r_, i_) for r_ in ext_r for i_ in ext_i if r_[1] != i_[1]][0]
            rep.violated('R12.12', inst + ' (extent)', '%s:%s' % (hf.file, r_[0]),
                         'the reset handler clears `%s` bytes of this memory, the initialiser (line %s) clears `%s`: part of the history survives a reset' % (r_[2][:70], i_[0], i_[2][:70]),
                         key=acc.name + ':reset-extent')
            continue
        bad = [(r, u) for r in resets for u in uses if not r[2] <= u[2]]
        if not bad:
            rep.holds('R12.12', inst, '%s:%s' % (hf.file, resets[0][1]), 'reset clears under `%s`; %d use site(s) under `%s`; init under `%s`' % (
                show(resets[0][2]), len(uses), show(uses[0][2]), show(inits[0][2]) if inits else '-'))
        elif inits and all(i_[2] <= u[2] for i_ in inits for u in uses):
            r, u = bad[0]
            rep.violated('R12.12', inst, '%s:%s' % (hf.file, r[1]),
                         'used at %s:%s under `%s` and cleared by the initialiser under `%s`, but the reset handler clears it only under `%s`, which the use condition does not imply: '
                         'in a state where the first holds and the second does not, a reset encoder keeps the analysis history of the previous stream while a new one starts from zero' % (
                             u[0].file, u[1], show(u[2]), show(inits[0][2]), show(r[2])), key=acc.name + ':reset-guard')
        else:
            rep.unresolved('R12.12', inst + ': guards of reset, init and use sites cannot be compared (%s / %s / %s)' % (show(bad[0][0][2]), show(inits[0][2]) if inits else '-', show(bad[0][1][2])))


def check(rep, prog, tier):
    r12_12(rep, prog)
    r12_11(rep, prog)
    r12_10(rep, prog)
    r12_9(rep, prog)
    r12_8(rep, prog)
    r12_1(rep, prog, tier)
    r12_2(rep, prog)
    r12_3(rep, prog)
    r12_4(rep, prog)
    # the settings set, as derived by C11's rule (fields stored from the request value in a SET arm)
    from . import c11

    class _Null:
        def __getattr__(self, k):
            return lambda *a, **kw: None
        functions = set()
        extra = {}
    arms_by_disp = {}
    for fname in c11.DISPATCHERS:
        if prog.has_fn(fname):
            f = prog.fn(fname)
            cf, arms = ctlm.switch_arms(f)
            arms_by_disp[fname] = (arms, None, cf)
    settings = c11.r11_7(_Null(), prog, arms_by_disp)
    r12_567(rep, prog, settings)
