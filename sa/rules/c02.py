"""C02 — every encoded packet is valid and decodes in lock-step with the encoder.

R02.1 paired-branch agreement: in every `if (encode) A else B` of the shared
      CELT code (bands.c, rate.c) the two arms issue the same entropy-coder
      operations with the same model parameters (kind, table / ftb / logp /
      bit count / total, taken as structural keys of the SAME local
      variables), modulo ec_encode(fl,fh,ft) <-> ec_decode(ft)+ec_dec_update.
R02.2 function-pair agreement: for each encoder/decoder sibling pair the
      ordered list of distinct coder events (kind, resolved table set,
      constant parameter) is the same.
R02.3 final-range bookkeeping: both sides publish coder.rng ^ redundant_rng;
      on every path on which a TOC-only packet is returned / a <=1-byte payload
      is decoded the published value is 0 (must-reach dataflow on the field).
R02.4 encode-path errors are not dropped (every call to an encoder-side
      function that can fail has its result tested, returned or asserted).
R02.5 the duration announced in the TOC is derived from the submitted frame
      size: gen_toc receives Fs/frame_size of the frame being coded and its
      period search covers the legal frame rates.
"""
from .. import sx, cfg as cfgm, guards, templates as T, decide
from ..pts import PointsTo
from ..compdb import AnalysisBroken

EXPLANATION = (
    'Decided: R02.1 in all `if (encode) ... else ...` branches of the shared CELT band/rate code both arms issue the '
    'same entropy-coder operations with the same model parameters; R02.2 sixteen encoder/decoder function pairs '
    '(SILK indices, pulses, shell, signs, stereo; CELT coarse/fine/final energy, tf, Laplace, PVQ pulses; header '
    'flags) issue the same ordered list of distinct coder events (kind, resolved table set, constants); R02.3 both '
    'sides publish rng ^ redundant_rng and 0 on every TOC-only / tiny-payload path; R02.4 no encoder-side error is '
    'dropped; R02.5 the TOC is generated from the frame size being coded. '
    'NOT decided: that every packet decodes to the encoder\'s final range (run-time equality over all inputs), '
    'validity of every emitted framing, absence of internal errors, and conformance of code shared by both sides '
    '(a consistent two-sided change is invisible here; tables are C03).')

CONFIGS = {'quick': ['float', 'fixed'], 'thorough': ['float', 'fixed']}

ENC = {'ec_enc_icdf': ('icdf', 2, (3,)), 'ec_enc_icdf16': ('icdf16', 2, (3,)), 'ec_enc_bit_logp': ('bit_logp', None, (2,)), 'ec_enc_uint': ('uint', None, (2,)),
       'ec_enc_bits': ('bits', None, (2,)), 'ec_encode': ('code', None, (3,)), 'ec_encode_bin': ('code_bin', None, (3,)),
       'ec_laplace_encode': ('laplace', None, (2, 3)), 'ec_laplace_encode_p0': ('laplace_p0', None, (2, 3)), 'encode_pulses': ('pulses', None, (1, 2))}
DEC = {'ec_dec_icdf': ('icdf', 1, (2,)), 'ec_dec_icdf16': ('icdf16', 1, (2,)), 'ec_dec_bit_logp': ('bit_logp', None, (1,)), 'ec_dec_uint': ('uint', None, (1,)),
       'ec_dec_bits': ('bits', None, (1,)), 'ec_decode': ('code', None, (1,)), 'ec_decode_bin': ('code_bin', None, (1,)),
       'ec_laplace_decode': ('laplace', None, (1, 2)), 'ec_laplace_decode_p0': ('laplace_p0', None, (1, 2)), 'decode_pulses': ('pulses', None, (1, 2))}
AUX = {'ec_dec_update'}

PAIRS = [
    ('silk_encode_indices', 'silk_decode_indices'), ('silk_encode_pulses', 'silk_decode_pulses'), ('silk_shell_encoder', 'silk_shell_decoder'),
    ('silk_encode_signs', 'silk_decode_signs'), ('silk_stereo_encode_pred', 'silk_stereo_decode_pred'), ('silk_stereo_encode_mid_only', 'silk_stereo_decode_mid_only'),
    ('encode_split', 'decode_split'),
    ('quant_coarse_energy_impl', 'unquant_coarse_energy'), ('quant_fine_energy', 'unquant_fine_energy'), ('quant_energy_finalise', 'unquant_energy_finalise'),
    ('tf_encode', 'tf_decode'), ('ec_laplace_encode', 'ec_laplace_decode'), ('ec_laplace_encode_p0', 'ec_laplace_decode_p0'),
    ('encode_pulses', 'decode_pulses'), ('ec_enc_uint', 'ec_dec_uint'),
    ('celt_encode_with_ec', 'celt_decode_with_ec_dred'), ('silk_Encode', 'silk_Decode'), ('opus_encode_frame_native', '@frame_decoder'),
]

# wrappers that stand for a paired helper when they appear in a caller's sequence
ALIAS = {'quant_coarse_energy': 'quant_coarse_energy_impl'}


def setup(rep, tier):
    rep.minimum('R02.1', 9)
    rep.minimum('R02.2', 17)
    rep.minimum('R02.3', 5)
    rep.minimum('R02.4', 15)
    rep.minimum('R02.5', 1)
    rep.minimum('R02.6', 1)
    rep.minimum('R02.7', 60)
    rep.minimum('R02.8', 1)
    rep.minimum('R02.9', 1)
    rep.minimum('R02.10', 1)


def coder_calls(f):
    out = []
    for b, i, s in cfgm.CFG(f).positions():
        for n in sx.walk(s):
            if n[0] == 'call' and (sx.callee_name(n) in ENC or sx.callee_name(n) in DEC):
                out.append((b, i, n))
    return out


def event(prog, pt, f, n, exact=False):
    nm = sx.callee_name(n)
    kind, ti, cis = ENC.get(nm) or DEC.get(nm)
    tabs = None
    if ti is not None:
        t = sorted(pt.pts(f, n[2][ti]))
        tabs = tuple(t) if t else ('<stack table>',)
    params = []
    for ci in cis:
        if ci >= len(n[2]):
            params.append(None)
            continue
        v = sx.int_val(n[2][ci])
        if v is not None:
            params.append(('int', v))
        elif exact:
            params.append(sx.key(sx.nocast(n[2][ci])))
        else:
            params.append(None)
    return (kind, tabs, tuple(params))


def show_event(e):
    kind, tabs, params = e
    if kind.startswith('helper:'):
        return '%s%s' % (kind, list(tabs or []))
    return '%s%s%s' % (kind, ('[' + '|'.join(t.replace('silk_', '') for t in tabs) + ']') if tabs else '',
                       '(' + ','.join('?' if p is None else (str(p[1]) if p[0] == 'int' else '<expr>') for p in params) + ')')


def r02_1(rep, prog, pt):
    n = 0
    for f in prog.functions_all:
        if not f.file.startswith('celt/') or f.file.startswith('celt/x86'):
            continue
        # is there an `encode` flag
        cf = None
        for b in list(f.blocks):
            pass
        conds = []
        cfx = cfgm.CFG(f)
        for b in cfx.blocks:
            c = cfx.cond(b)
            if c is None or cfx.blocks[b]['term'].get('kind') != 'IfStmt':
                continue
            cs = sx.strip(c)
            is_flag = (sx.kind(cs) == 'param' and cs[2] == 'encode') or (sx.kind(cs) == 'local' and cs[1] == 'encode') or (sx.kind(cs) == 'field' and cs[3] == 'encode')
            if is_flag:
                conds.append(b)
        for b in conds:
            A = T.controlled_region(cfx, b, True)
            B = T.controlled_region(cfx, b, False)

            def evs(region):
                out = []
                for bb in region:
                    for s in f.block_exprs(cfx.blocks[bb]):
                        for m in sx.walk(s):
                            if m[0] == 'call' and (sx.callee_name(m) in ENC or sx.callee_name(m) in DEC):
                                out.append(event(prog, pt, f, m, exact=True))
                return sorted(set(out), key=repr)
            ea, eb = evs(A), evs(B)
            if not ea and not eb:
                continue
            n += 1
            rep.functions.add(f.name)
            where = '%s:%s' % (f.file, cfx.blocks[b]['term'].get('l'))
            inst = '%s:%s `if (encode)` at line %s: both arms code the same symbols with the same model' % (prog.config, f.name, cfx.blocks[b]['term'].get('l'))
            # the encoder arm must contain only encoder calls and vice versa
            if ea == eb:
                rep.holds('R02.1', inst, where, '%d coder operation(s): %s' % (len(ea), ', '.join(show_event(e) for e in ea)[:160]))
            else:
                only_a = [e for e in ea if e not in eb]
                only_b = [e for e in eb if e not in ea]
                rep.violated('R02.1', inst, where, 'encoder arm: %s; decoder arm: %s - the decoder reads this symbol with a different model than the encoder wrote it with' %
                             ([show_event(e) for e in only_a] or 'nothing extra', [show_event(e) for e in only_b] or 'nothing extra'), key='%s:encode-branch:%s' % (f.name, len(ea)))
    return n


def distinct_seq(prog, pt, f, depth=1, seen=None):
    """ordered list of distinct coder events of f (source order), inlining static helpers once"""
    calls = []
    for b, i, s in cfgm.CFG(f).positions():
        for n in sx.walk(s):
            if n[0] == 'call':
                calls.append(n)
    calls.sort(key=lambda n: (sx.line(n) or 0))
    out = []
    helper = {}
    for k, (a, b) in enumerate(PAIRS):
        helper[a] = helper[b] = k
    for n in calls:
        nm = sx.callee_name(n)
        nm = ALIAS.get(nm, nm)
        if nm in ENC or nm in DEC:
            e = event(prog, pt, f, n)
            if e not in out:
                out.append(e)
        elif nm in helper and nm != f.name:
            # a call to a paired helper: the pair index and the tables handed to it
            tabs = []
            for a in n[2]:
                t = sorted(pt.pts(f, a))
                if t and all(x in prog.globals and ('icdf' in x.lower() or 'table' in x.lower()) for x in t):
                    tabs.append(tuple(t))
            e = ('helper:%s/%s' % PAIRS[helper[nm]], tuple(tabs) or None, ())
            if e not in out:
                out.append(e)
    return out


def r02_2(rep, prog, pt):
    from .. import roles
    for a, b in PAIRS:
        if b == '@frame_decoder':
            cands = roles.holding(roles.frame_decoders(prog), lambda n: n[0] == 'call' and sx.callee_name(n) in DEC)
            b = cands[0].name if len(cands) == 1 else b
        fa, fb = prog.functions.get(a), prog.functions.get(b)
        if fa is None or fb is None:
            fa = fa or next((g for g in prog.functions_all if g.name == a), None)
            fb = fb or next((g for g in prog.functions_all if g.name == b), None)
        if fa is None or fb is None:
            rep.unresolved('R02.2', 'pair %s / %s not found' % (a, b))
            continue
        rep.functions.update({a, b})
        sa_, sb = distinct_seq(prog, pt, fa), distinct_seq(prog, pt, fb)
        if (a, b) == ('quant_coarse_energy_impl', 'unquant_coarse_energy'):
            # the intra flag (logp 3) is written by the encoder helper but read by the decoder's caller
            intra = ('bit_logp', None, (('int', 3),))
            callers = [g for g in prog.functions_all if g.name.startswith('celt_decode_with_ec') and any(sx.callee_name(c) == b for c in g.calls())]
            read_by_caller = any(event(prog, pt, g, c) == intra for g in callers for bb, ii, c in coder_calls(g))
            if intra in sa_ and read_by_caller:
                sa_ = [e for e in sa_ if e != intra]
        if (a, b) == ('silk_Encode', 'silk_Decode') and sa_ and sb and sa_[0][0] == 'icdf' and sa_[0][1] == ('<stack table>',) and sb[0] == ('bit_logp', None, (('int', 1),)):
            # VAD / LBRR header bits: the encoder reserves them with a stack-built iCDF and patches them at the end
            # (ec_enc_patch_initial_bits), the decoder reads them one by one with logp 1
            if any(sx.callee_name(c) == 'ec_enc_patch_initial_bits' for c in fa.calls()):
                sa_, sb = sa_[1:], sb[1:]
        inst = '%s:%s and %s code the same symbol sequence' % (prog.config, a, b)
        where = fb.where()
        if not sa_ and not sb:
            # pure arithmetic pair (ec_enc_uint/ec_dec_uint split the range the same way): compare the constants they use
            ka = sorted({sx.int_val(n) for n in fa.all_nodes() if sx.kind(n) == 'int' and any(m == 'EC_UINT_BITS' for m in sx.macros(n))} - {None})
            kb = sorted({sx.int_val(n) for n in fb.all_nodes() if sx.kind(n) == 'int' and any(m == 'EC_UINT_BITS' for m in sx.macros(n))} - {None})
            (rep.holds if ka == kb and ka else rep.violated)('R02.2', inst, where, 'EC_UINT_BITS constants %s / %s' % (ka, kb), **({} if ka == kb and ka else {'key': '%s:%s' % (a, b)}))
            continue
        if sa_ == sb:
            rep.holds('R02.2', inst, where, '%d distinct events: %s' % (len(sa_), ' ; '.join(show_event(e) for e in sa_)[:260]))
        else:
            k = next((i for i, (x, y) in enumerate(zip(sa_, sb)) if x != y), min(len(sa_), len(sb)))
            rep.violated('R02.2', inst, where, 'first difference at event %d: encoder %s, decoder %s (encoder has %d distinct events, decoder %d)' %
                         (k, show_event(sa_[k]) if k < len(sa_) else 'nothing', show_event(sb[k]) if k < len(sb) else 'nothing', len(sa_), len(sb)), key='%s:%s' % (a, b))


def _symkey(e):
    """name of the variable / field an index value lives in, with its subscript class"""
    e = sx.strip(e)
    sub = ''
    while True:
        k = sx.kind(e)
        if k == 'idx':
            iv = sx.int_val(e[2])
            sub = ('[%d]' % iv if iv is not None else '[var]') + sub
            e = sx.strip(e[1])
        elif k in ('cast', 'paren'):
            e = sx.strip(e)
        elif k == 'field':
            return e[3] + sub
        elif k in ('local', 'param'):
            return None              # temporaries are named differently on the two sides: only state fields identify a symbol
        elif k == 'bin':
            # Ix - k, value >> 1 ...: follow the operand that is a variable
            l, r = sx.strip(e[2]), sx.strip(e[3])
            e = l if sx.int_val(l) is None else r
        elif k == 'un':
            e = sx.strip(e[2])
        else:
            return None


def symbol_bindings(prog, pt, f):
    """symbol name -> set of coder events used to code it in f"""
    out = {}
    for b, i, s in cfgm.CFG(f).positions():
        for n in sx.walk(s):
            if n[0] == 'call' and sx.callee_name(n) in ENC and ENC[sx.callee_name(n)][0].startswith('icdf'):
                k = _symkey(n[2][1])
                out.setdefault(k, set()).add(event(prog, pt, f, n))
        # decoder: target = ec_dec_icdf(...)
        for n in sx.walk(s):
            if n[0] in ('assign', 'cassign'):
                r = sx.strip(n[2] if n[0] == 'assign' else n[3])
                tgt = n[1] if n[0] == 'assign' else n[2]
                calls = [m for m in sx.walk(r) if m[0] == 'call' and sx.callee_name(m) in DEC and DEC[sx.callee_name(m)][0].startswith('icdf')]
                if len(calls) == 1:
                    out.setdefault(_symkey(tgt), set()).add(event(prog, pt, f, calls[0]))
            if n[0] == 'decls':
                for d in n[1]:
                    if d[0] == 'decl' and d[3] is not None:
                        calls = [m for m in sx.walk(d[3]) if m[0] == 'call' and sx.callee_name(m) in DEC and DEC[sx.callee_name(m)][0].startswith('icdf')]
                        if len(calls) == 1:
                            out.setdefault(d[1], set()).add(event(prog, pt, f, calls[0]))
    return out


SYMBOL_PAIRS = [('silk_encode_indices', 'silk_decode_indices', {})]


def r02_2b(rep, prog, pt):
    for a, b, rename in SYMBOL_PAIRS:
        fa, fb = prog.fn(a), prog.fn(b)
        ba, bb = symbol_bindings(prog, pt, fa), symbol_bindings(prog, pt, fb)
        ba = {rename.get(k, k): v for k, v in ba.items()}
        common = sorted(k for k in set(ba) & set(bb) if k is not None)
        inst0 = '%s:%s / %s' % (prog.config, a, b)
        if len(common) < 2:
            rep.unresolved('R02.2', '%s: fewer than two commonly named symbols (%s vs %s)' % (inst0, sorted(map(str, ba)), sorted(map(str, bb))))
            continue
        for k in common:
            inst = '%s code symbol %s with the same model' % (inst0, k)
            if ba[k] == bb[k]:
                rep.holds('R02.2', inst, fb.where(), ', '.join(sorted(show_event(e) for e in ba[k])))
            else:
                rep.violated('R02.2', inst, fb.where(), 'encoder uses %s, decoder uses %s' % (sorted(show_event(e) for e in ba[k]), sorted(show_event(e) for e in bb[k])), key='%s:%s:%s' % (a, b, k))


def _is_rangefinal(lv):
    lv = sx.strip_paren(lv)
    return sx.kind(lv) == 'field' and lv[3] == 'rangeFinal'


def rangefinal_at_returns(f):
    """for each return: abstract value of st->rangeFinal in {ZERO, XOR, OTHER, TOP(=unknown at entry)}"""
    cf = cfgm.CFG(f)
    order = cf._rpo(cf.entry, cf.succ)

    def transfer(b, st, upto=None):
        for j, s in enumerate(f.block_exprs(cf.blocks[b])):
            if upto is not None and j >= upto:
                break
            for n in sx.walk(s):
                if n[0] == 'assign' and _is_rangefinal(n[1]):
                    r = sx.strip(n[2])
                    if sx.int_val(r) == 0:
                        st = {'ZERO'}
                    elif sx.kind(r) == 'bin' and r[1] == '^':
                        st = {'XOR'}
                    else:
                        st = {'OTHER'}
        return st
    IN, OUT = {cf.entry: {'ENTRY'}}, {}
    changed = True
    while changed:
        changed = False
        for b in order:
            inn = set(IN.get(b, set())) if b == cf.entry else set()
            for p_ in cf.pred[b]:
                inn |= OUT.get(p_, set())
            out = transfer(b, inn)
            if IN.get(b) != inn or OUT.get(b) != out:
                IN[b], OUT[b] = inn, out
                changed = True
    res = []
    for b, i, s in T.returns_of(cf):
        res.append((b, i, s, transfer(b, set(IN.get(b, set())), i)))
    return cf, res


def r02_3(rep, prog):
    from .. import roles
    # encoder
    f = prog.fn('opus_encode_frame_native')
    rep.functions.add(f.name)
    cf, rets = rangefinal_at_returns(f)
    xors = [n for n in f.all_nodes() if n[0] == 'assign' and _is_rangefinal(n[1]) and sx.kind(sx.strip(n[2])) == 'bin' and sx.strip(n[2])[1] == '^']
    dec_fs = roles.holding(roles.frame_decoders(prog), lambda n: n[0] == 'assign' and _is_rangefinal(n[1]))
    if len(dec_fs) != 1:
        rep.unresolved('R02.3', 'decoder function publishing rangeFinal not unique: %s' % [g.name for g in dec_fs])
        return
    d = dec_fs[0]
    dxors = [n for n in d.all_nodes() if n[0] == 'assign' and _is_rangefinal(n[1]) and sx.kind(sx.strip(n[2])) == 'bin' and sx.strip(n[2])[1] == '^']

    def xor_shape(n):
        r = sx.strip(n[2])
        ops = [sx.strip(r[2]), sx.strip(r[3])]
        rng = [o for o in ops if sx.kind(o) == 'field' and o[3] == 'rng']
        red = [o for o in ops if sx.kind(o) == 'local' and 'redundant' in o[1]]
        return len(rng) == 1 and len(red) == 1
    ok = len(xors) == 1 and len(dxors) == 1 and xor_shape(xors[0]) and xor_shape(dxors[0])
    (rep.holds if ok else rep.violated)('R02.3', '%s:encoder and decoder publish coder.rng ^ redundant_rng' % prog.config, f.where(),
                                        'encoder %s; decoder %s' % ([sx.show(n) for n in xors], [sx.show(n) for n in dxors]), **({} if ok else {'key': 'final-range-xor'}))
    # every `return 1` of the encoder publishes 0; every other success return publishes the xor
    n1 = 0
    for b, i, s, val in rets:
        v = T.const_ret(s)
        where = '%s:%s' % (f.file, sx.line(s))
        if v == 1:
            n1 += 1
            inst = '%s:TOC-only packet (return 1) publishes final range 0' % prog.config
            if val == {'ZERO'}:
                rep.holds('R02.3', inst, where, 'st->rangeFinal is 0 on every path to this return')
            else:
                rep.violated('R02.3', inst, where, 'st->rangeFinal may be %s here: the decoder reports 0 for a payload-less packet, the encoder a stale / non-zero value' % sorted(val), key='enc-return1-range')
    if n1 < 2:
        rep.unresolved('R02.3', 'fewer than two TOC-only returns found in opus_encode_frame_native')
    # decoder: 0 under len <= 1, xor otherwise
    cd = cfgm.CFG(d)
    zeros = [(b, i, n) for b, i, n in cd.find(lambda n: n[0] == 'assign' and _is_rangefinal(n[1]) and sx.int_val(n[2]) == 0)]
    pl = d.param_index('len')
    ok = False
    for b, i, n in zeros:
        facts = T.stable_facts(cd, b, i)
        if any(a in (('<=', ('param', pl), ('int', 1)), ('<', ('param', pl), ('int', 2))) for a in facts):
            ok = True
    xb = [b for b, i, n in cd.find(lambda n: n is dxors[0])] if dxors else []
    okx = bool(xb) and any(a in (('<', ('int', 1), ('param', pl)), ('<=', ('int', 2), ('param', pl))) for a in T.stable_facts(cd, xb[0], 0))
    (rep.holds if ok and okx else rep.violated)('R02.3', '%s:decoder publishes 0 for payloads of <= 1 byte and the xor otherwise' % prog.config, d.where(),
                                                'zero under len<=1: %s, xor under len>1: %s' % (ok, okx), **({} if ok and okx else {'key': 'dec-range'}))
    # the decoder's redundant_rng is obtained from the CELT decoder whenever the packet carries a redundancy frame,
    # whether or not its audio is used (path feasibility under the final values of redundancy / celt_to_silk)
    loc = {l['name']: ('local', l['id']) for l in d.locals.values()}
    if 'redundancy' in loc and 'celt_to_silk' in loc and dxors:
        W = {b for b, i, c in cd.find(lambda c: c[0] == 'call' and any(sx.kind(x) == 'addr' and sx.kind(sx.strip(x[1])) == 'local' and sx.strip(x[1])[1] == 'redundant_rng' for a in c[2] for x in sx.walk(a)))}
        X = xb[0] if xb else None
        badv = None
        for c2s in (0, 1):
            val = {loc['redundancy']: 1, loc['celt_to_silk']: c2s}
            fb, fe = decide.feasible_edges(cd, val)
            seen = {cd.entry}
            work = [cd.entry]
            while work:
                x = work.pop()
                for y in cd.succ[x]:
                    if (x, y) in fe and y not in seen and y not in W and x not in cd.noreturn_blocks():
                        seen.add(y)
                        work.append(y)
            if X in seen:
                badv = c2s
        ok = bool(W) and X is not None and badv is None
        (rep.holds if ok else rep.violated)('R02.3', '%s:decoder takes the redundancy frame\'s final range whenever a redundancy frame is present' % prog.config, d.where(),
                                            '%d site(s) read it into redundant_rng; every feasible path with redundancy=1 passes one' % len(W) if ok else
                                            'with redundancy=1, celt_to_silk=%s the final range is published without decoding the redundancy frame: redundant_rng keeps its initial 0 and the decoder\'s final range differs from the encoder\'s' % badv,
                                            **({} if ok else {'key': 'redundant-rng'}))
    # the low-budget path of opus_encode_native also publishes 0
    g = prog.fn('opus_encode_native')
    cg, grets = rangefinal_at_returns(g)
    zs = [n for n in g.all_nodes() if n[0] == 'assign' and _is_rangefinal(n[1]) and sx.int_val(n[2]) == 0]
    (rep.holds if zs else rep.violated)('R02.3', '%s:the low-budget (PLC frame) path of opus_encode_native publishes final range 0' % prog.config, g.where(), '%d store(s)' % len(zs), **({} if zs else {'key': 'lowbudget-range'}))


ERR_CALLEES = {'silk_Encode', 'celt_encode_with_ec', 'opus_encode_frame_native', 'opus_encode_native', 'opus_repacketizer_cat', 'opus_repacketizer_out_range_impl',
               'opus_packet_pad', 'opus_packet_pad_impl', 'silk_InitEncoder', 'celt_encoder_init', 'opus_multistream_encode_native', 'opus_encoder_init',
               'opus_multistream_encoder_init_impl', 'opus_multistream_encoder_init', 'opus_multistream_surround_encoder_init', 'silk_Get_Encoder_Size',
               'mapping_matrix_get_size'}
ERR_FUNCS = ['opus_encode_native', 'opus_encode_frame_native', 'opus_encode', 'opus_encode24', 'opus_encode_float', 'opus_multistream_encode_native',
             'opus_multistream_encode', 'opus_multistream_encode24', 'opus_multistream_encode_float', 'opus_projection_encode', 'opus_projection_encode24',
             'opus_projection_encode_float', 'opus_encoder_init', 'opus_encoder_create', 'opus_multistream_encoder_init_impl', 'opus_multistream_encoder_create',
             'opus_multistream_surround_encoder_create', 'opus_projection_ambisonics_encoder_init', 'opus_projection_ambisonics_encoder_create']
ERR_EXC = {
    ('opus_multistream_encode_native', 'opus_repacketizer_out_range_impl', '*'): 'stated belief: the per-stream budget reservation (checked by C05 R05.3) makes failure impossible; no failing input known',
    ('opus_encode_native', 'opus_repacketizer_out_range_impl', '*'): 'result is tested (ret<0 -> OPUS_INTERNAL_ERROR) right after the call',
}


def _prefill(f, call):
    """state warm-up calls whose coded output is thrown away: the output buffer is a local `dummy`
    (or the range coder is NULL with the prefill flag set)"""
    for a in call[2]:
        a0 = sx.strip(a)
        while sx.kind(a0) == 'addr':
            a0 = sx.strip(a0[1])
        if sx.kind(a0) == 'local' and a0[1].startswith('dummy'):
            return 'prefill / re-initialisation into the throw-away local `%s`: nothing of it reaches the packet' % a0[1]
    if sx.callee_name(call) == 'silk_Encode' and len(call[2]) > 6 and sx.int_val(call[2][4]) == 0 and sx.kind(sx.strip(call[2][6])) in ('local', 'param'):
        return 'SILK prefill call: no range coder (NULL), output discarded'
    return None


def r02_4(rep, prog):
    n = 0
    for name in ERR_FUNCS:
        if not prog.has_fn(name):
            continue
        f = prog.fn(name)
        rep.functions.add(name)
        n += T.t_err(rep, 'R02.4', prog, f, ERR_CALLEES - {name}, ERR_EXC, config=prog.config + ':', ignore=_prefill)
    if n < 15:
        rep.unresolved('R02.4', 'only %d encoder-side fallible call sites found' % n)


def r02_5(rep, prog):
    """TOC generation: gen_toc(mode, Fs/frame_size, bandwidth, channels) with the frame size being coded"""
    f = prog.fn('opus_encode_frame_native')
    pfs = f.param_index('frame_size')
    n = 0
    bad = []
    for c in f.calls():
        if sx.callee_name(c) != 'gen_toc':
            continue
        n += 1
        a = sx.strip(c[2][1])
        ok = sx.kind(a) == 'bin' and a[1] == '/' and sx.kind(sx.strip(a[2])) == 'field' and sx.strip(a[2])[3] == 'Fs' and sx.key(sx.strip(a[3])) == ('param', pfs)
        ok = ok and sx.kind(sx.strip(c[2][0])) == 'field' and sx.strip(c[2][0])[3] == 'mode' and sx.kind(sx.strip(c[2][3])) == 'field' and sx.strip(c[2][3])[3] == 'stream_channels'
        if not ok:
            bad.append(sx.show(c)[:90])
    inst = '%s:every TOC of the frame encoder is generated from (st->mode, Fs/frame_size, bandwidth, stream_channels)' % prog.config
    if n < 3:
        rep.unresolved('R02.5', 'only %d gen_toc calls in opus_encode_frame_native' % n)
    elif bad:
        rep.violated('R02.5', inst, f.where(), 'TOC generated from other values: %s' % bad, key='gen-toc-args')
    else:
        rep.holds('R02.5', inst, f.where(), '%d call sites' % n)


# ------------------------------------------------------------------ R02.6
_IN_SAMPLES = {400: 120, 200: 240, 100: 480, 50: 960, 25: 1920, 16: 2880, 12: 3840, 10: 4800, 8: 5760}
_TOC_OK = {1000: {100: 480, 50: 960, 25: 1920, 16: 2880}, 1001: {100: 480, 50: 960}, 1002: {400: 120, 200: 240, 100: 480, 50: 960}}


def r02_6(rep, prog):
    """the packet emitted when the byte budget is too low for real coding ('PLC frames') still announces
    exactly the submitted duration: (mode, frame rate, frame-count code) at the TOC store, for every
    submitted frame size x encoder mode x {1 byte, more}, by interval analysis of that region alone"""
    from .. import absint
    f = prog.fn('opus_encode_native')
    cg = cfgm.CFG(f)
    rep.functions.add(f.name)
    sinks = [(b, i, c) for b, i, c in T.calls_to(cg, 'gen_toc') if sx.kind(sx.strip(c[2][0])) == 'local' and sx.kind(sx.strip(c[2][1])) == 'local']
    if len(sinks) != 1:
        rep.unresolved('R02.6', '%s: expected one gen_toc(local mode, local rate, ...) site in opus_encode_native, found %d' % (prog.config, len(sinks)))
        return
    sb, si, sc = sinks[0]
    lmode, lrate = sx.strip(sc[2][0]), sx.strip(sc[2][1])
    # region entry: the block declaring the TOC mode local
    start = None
    for b, i, s_ in cg.positions():
        if sx.kind(s_) == 'decls' and any(d[0] == 'decl' and d[2] == lmode[2] for d in s_[1]):
            start = b
    if start is None or not cg.dominates(start, sb):
        rep.unresolved('R02.6', '%s: the low-budget region (declaration of `%s`) was not found' % (prog.config, lmode[1]))
        return
    # the frame-count code: the local or-ed into data[0] after the TOC store; the count byte data[1]
    code = nmf = None
    for b, i, s_ in cg.positions():
        if not cg.dominates(start, b):
            continue
        if s_[0] == 'cassign' and sx.kind(sx.strip(s_[2])) == 'idx' and sx.int_val(sx.strip(s_[2])[2]) == 0 and sx.kind(sx.strip(s_[3])) == 'local':
            code = (b, i, sx.strip(s_[3]))
        if s_[0] == 'assign' and sx.kind(sx.strip(s_[1])) == 'idx' and sx.int_val(sx.strip(s_[1])[2]) == 1 and sx.kind(sx.strip(s_[2])) == 'local':
            nmf = (b, i, sx.strip(s_[2]))
    if code is None or nmf is None:
        rep.unresolved('R02.6', '%s: frame-count code / count byte stores not found in the low-budget region (%s, %s)' % (prog.config, code, nmf))
        return
    # is "100 ms into one byte" refused before the region?
    refused = False
    for b in cg.blocks:
        c = cg.cond(b)
        if c is None:
            continue
        cs = sx.strip(c)
        if not (sx.kind(cs) == 'bin' and cs[1] == '==' and any(sx.kind(y) == 'bin' and y[1] == '*' and 10 in (sx.int_val(y[2]), sx.int_val(y[3])) for y in sx.walk(cs))):
            continue
        tgt = [s2 for s2, pol in cg.edges(b) if pol is True]
        if not tgt or not any(sx.kind(x) == 'ret' and len(x) > 1 and (sx.int_val(x[1]) or 0) < 0 for x in cg.blocks[tgt[0]]['stmts']):
            continue
        for q in cg.pred[b]:
            cq = cg.cond(q)
            cqs = sx.strip(cq) if cq is not None else None
            if cqs is not None and sx.kind(cqs) == 'bin' and cqs[1] == '==' and sx.int_val(cqs[3]) == 1 and (b, True) in cg.edges(q) and cg.dominates(q, start) and len(cg.pred[b]) == 1:
                refused = True
    pst = [p for p in f.params if p['name'] == 'st']
    kst = ('param', f.param_index('st'))
    kout = ('param', f.param_index('out_data_bytes'))
    n = 0
    bad = []
    lbw = sx.strip(sc[2][2])
    BW_OK = {1000: (1101, 1102, 1103), 1001: (1104, 1105), 1002: (1101, 1103, 1104, 1105)}
    for rate_in, samples in sorted(_IN_SAMPLES.items()):
        for mode in (0, 1000, 1001, 1002):
          for bw_in in (0, 1101, 1102, 1103, 1104, 1105):
            for one in (True, False):
                if one and rate_in == 10 and refused:
                    continue
                entry = {('local', lrate[2]): absint.const(rate_in), ('field', kst, 'mode'): absint.const(mode), ('field', kst, 'bandwidth'): absint.const(bw_in),
                         kout: absint.const(1) if one else absint.mk(2, 7650)}
                an = absint.Analyzer(prog, f, entry_state=entry, start=start, call_summary=absint.inline_summary(prog), havoc_fields_on_call=False)
                st = an.state_at(sb, si)
                if st is not None and sx.kind(lbw) == 'local':
                    vb = absint.values(an.lookup(st, ('local', lbw[2]), absint.mk(-2**31, 2**31 - 1)), 8)
                    vm0 = absint.values(an.lookup(st, ('local', lmode[2]), absint.mk(-2**31, 2**31 - 1)), 8)
                    if vb and vm0 and len(vm0) == 1 and vm0[0] in BW_OK and any(x not in BW_OK[vm0[0]] for x in vb):
                        bad.append((rate_in, mode, one, 'TOC mode %d with bandwidth %s (previous bandwidth %d): that combination has no TOC, the bandwidth bits spill into the frame-size field' % (vm0[0], vb, bw_in)))
                        n += 1
                        continue
                if st is None:
                    bad.append((rate_in, mode, one, 'TOC store unreachable'))
                    continue
                vm = absint.values(an.lookup(st, ('local', lmode[2]), absint.mk(-2**31, 2**31 - 1)), 8)
                vr = absint.values(an.lookup(st, ('local', lrate[2]), absint.mk(-2**31, 2**31 - 1)), 8)
                st2 = an.state_at(code[0], code[1])
                vc = absint.values(an.lookup(st2, ('local', code[2][2]), absint.mk(-2**31, 2**31 - 1)), 8) if st2 is not None else None
                n += 1
                if not vm or not vr or not vc or len(vm) != 1 or len(vr) != 1 or len(vc) != 1:
                    bad.append((rate_in, mode, one, 'not a single TOC: mode %s rate %s code %s' % (vm, vr, vc)))
                    continue
                m, r, k = vm[0], vr[0], vc[0]
                if m not in _TOC_OK or r not in _TOC_OK[m]:
                    bad.append((rate_in, mode, one, 'TOC (mode %d, %d frames/s) does not exist' % (m, r)))
                    continue
                if k == 0:
                    cnt = 1
                elif k in (1, 2):
                    cnt = 2
                else:
                    st3 = an.state_at(nmf[0], nmf[1])
                    vn = absint.values(an.lookup(st3, ('local', nmf[2][2]), absint.mk(-2**31, 2**31 - 1)), 8) if st3 is not None else None
                    if not vn or len(vn) != 1:
                        bad.append((rate_in, mode, one, 'frame count byte not a single value: %s' % (vn,)))
                        continue
                    cnt = vn[0]
                if cnt * _TOC_OK[m][r] != samples:
                    bad.append((rate_in, mode, one, 'announces %d x %d samples (mode %d, code %d) for a %d-sample frame (48 kHz units)' % (cnt, _TOC_OK[m][r], m, k, samples)))
    inst = '%s:the low-budget packet announces exactly the submitted duration' % prog.config
    where = '%s:%s' % (f.file, sx.line(sc))
    if n < 300:
        rep.unresolved('R02.6', inst + ': only %d (frame size, mode, budget) cases analysed' % n)
    elif bad:
        r0 = bad[0]
        rep.violated('R02.6', inst, where, 'submitted %d frames/s, st->mode=%d, %s: %s  (%d of %d cases disagree)' % (r0[0], r0[1], 'one output byte' if r0[2] else 'two or more output bytes', r0[3], len(bad), n),
                     key='low-budget-toc')
    else:
        rep.holds('R02.6', inst, where, '%d cases (9 frame sizes x 4 modes x 6 previous bandwidths x {1 byte, more}%s), region started at the declaration of `%s`' % (n, ', 100 ms into 1 byte refused earlier' if refused else '', lmode[1]))


# ------------------------------------------------------------------ R02.9
def r02_9(rep, prog):
    """encoder and decoder remember `the previous frame was coded mid-only` once per FRAME (the decoder stores it at
    the end of every silk_Decode call).  The encoder-side store in silk_Encode must not be tied to the end of the
    packet: inside a 40 / 60 ms packet the two sides would otherwise choose different conditional-coding modes
    for the side channel."""
    n = 0
    for fname in ('silk_Encode',):
        if not prog.has_fn(fname):
            continue
        f = prog.fn(fname)
        cf = cfgm.CFG(f)
        for b, i, s_ in cf.positions():
            if s_[0] == 'assign' and sx.kind(sx.strip(s_[1])) == 'field' and sx.strip(s_[1])[3] == 'prev_decode_only_middle':
                n += 1
                rep.functions.add(fname)
                packet_end = [sx.show(c) for c, pol, gb in cfgm.guards_of(cf, b) if c is not None and pol is True and 'nFramesEncoded' in sx.show(c) and 'nFramesPerPacket' in sx.show(c)]
                inst = '%s:%s refreshes prev_decode_only_middle once per frame, like the decoder' % (prog.config, fname)
                where = '%s:%s' % (f.file, sx.line(s_))
                if packet_end:
                    rep.violated('R02.9', inst, where, 'the store is made only under `%s` (end of the packet): frames 2 and 3 of a 40 / 60 ms packet see the value of the previous PACKET while the decoder sees that of the previous frame' % packet_end[0][:90],
                                 key='prev-mid-only-per-packet')
                else:
                    rep.holds('R02.9', inst, where, 'not conditional on the end of the packet')
    return n


# ------------------------------------------------------------------ R02.10
def _flag_reserve(prog, fname):
    """bits the Opus layer requires to be left for the redundancy flag in hybrid mode: the left-hand side of the
    `ec_tell(..) + 17 + 20*(mode == MODE_HYBRID) <= 8*len` test, with ec_tell = 0 and the mode comparison true"""
    f = prog.fn(fname)
    cf = cfgm.CFG(f)
    out = []
    for b in cf.blocks:
        c = cf.cond(b)
        if c is None:
            continue
        for x in sx.walk(c):
            if sx.kind(x) == 'bin' and x[1] == '<=' and any(sx.kind(y) == 'call' and sx.callee_name(y) == 'ec_tell' for y in sx.walk(x[2])):
                def res(nd):
                    if sx.kind(nd) == 'call' and sx.callee_name(nd) == 'ec_tell':
                        return 0
                    if sx.kind(nd) == 'bin' and nd[1] == '==' and any(sx.int_val(sx.strip(z)) == 1001 for z in (nd[2], nd[3])):
                        return 1                      # mode == MODE_HYBRID
                    return None
                v = decide.ev3(x[2], {}, res)
                if v is not None and v > 17:
                    out.append((v, '%s:%s' % (f.file, sx.line(x) or cf.blocks[b].get('term', {}).get('l'))))
    return out


def r02_10(rep, prog):
    """a three-site contract: the Opus encoder writes, and the decoder reads, the hybrid redundancy flag only when
    17 + 20 = 37 bits are left; the CELT encoder's VBR may shrink the packet, so its hybrid floor `min_allowed` must keep
    those 37 bits for EVERY frame size.  The reserve of each site is evaluated from its expression (LM in 0..3 for CELT)."""
    enc = _flag_reserve(prog, 'opus_encode_frame_native') if prog.has_fn('opus_encode_frame_native') else []
    fdec = [f.name for f in prog.functions_all if f.file == 'src/opus_decoder.c' and any(sx.callee_name(c) == 'ec_tell' for c in f.calls())]
    dec = [r for nm in fdec for r in _flag_reserve(prog, nm)]
    inst = '%s:hybrid redundancy-flag reserve agrees between the Opus encoder, the Opus decoder and the CELT VBR floor' % prog.config
    if len(enc) != 1 or len(dec) != 1:
        rep.unresolved('R02.10', inst + ': flag tests not found (encoder %d, decoder %d)' % (len(enc), len(dec)))
        return 0
    if enc[0][0] != dec[0][0]:
        rep.violated('R02.10', inst, dec[0][1], 'the encoder writes the flag with %d bits left, the decoder reads it with %d' % (enc[0][0], dec[0][0]), key='flag-reserve:enc-dec')
        return 1
    bits = enc[0][0]
    f = prog.fn('celt_encode_with_ec')
    rep.functions.add(f.name)
    cf = cfgm.CFG(f)
    kmin = None
    sites = []
    for b, i, n_ in cf.find(lambda n_: n_[0] == 'assign' and sx.kind(sx.strip(n_[1])) == 'local' and sx.strip(n_[1])[1] == 'min_allowed'):
        g = cfgm.guards_of(cf, b)
        if any(c is not None and pol and sx.kind(sx.strip(c)) == 'local' and sx.strip(c)[1] == 'hybrid' for c, pol, gb in g[:2]):
            sites.append((b, i, n_))
    if len(sites) != 1:
        rep.unresolved('R02.10', inst + ': the hybrid floor of min_allowed was not found (%d candidates)' % len(sites))
        return 0
    b, i, n_ = sites[0]
    kmin = sx.key(sx.strip(n_[1]))
    want = (bits + 7) // 8           # bytes needed for `bits` bits (the floor rounds up)
    bad = []
    for LM in range(0, 4):
        val = {kmin: 0}
        for l in f.locals.values():
            if l['name'] in ('tell0_frac', 'total_boost'):
                val[('local', l['id'])] = 0
            if l['name'] == 'LM':
                val[('local', l['id'])] = LM
        v = decide.ev3(n_[2], val)
        if v is None:
            rep.unresolved('R02.10', inst + ': cannot evaluate `%s`' % sx.show(n_[2])[:80], '%s:%s' % (f.file, sx.line(n_)))
            return 0
        if v != want:
            bad.append((LM, v))
    where = '%s:%s' % (f.file, sx.line(n_))
    if bad:
        rep.violated('R02.10', inst, where, 'with an empty coder the hybrid floor is %s bytes for LM=%s, but the %d bits the Opus layer tests for need %d: a VBR frame can shrink below the point where the decoder still reads the redundancy flag the encoder wrote' % (
            [v for lm, v in bad], [lm for lm, v in bad], bits, want), key='flag-reserve:celt-floor')
    else:
        rep.holds('R02.10', inst, where, '%d bits at all three sites (CELT floor evaluated for LM 0..3: %d bytes)' % (bits, want))
    return 1


def check(rep, prog, tier):
    r02_10(rep, prog)
    r02_9(rep, prog)
    r02_6(rep, prog)
    pt = PointsTo(prog)
    n = r02_1(rep, prog, pt)
    if n < 9:
        rep.unresolved('R02.1', 'only %d `if (encode)` branches with coder operations found' % n)
    r02_2(rep, prog, pt)
    r02_2b(rep, prog, pt)
    r02_3(rep, prog)
    r02_4(rep, prog)
    r02_5(rep, prog)
    from . import deadstate
    if deadstate.check(rep, 'R02.8', prog, 'encoder') == 0 and prog.config.split('+')[0] in ('float', 'fixed'):
        rep.unresolved('R02.8', 'no written state fields found')


def finish(rep, tier, progs):
    # R02.7: the float and fixed-point twins of the SILK encoder keep the same integer bookkeeping
    if 'float' in progs and 'fixed' in progs:
        from . import flpfix
        flpfix.check(rep, 'R02.7', progs['float'], progs['fixed'])
