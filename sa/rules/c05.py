"""C05 — the encoder never writes past the caller's limit (structural part).

R05.1 direct stores into the packet buffer (TOC / frame-count bytes) happen at
      an index proved below the available size (interval analysis with the
      buffer pointer offset as a ghost integer and trace partitioning on the
      packet code).
R05.2 every length handed to a writer of the caller's buffer
      (opus_encode_frame_native, opus_packet_pad, the repacketizer) is proved
      <= out_data_bytes by a tracked difference (out_data_bytes - length >= 0);
      the range coder gets exactly (max_data_bytes-1) bytes at data+1; callers
      pass 1 <= max_data_bytes <= 1276.
R05.3 multistream: the per-stream budget is clamped to the size of the scratch
      packet before encoding into it; the repacketizer gets exactly the
      remaining space and data / tot_size advance together.
R05.4 the constants agree: scratch copies of the coder buffer have 1275 bytes
      = CELT's byte cap = (Opus cap 1276) - 1.
"""
from .. import sx, cfg as cfgm, guards, templates as T, absint, decide
from ..guards import I
from ..compdb import AnalysisBroken

EXPLANATION = (
    'Decided (memory-safety skeleton of "never writes past max_data_bytes"): R05.1 the explicit TOC/frame-count byte '
    'stores of opus_encode_native and opus_encode_frame_native are at indices proved inside the buffer; R05.2 in '
    'opus_encode_native every length passed to a writer of the caller\'s buffer is <= out_data_bytes (relational '
    'difference tracking through the IMIN/IMAX clamps and the CBR computation), opus_encode_frame_native gives the range '
    'coder exactly max_data_bytes-1 bytes at data+1 and pads to max_data_bytes, and its callers pass 1..1276; R05.3 the '
    'multistream encoder clamps the per-stream budget to the scratch packet size, hands the repacketizer exactly the '
    'remaining bytes and advances data and tot_size together; R05.4 the 1275-byte scratch copies of the coder buffer '
    'match the 1275/1276 caps. Range-coder internal bounds are C08. '
    'NOT decided: exact CBR size, OPUS_BITRATE_MAX fill, CVBR long-term rate, placement of redundancy frames inside '
    'the coder buffer (relational over coder state), sufficiency of the multistream reservation arithmetic.')

CONFIGS = {'quick': ['float', 'custom'], 'thorough': ['float', 'fixed', 'custom']}     # custom: R05.12 only (signalling byte)


def setup(rep, tier):
    rep.minimum('R05.1', 5)
    rep.minimum('R05.2', 7)
    rep.minimum('R05.3', 4)
    rep.minimum('R05.4', 3)
    rep.minimum('R05.5', 3)
    rep.minimum('R05.6', 1)
    rep.minimum('R05.7', 2)
    rep.minimum('R05.8', 1)
    rep.minimum('R05.9', 1)
    rep.minimum('R05.10', 5)
    rep.minimum('R05.11', 5)
    rep.minimum('R05.12', 4)
    rep.minimum('R05.13', 1)
    rep.minimum('R05.14', 1)


def local_key(f, name):
    ids = [l['id'] for l in f.locals.values() if l['name'] == name]
    if len(ids) != 1:
        raise AnalysisBroken('%s: local %s not found' % (f.name, name))
    return ('local', ids[0])


def const_assign_partition(f, cf, lid, value):
    """transition function for a 2-state product: q=1 iff the last assignment
    to local `lid` (a constant) was `value`"""
    sets = {}
    for b in cf.blocks:
        last = None
        for s in cf.blocks[b]['stmts']:
            for n in sx.walk(s):
                if n[0] == 'assign' and sx.kind(n[1]) == 'local' and n[1][2] == lid:
                    last = sx.int_val(n[2])
                    if last is None:
                        last = 'unknown'
                if n[0] == 'decls':
                    for d in n[1]:
                        if d[0] == 'decl' and d[2] == lid and d[3] is not None:
                            last = sx.int_val(d[3])
        if last is not None:
            sets[b] = last

    def transition(b, s, q):
        if b in sets:
            return 1 if sets[b] == value else 0
        return q
    return transition


def r05_native(rep, prog):
    f = prog.fn('opus_encode_native')
    rep.functions.add(f.name)
    pd = f.param_index('data')
    po = ('param', f.param_index('out_data_bytes'))
    mx = local_key(f, 'max_data_bytes')
    diffs = [(po, mx), (po, local_key(f, 'cbr_bytes')), (po, local_key(f, 'repacketize_len'))]
    base_cf = cfgm.CFG(f)
    pc = local_key(f, 'packet_code')
    NQ = 2
    trans = const_assign_partition(f, base_cf, pc[1], 3)
    an, feasible = absint.product_analysis(prog, f, NQ, trans, 0, diffs=diffs)

    def states_before(b, i, n):
        out = []
        for q in range(NQ):
            pb = b * NQ + q
            if pb in an.IN and an.IN[pb] is not None:
                st = an.state_before_node(pb, i, n)
                if st is not None:
                    out.append((q, st))
        return out
    # R05.1 direct stores
    nd = 0
    for b, i, n in base_cf.find(lambda n: n[0] in ('assign', 'cassign')):
        lv = sx.strip_paren(n[1] if n[0] == 'assign' else n[2])
        if sx.kind(lv) != 'idx' or sx.kind(sx.strip(lv[1])) != 'param' or sx.strip(lv[1])[1] != pd:
            continue
        nd += 1
        k = sx.int_val(lv[2])
        where = '%s:%s' % (f.file, sx.line(n))
        inst = '%s:opus_encode_native `%s`' % (prog.config, sx.show(n)[:44])
        if k is None:
            rep.unresolved('R05.1', 'non-constant index in direct packet store %s' % sx.show(n), where)
            continue
        sts = states_before(b, i, n)
        worst = None
        for q, st in sts:
            v = an.ev(['param', po[1], 'out_data_bytes'], st)
            if absint.lo(v) < k + 1:
                worst = (q, v)
        if not sts:
            rep.holds('R05.1', inst, where, 'unreachable')
        elif worst is None:
            rep.holds('R05.1', inst, where, 'out_data_bytes >= %d in every feasible partition (%d)' % (k + 1, len(sts)))
        else:
            rep.violated('R05.1', inst, where, 'index %d but out_data_bytes may be %s (partition packet_code%s3)' % (k, absint.show(worst[1]), '==' if worst[0] else '!='), key='native:data[%d]:%s' % (k, sx.line(n) and ''))
    if nd < 3:
        rep.unresolved('R05.1', 'only %d direct packet stores found in opus_encode_native' % nd)
    # R05.2 lengths handed to writers of the caller's buffer
    writers = {'opus_encode_frame_native': (3, 4), 'opus_packet_pad': (0, 2), 'opus_repacketizer_out_range_impl': (3, 4), 'opus_packet_pad_impl': (0, 2)}
    nw = 0
    for b, i, n in base_cf.find(lambda n: n[0] == 'call' and sx.callee_name(n) in writers):
        di, li = writers[sx.callee_name(n)]
        darg = sx.strip(n[2][di])
        if not (sx.kind(darg) == 'param' and darg[1] == pd):
            # a local scratch packet, not the caller's buffer: the budget relation does not apply, but the frame encoder's own
            # precondition does - a frame is at most 1275 bytes plus its TOC, whatever buffer it is written to
            if sx.callee_name(n) == 'opus_encode_frame_native':
                sts = states_before(b, i, n)
                lo_len, hi_len = absint.INF, -absint.INF
                for q, st in sts:
                    lv = an.ev(n[2][li], st)
                    lo_len, hi_len = min(lo_len, absint.lo(lv)), max(hi_len, absint.hi(lv))
                if sts:
                    ok = hi_len <= 1276
                    (rep.holds if ok else rep.violated)('R05.2', '%s:opus_encode_native never asks the frame encoder for more than 1276 bytes (scratch-buffer call, len=%s)' % (prog.config, sx.show(n[2][li])[:24]),
                                                        '%s:%s' % (f.file, sx.line(n)), 'value in [%s,%s]%s' % (lo_len, hi_len, '' if ok else
                                                        ': a sub-frame budget above 1276 lets a hybrid frame with its redundancy exceed 1275 bytes, which the repacketizer rejects - the call fails with OPUS_INTERNAL_ERROR'),
                                                        **({} if ok else {'key': 'native:frame-precondition-scratch'}))
            continue
        nw += 1
        larg = n[2][li]
        where = '%s:%s' % (f.file, sx.line(n))
        inst = '%s:opus_encode_native -> %s(data, len=%s)' % (prog.config, sx.callee_name(n), sx.show(larg)[:24])
        sts = states_before(b, i, n)
        worst = None
        lo_len, hi_len = absint.INF, -absint.INF
        for q, st in sts:
            d = an._diff_of(po, larg, st)
            if d is None or absint.lo(d) < 0:
                worst = (q, d)
            lv = an.ev(larg, st)
            lo_len, hi_len = min(lo_len, absint.lo(lv)), max(hi_len, absint.hi(lv))
        if not sts:
            rep.holds('R05.2', inst, where, 'unreachable')
        elif worst is None:
            rep.holds('R05.2', inst, where, 'out_data_bytes - len >= 0 in every feasible partition')
        else:
            rep.violated('R05.2', inst, where, 'cannot show len <= out_data_bytes: out_data_bytes - len in %s' % (absint.show(worst[1]) if worst[1] else 'unknown'), key='native:%s:%s' % (sx.callee_name(n), sx.show(larg)[:20]))
        if sx.callee_name(n) == 'opus_encode_frame_native' and sts:
            ok = lo_len >= 1 and hi_len <= 1276
            (rep.holds if ok else rep.violated)('R05.2', '%s:opus_encode_native passes 1 <= max_data_bytes <= 1276 to the frame encoder' % prog.config, where,
                                                'value in [%s,%s]' % (lo_len, hi_len), **({} if ok else {'key': 'native:frame-precondition'}))
    if nw < 3:
        rep.unresolved('R05.2', 'only %d writer calls on the caller buffer found in opus_encode_native' % nw)
    # the cap itself
    caps = [n for n in f.all_nodes() if n[0] == 'assign' and sx.key(n[1]) == mx and an._minmax_rel(n[2]) == ('min', 1276, po)]
    (rep.holds if caps else rep.violated)('R05.2', '%s:opus_encode_native caps max_data_bytes at IMIN(1276, out_data_bytes)' % prog.config, f.where(),
                                          None if caps else 'cap statement not found', **({} if caps else {'key': 'native:cap'}))
    T.t_err(rep, 'R05.2', prog, f, {'opus_packet_pad', 'opus_repacketizer_out_range_impl', 'opus_repacketizer_cat', 'opus_encode_frame_native'}, {}, prog.config + ':')


def r05_frame(rep, prog):
    f = prog.fn('opus_encode_frame_native')
    rep.functions.add(f.name)
    pd = ('param', f.param_index('data'))
    mx = ('param', f.param_index('max_data_bytes'))
    an = absint.Analyzer(prog, f, entry_state={mx: absint.mk(1, 1276), pd: absint.const(0)})
    cf = an.cf
    nd = 0
    for b, i, n in cf.find(lambda n: n[0] in ('assign', 'cassign')):
        lv = sx.strip_paren(n[1] if n[0] == 'assign' else n[2])
        if sx.kind(lv) != 'idx' or sx.key(sx.strip(lv[1])) != pd:
            continue
        nd += 1
        st = an.state_before_node(b, i, n)
        where = '%s:%s' % (f.file, sx.line(n))
        inst = '%s:opus_encode_frame_native `%s`' % (prog.config, sx.show(n)[:44])
        if st is None:
            rep.holds('R05.1', inst, where, 'unreachable')
            continue
        off = an.ev(['param', pd[1], 'data'], st)
        k = an.ev(lv[2], st)
        absidx = absint.add(off, k)
        m = an.ev(['param', mx[1], 'max_data_bytes'], st)
        if absint.is_top(off):
            rep.unresolved('R05.1', 'buffer pointer offset unknown at %s' % sx.show(n), where)
        elif absint.lo(absidx) >= 0 and absint.hi(absidx) < absint.lo(m):
            rep.holds('R05.1', inst, where, 'byte offset %s < max_data_bytes %s' % (absint.show(absidx), absint.show(m)))
        else:
            rep.violated('R05.1', inst, where, 'byte offset %s but max_data_bytes may be %s' % (absint.show(absidx), absint.show(m)), key='frame:%s' % sx.show(lv))
    if nd < 3:
        rep.unresolved('R05.1', 'only %d direct packet stores found in opus_encode_frame_native' % nd)
    # coder gets exactly max_data_bytes-1 at data+1
    inits = T.calls_to(cf, 'ec_enc_init')
    for b, i, n in inits:
        st = an.state_before_node(b, i, n)
        off = an.ev(n[2][1], st) if st is not None else absint.TOP
        d = an._diff_of(mx, n[2][2], st) if st is not None else None
        ok = sx.key(sx.strip(n[2][1])) == pd and off == absint.const(1) and d == absint.const(1)
        (rep.holds if ok else rep.violated)('R05.2', '%s:opus_encode_frame_native range coder gets max_data_bytes-1 bytes at data+1' % prog.config, '%s:%s' % (f.file, sx.line(n)),
                                            'offset %s, max_data_bytes - size = %s' % (absint.show(off), absint.show(d) if d else '?'), **({} if ok else {'key': 'frame:ec_enc_init'}))
    if len(inits) != 1:
        rep.unresolved('R05.2', 'expected one ec_enc_init in opus_encode_frame_native')
    for b, i, n in T.calls_to(cf, ('opus_packet_pad', 'opus_packet_pad_impl')):
        st = an.state_before_node(b, i, n)
        off = an.ev(n[2][0], st) if st is not None else absint.TOP
        d = an._diff_of(mx, n[2][2], st) if st is not None else None
        ok = off == absint.const(0) and d is not None and absint.lo(d) >= 0
        (rep.holds if ok else rep.violated)('R05.2', '%s:opus_encode_frame_native pads to at most max_data_bytes (%s)' % (prog.config, sx.callee_name(n)), '%s:%s' % (f.file, sx.line(n)),
                                            'offset %s, max_data_bytes - new_len in %s' % (absint.show(off), absint.show(d) if d else '?'), **({} if ok else {'key': 'frame:pad'}))
    def prefill(f_, call):
        # celt_encode_with_ec(..., dummy, 2, NULL): output goes to a 2-byte local scratch array
        if sx.callee_name(call) == 'celt_encode_with_ec' and len(call[2]) >= 5:
            a = sx.strip(call[2][3])
            if sx.kind(a) == 'local' and f_.locals.get(a[2], {}).get('dim') in (2, '2') and sx.int_val(call[2][4]) == 2:
                return 'prefill call: output goes to a 2-byte local scratch array and is discarded; failure cannot affect the packet'
        return None
    T.t_err(rep, 'R05.2', prog, f, {'opus_packet_pad', 'opus_packet_pad_impl', 'celt_encode_with_ec'}, {}, prog.config + ':', ignore=prefill)


def r05_3(rep, prog):
    f = prog.fn('opus_multistream_encode_native')
    rep.functions.add(f.name)
    cf = cfgm.CFG(f)
    tmp = [l for l in f.locals.values() if l['name'] == 'tmp_data']
    if len(tmp) != 1 or 'dim' not in tmp[0]:
        rep.unresolved('R05.3', 'scratch packet tmp_data not found')
        return
    dim = int(tmp[0]['dim'])
    cm = local_key(f, 'curr_max')
    an = absint.Analyzer(prog, f)
    for b, i, n in T.calls_to(cf, 'opus_encode_native'):
        st = an.state_before_node(b, i, n)
        v = an.ev(n[2][4], st) if st is not None else absint.TOP
        ok = sx.kind(sx.strip(n[2][3])) == 'local' and sx.strip(n[2][3])[1] == 'tmp_data' and absint.hi(v) <= dim
        (rep.holds if ok else rep.violated)('R05.3', '%s:multistream per-stream budget <= sizeof(tmp_data)=%d' % (prog.config, dim), '%s:%s' % (f.file, sx.line(n)),
                                            'curr_max in %s' % absint.show(v), **({} if ok else {'key': 'ms:clamp'}))
    pdata = ('param', f.param_index('data'))
    pmax = ('param', f.param_index('max_data_bytes'))
    tot = local_key(f, 'tot_size')
    for b, i, n in T.calls_to(cf, 'opus_repacketizer_out_range_impl'):
        ok = sx.key(sx.strip(n[2][3])) == pdata and sx.key(sx.strip(n[2][4])) == ('bin', '-', pmax, tot)
        (rep.holds if ok else rep.violated)('R05.3', '%s:multistream repacketizer gets exactly the remaining bytes' % prog.config, '%s:%s' % (f.file, sx.line(n)),
                                            'maxlen = %s' % sx.show(n[2][4]), **({} if ok else {'key': 'ms:maxlen'}))
    # data and tot_size advance by the same amount in the same block
    adv_d = [(b, sx.key(sx.strip(n[3]))) for b, i, n in cf.find(lambda n: n[0] == 'cassign' and n[1] == '+' and sx.key(n[2]) == pdata)]
    adv_t = [(b, sx.key(sx.strip(n[3]))) for b, i, n in cf.find(lambda n: n[0] == 'cassign' and n[1] == '+' and sx.key(n[2]) == tot)]
    ok = bool(adv_d) and sorted(adv_d) == sorted(adv_t)
    (rep.holds if ok else rep.violated)('R05.3', '%s:multistream data and tot_size advance together' % prog.config, f.where(), '%d paired updates' % len(adv_d) if ok else 'data += %s vs tot_size += %s' % (adv_d, adv_t), **({} if ok else {'key': 'ms:advance'}))
    # smallest-packet guard dominates the stream loop
    sinks = T.calls_to(cf, 'opus_encode_native')
    known = [a for a, gb in guards.facts_at(cf, sinks[0][0])] if sinks else []
    ok = any(a[0] == '<=' and a[2] == pmax and a[1][0] == 'local' for a in known)
    (rep.holds if ok else rep.violated)('R05.3', '%s:multistream rejects buffers below the smallest possible packet' % prog.config, f.where(),
                                        [T.show_atom(a) for a in known][:4], **({} if ok else {'key': 'ms:smallest'}))
    T.t_err(rep, 'R05.3', prog, f, {'opus_encode_native', 'opus_repacketizer_cat', 'opus_repacketizer_out_range_impl'},
            {('opus_multistream_encode_native', 'opus_repacketizer_out_range_impl', '*'):
             'stated belief: the per-stream reservation (1-2 bytes for the self-delimiting length, one extra per stream for 100 ms) makes failure impossible; no failing input is known. The reservation arithmetic itself is not decided here.'},
            prog.config + ':')


def r05_4(rep, prog):
    found = {}
    for fname, lname in (('silk_encode_frame_FLP', 'ec_buf_copy'), ('silk_encode_frame_FIX', 'ec_buf_copy'), ('quant_all_bands', 'bytes_save')):
        if not prog.has_fn(fname):
            continue
        f = prog.fn(fname)
        for l in f.locals.values():
            if l['name'] == lname and 'dim' in l:
                found[(fname, lname)] = int(l['dim'])
    celt_cap = None
    if prog.has_fn('celt_encode_with_ec'):
        f = prog.fn('celt_encode_with_ec')
        an = absint.Analyzer.__new__(absint.Analyzer)
        an.f = f
        for n in f.all_nodes():
            if n[0] == 'assign' and sx.kind(n[1]) == 'param' and n[1][2] == 'nbCompressedBytes':
                e = sx.strip(n[2])
                if sx.kind(e) == 'cond':
                    vals = [sx.int_val(e[2]), sx.int_val(e[3])]
                    vals = [v for v in vals if v is not None]
                    if vals and celt_cap is None:
                        celt_cap = vals[0]
    opus_cap = None
    f = prog.fn('opus_encode_native')
    for n in f.all_nodes():
        if n[0] == 'assign' and sx.kind(n[1]) == 'local' and n[1][1] == 'max_data_bytes':
            e = sx.strip(n[2])
            if sx.kind(e) == 'cond' and opus_cap is None:
                vals = [v for v in (sx.int_val(e[2]), sx.int_val(e[3])) if v is not None]
                if vals:
                    opus_cap = vals[0]
    if not found or celt_cap is None or opus_cap is None:
        rep.unresolved('R05.4', 'scratch arrays / caps not found: %s celt=%s opus=%s' % (found, celt_cap, opus_cap))
        return
    for (fname, lname), dim in sorted(found.items()):
        ok = dim >= celt_cap and dim >= opus_cap - 1
        (rep.holds if ok else rep.violated)('R05.4', '%s:%s.%s[%d] holds a full coder buffer' % (prog.config, fname, lname, dim), prog.fn(fname).where(),
                                            'CELT cap %d, Opus cap %d-1' % (celt_cap, opus_cap), **({} if ok else {'key': 'scratch:%s' % fname}))
    ok = celt_cap == opus_cap - 1
    (rep.holds if ok else rep.violated)('R05.4', '%s:CELT byte cap = Opus cap - 1 (TOC byte)' % prog.config, None, 'celt %d opus %d' % (celt_cap, opus_cap), **({} if ok else {'key': 'caps'}))


def _reads_only_use_vbr(e):
    """the expression reads no encoder state other than st->use_vbr (and reads it)"""
    flds = [n for n in sx.walk(e) if sx.kind(n) == 'field']
    return bool(flds) and all(n[3] == 'use_vbr' or (n[3] in ('silk_mode',)) and False for n in flds)


def r05_5(rep, prog):
    """CBR padding is keyed on the user's VBR setting.  (a) every pad-to-limit
    action of the Opus encoder is controlled by `!st->use_vbr` (directly, or
    through a local whose every definition is 0 or reads only use_vbr);
    (b) the per-frame mirror silk_mode.useCBR is read in the Opus layer only
    after being re-derived in the same function (it is deliberately cleared
    for hybrid frames, so a stale read decides CBR padding from history)."""
    for fname in ('opus_encode_native', 'opus_encode_frame_native'):
        f = prog.fn(fname)
        rep.functions.add(fname)
        cf = cfgm.CFG(f)
        for b, i, n in T.calls_to(cf, ('opus_packet_pad',)):
            where = '%s:%s' % (f.file, sx.line(n))
            inst = '%s:%s pads to the limit only when VBR is off' % (prog.config, fname)
            ok = False
            seen = []
            for cond, pol, gb in cfgm.guards_of(cf, b):
                if cond is None or pol is None:
                    continue
                c = sx.strip(cond)
                neg = False
                while sx.kind(c) == 'un' and c[1] == '!':
                    neg = not neg
                    c = sx.strip(c[2])
                seen.append(sx.show(cond)[:40])
                # direct: !st->use_vbr taken true  /  st->use_vbr taken false
                if sx.kind(c) == 'field' and c[3] == 'use_vbr' and c[2] == 'OpusEncoder' and (pol != neg) is False:
                    ok = True
                if sx.kind(c) == 'local' and pol and not neg:
                    defs = []
                    for m in f.all_nodes():
                        if m[0] == 'assign' and sx.kind(m[1]) == 'local' and m[1][2] == c[2]:
                            defs.append(m[2])
                        if m[0] == 'decls':
                            defs += [d[3] for d in m[1] if d[0] == 'decl' and d[2] == c[2] and d[3] is not None]
                    good = [d for d in defs if sx.int_val(d) == 0 or (sx.kind(sx.strip(d)) == 'un' and sx.strip(d)[1] == '!' and _reads_only_use_vbr(d))]
                    if defs and len(good) == len(defs) and any(sx.int_val(d) is None for d in defs):
                        ok = True
            if ok:
                rep.holds('R05.5', inst, where, 'controlled by %s' % seen[:3])
            else:
                rep.violated('R05.5', inst, where, 'the call is not controlled by !st->use_vbr (controlling conditions: %s)' % seen[:4], key='%s:pad-guard' % fname)
    # (b) reads of the mirror in src/ functions
    nreads = 0
    for f in prog.functions_all:
        if not f.file.startswith('src/'):
            continue
        cf = None
        reads = []
        for n in f.all_nodes():
            if sx.kind(n) == 'field' and n[3] == 'useCBR' and sx.kind(sx.strip(n[1])) == 'field' and sx.strip(n[1])[3] == 'silk_mode':
                reads.append(n)
        if not reads:
            continue
        cf = cfgm.CFG(f)
        store_ids = set()
        store_pos = []
        for b, i, m in cf.find(lambda m: m[0] == 'assign'):
            lv = sx.strip_paren(m[1])
            if sx.kind(lv) == 'field' and lv[3] == 'useCBR':
                store_ids.add(id(lv))
                store_pos.append((b, i))
        for b, i, m in cf.find(lambda m: sx.kind(m) == 'field' and m[3] == 'useCBR'):
            if id(m) in store_ids:
                continue
            nreads += 1
            where = '%s:%s' % (f.file, sx.line(m) or f.line)
            inst = '%s:%s reads silk_mode.useCBR only after re-deriving it' % (prog.config, f.name)
            if any(cf.pos_dominates(sp, (b, i)) and sp != (b, i) for sp in store_pos):
                rep.holds('R05.5', inst, where, 'dominated by an assignment in the same function')
            else:
                rep.violated('R05.5', inst, where, 'silk_mode.useCBR is a per-frame mirror of !use_vbr (cleared for hybrid frames); this read sees the value left by an earlier frame',
                             key='%s:stale-useCBR' % f.name)
    if not nreads:
        rep.holds('R05.5', '%s:silk_mode.useCBR is not read by the Opus layer' % prog.config, None, None)


def r05_6(rep, prog):
    """OPUS_BITRATE_MAX fills the buffer: the rate derived from max_data_bytes
    converts back to at least max_data_bytes CBR bytes for every legal
    (Fs, frame duration).  The two conversion expressions are taken from the
    source (the BITRATE_MAX return of user_bitrate_to_bitrate and the cbr_bytes
    computation of opus_encode_native) and evaluated over their whole finite
    domain - value-set analysis partitioned per (Fs, duration, max_data_bytes)."""
    u = prog.fn('user_bitrate_to_bitrate')
    n = prog.fn('opus_encode_native')
    rep.functions.update({u.name, n.name})
    cu = cfgm.CFG(u)
    pm, pf = u.param_index('max_data_bytes'), u.param_index('frame_size')
    rets = [(b, s) for b, i, s in T.returns_of(cu) if s[1] is not None and decide.mentions(s[1], lambda x: sx.key(x) == ('param', pm))]
    if len(rets) != 1 or pm is None or pf is None:
        rep.unresolved('R05.6', 'user_bitrate_to_bitrate: expected one return depending on max_data_bytes, found %d' % len(rets), u.where())
        return
    rb, rs = rets[0]
    facts = [a for a, gb in guards.facts_at(cu, rb)]
    if not any(a[0] == '==' and a[2] == ('int', -1) and isinstance(a[1], tuple) and a[1][0] == 'field' and a[1][2] == 'user_bitrate_bps' for a in facts):
        rep.unresolved('R05.6', 'the max_data_bytes-dependent return is not the OPUS_BITRATE_MAX arm (facts %s)' % [T.show_atom(a) for a in facts], u.where())
        return
    e_rate = rs[1]
    fr12 = decide.find_assign(n, 'frame_rate12')
    cbr = decide.find_assign(n, 'cbr_bytes', lambda e: sx.int_val(e) is None)
    if len(fr12) != 1 or len(cbr) != 1:
        rep.unresolved('R05.6', 'opus_encode_native: frame_rate12 / cbr_bytes definitions not found (%d, %d)' % (len(fr12), len(cbr)), n.where())
        return
    mm = T_minmax(cbr[0][1])
    pmax = n.param_index('max_data_bytes')
    locmax = [l for l in n.locals.values() if l['name'] == 'max_data_bytes']
    if not mm or mm[0] != 'min':
        rep.unresolved('R05.6', 'cbr_bytes is not IMIN(bytes(rate), max_data_bytes): %s' % sx.show(cbr[0][1])[:80], n.where())
        return
    e_bytes = mm[1] if decide.mentions(mm[1], lambda x: sx.kind(x) == 'field' and x[3] == 'bitrate_bps') else mm[2]
    kFs_u = ('field', ('param', 0), 'Fs')
    kfr12 = sx.key(fr12[0][0])
    kbr = ('field', ('param', 0), 'bitrate_bps')
    pfn = n.param_index('frame_size')
    bad = None
    cases = 0
    durations_400 = (1, 2, 4, 8, 16, 24, 32, 40, 48)     # 2.5 .. 120 ms in units of Fs/400
    for Fs in (8000, 12000, 16000, 24000, 48000):
        for d in durations_400:
            fs_ = Fs * d // 400
            f12 = decide.ev3(fr12[0][1], {kFs_u: Fs, ('param', pfn): fs_})
            if not f12:
                rep.unresolved('R05.6', 'cannot evaluate frame_rate12 for Fs=%d frame_size=%d' % (Fs, fs_))
                return
            for m in range(1, 1277):
                cases += 1
                vr = {kFs_u: Fs, ('param', pf): fs_, ('param', pm): m}

                def resu(x, vr=vr, depth=[0]):
                    # single-definition locals of user_bitrate_to_bitrate (a cached frame rate, ...) are evaluated through their definition
                    if sx.kind(x) == 'local' and depth[0] < 6:
                        ds = decide.find_assign(u, x[1])
                        if len(ds) == 1:
                            depth[0] += 1
                            try:
                                return decide.ev3(ds[0][1], vr, resu)
                            finally:
                                depth[0] -= 1
                    return None
                rate = decide.ev3(e_rate, vr, resu)
                if rate is None:
                    rep.unresolved('R05.6', 'cannot evaluate the BITRATE_MAX rate expression `%s`' % sx.show(e_rate))
                    return
                by = decide.ev3(e_bytes, {kbr: rate, kfr12: f12})
                if by is None:
                    rep.unresolved('R05.6', 'cannot evaluate the cbr_bytes expression `%s`' % sx.show(e_bytes)[:80])
                    return
                if by < m and bad is None:
                    bad = (Fs, fs_, m, rate, by)
    where = '%s:%s' % (u.file, sx.line(rs))
    inst = '%s:OPUS_BITRATE_MAX rate converts back to >= max_data_bytes CBR bytes' % prog.config
    if bad:
        rep.violated('R05.6', inst, where, 'Fs=%d frame_size=%d max_data_bytes=%d: rate `%s` = %d gives cbr_bytes %d < %d - the packet does not fill the buffer' %
                     (bad[0], bad[1], bad[2], sx.show(e_rate), bad[3], bad[4], bad[2]), key='bitrate-max-roundtrip')
    else:
        rep.holds('R05.6', inst, where, 'all %d (Fs, duration, max_data_bytes) partitions: bytes(rate(m)) >= m' % cases, n=cases)


def T_minmax(e):
    e = sx.strip(e)
    if sx.kind(e) != 'cond':
        return None
    c = sx.strip(e[1])
    if sx.kind(c) != 'bin' or c[1] not in ('<', '>', '<=', '>='):
        return None
    a, b = sx.key(sx.strip(c[2])), sx.key(sx.strip(c[3]))
    x, y = sx.key(sx.strip(e[2])), sx.key(sx.strip(e[3]))
    if (x, y) == (a, b):
        return ('min' if c[1] in ('<', '<=') else 'max', sx.strip(c[2]), sx.strip(c[3]))
    if (x, y) == (b, a):
        return ('max' if c[1] in ('<', '<=') else 'min', sx.strip(c[2]), sx.strip(c[3]))
    return None


# ------------------------------------------------------------------ R05.7
class _NonPoly(Exception):
    pass


def _rate_identity(prog, g):
    """Sum over streams of rate[i] as a polynomial; returns (ok, detail)"""
    from ..poly import Poly
    cg = cfgm.CFG(g)
    rds = {}
    ratios = {}
    names = {}

    def rd(lid):
        if lid not in rds:
            rds[lid] = cfgm.reaching_defs(cg, lid)
        return rds[lid]

    def local_poly(e, pos):
        lid = e[2]
        cur, defs = cfgm.defs_at(cg, lid, pos[0], pos[1], rd(lid))
        if len(cur) == 1:
            d = next(iter(cur))
            db, di, dn = defs[d]
            if dn[0] == 'assign':
                rhs = sx.strip(dn[2])
                if sx.kind(rhs) == 'bin' and rhs[1] == '/':
                    try:
                        A, B = conv(rhs[2], (db, di)), conv(rhs[3], (db, di))
                        nm = '%s#%d' % (e[1], len(ratios))
                        for k, v in ratios.items():
                            if v[2] == d:
                                return Poly.sym(k)
                        ratios[nm] = (A, B, d)
                        names[nm] = e[1]
                        return Poly.sym(nm)
                    except _NonPoly:
                        pass
                else:
                    try:
                        return conv(rhs, (db, di))
                    except _NonPoly:
                        pass
        nm = '%s@%s' % (e[1], '.'.join(str(defs[d][0] * 1000 + defs[d][1]) for d in sorted(cur, key=lambda d: (defs[d][0], defs[d][1]))))
        names[nm] = e[1]
        return Poly.sym(nm)

    def conv(e, pos):
        e = sx.strip(e)
        k = sx.kind(e)
        iv = sx.int_val(e)
        if iv is not None:
            return Poly.const(iv)
        if k == 'local':
            return local_poly(e, pos)
        if k == 'param':
            return Poly.sym(e[2] if isinstance(e[2], str) else str(e[1]))
        if k in ('arrow', 'field', 'member'):
            nm = sx.show(e)
            return Poly.sym(nm)
        if k == 'bin':
            op = e[1]
            if op in ('+', '-', '*'):
                a, b = conv(e[2], pos), conv(e[3], pos)
                return a + b if op == '+' else a - b if op == '-' else a * b
            if op in ('<<', '>>'):
                sh = sx.int_val(e[3])
                if sh is None:
                    raise _NonPoly(sx.show(e))
                a = conv(e[2], pos)
                return a.scale(2 ** sh) if op == '<<' else a.scale(Fraction(1, 2 ** sh))
            if op == '/':
                b = conv(e[3], pos)
                if b.is_const() and b.const_value() != 0:
                    return conv(e[2], pos).scale(1 / b.const_value())
            raise _NonPoly(sx.show(e))
        if k == 'cond':
            mm = T_minmax(e)
            if mm and mm[0] == 'max' and 0 in (sx.int_val(mm[1]), sx.int_val(mm[2])):
                return conv(mm[2] if sx.int_val(mm[1]) == 0 else mm[1], pos)
        raise _NonPoly(sx.show(e))

    from fractions import Fraction
    # the per-stream loop and the stores into rate[i]
    rate_p = [p for p in g.params if p['name'] == 'rate']
    stores = []
    for b, i, s_ in cg.positions():
        if s_[0] == 'assign' and sx.kind(sx.strip(s_[1])) == 'idx' and sx.kind(sx.strip(sx.strip(s_[1])[1])) == 'param' and 'rate' in sx.strip(sx.strip(s_[1])[1]):
            stores.append((b, i, s_))
    if not stores:
        return None, 'no store into rate[]'
    loops = cg.natural_loops()
    total = Poly()
    classes = []
    lfe_sym = None
    for n in g.all_nodes():
        if sx.kind(n) == 'bin' and n[1] == '!=' and 'lfe_stream' in sx.show(n[2]) and sx.int_val(n[3]) == -1:
            lfe_sym = n
    for b, i, s_ in stores:
        L = [x for x in loops if b in x[2]]
        if not L:
            return None, 'store into rate[] outside a loop'
        head, latch, body = min(L, key=lambda x: len(x[2]))
        hc = cg.cond(head)
        hcs = sx.strip(hc) if hc is not None else None
        if hcs is None or sx.kind(hcs) != 'bin' or hcs[1] != '<':
            return None, 'per-stream loop condition not of the form i < N'
        ctr = sx.key(sx.strip(hcs[2]))
        gs = [(c, pol) for c, pol, gb in cfgm.guards_of(cg, b) if gb in body and gb != head]
        gs = list(reversed(gs))
        try:
            N = conv(hcs[3], (head, 0))
            def lfe_count():
                if lfe_sym is None:
                    return Poly.sym('has_lfe')
                return conv_lfe()
            def conv_lfe():
                # the local whose definition is (st->lfe_stream != -1), else an opaque symbol of that text
                for l in g.locals.values():
                    for lv, r in decide.find_assign(g, l['name']):
                        if sx.key(sx.strip(r)) == sx.key(sx.strip(lfe_sym)):
                            return local_poly(['local', l['name'], l['id']], (b, i))
                return Poly.sym(sx.show(lfe_sym))
            shape = [(sx.strip(c)[1], pol, sx.key(sx.strip(sx.strip(c)[2])) == ctr) for c, pol in gs if sx.kind(sx.strip(c)) == 'bin']
            if not gs:
                count = N
            elif shape == [('<', True, True)]:
                count = conv(sx.strip(gs[0][0])[3], (b, i))
            elif shape == [('<', False, True), ('!=', True, True)] and 'lfe_stream' in sx.show(gs[1][0]):
                count = N - conv(sx.strip(gs[0][0])[3], (b, i)) - lfe_count()
            elif shape == [('<', False, True), ('!=', False, True)] and 'lfe_stream' in sx.show(gs[1][0]):
                count = lfe_count()
            else:
                return None, 'stream class guarded by `%s` is not one of coupled / mono / LFE' % ' && '.join(sx.show(c) for c, pol in gs)
            val = conv(s_[2], (b, i))
        except _NonPoly as ex:
            return None, 'not polynomial: %s' % ex
        classes.append((sx.line(s_), count, val))
        total = total + count * val
    # eliminate the ratio symbols:  r = A/B  and  total = r*P1 + P0  with  P1 = q*B   gives  q*A + P0
    for nm, (A, B, d) in list(ratios.items()):
        sp = total.coeff_of(nm)
        if sp is None:
            return None, '%s occurs non-linearly' % names[nm]
        P1, P0 = sp
        if P1.is_zero():
            continue
        q = P1.ratio_to(B)
        if q is None:
            return False, 'the streams share %s = (...)/(%s) with total weight %s, which is not a multiple of its divisor' % (names[nm], B, P1)
        total = P0 + A.scale(q)
    # the requested total: the local that takes st->bitrate_bps
    target = None
    for l in g.locals.values():
        for lv, r in decide.find_assign(g, l['name']):
            if sx.kind(sx.strip(r)) in ('arrow', 'field', 'member') and 'bitrate_bps' in sx.show(r):
                target = l
    if target is None:
        return None, 'no local takes st->bitrate_bps'
    tp = local_poly(['local', target['name'], target['id']], (stores[0][0], stores[0][1]))
    diff = total - tp

    def pretty(p):
        t = repr(p)
        for nm, n0 in names.items():
            t = t.replace(nm, n0)
        return t
    if diff.is_zero():
        return True, '%d stream class(es), sum of rate[i] == %s identically (clamps at zero and integer rounding aside)' % (len(classes), target['name'])
    return False, 'sum of rate[i] - %s = %s  (should vanish identically)' % (target['name'], pretty(diff))


def r05_7(rep, prog):
    """the multistream encoder's per-stream split hands out exactly the requested total"""
    n = 0
    for g in prog.functions_all:
        if not g.file.endswith('opus_multistream_encoder.c') or not g.static:
            continue
        if not any(p['name'] == 'rate' and '*' in p['type'] for p in g.params):
            continue
        if not any(sx.kind(x) in ('arrow', 'field', 'member') and 'bitrate_bps' in sx.show(x) for x in g.all_nodes()):
            continue
        rep.functions.add(g.name)
        ok, detail = _rate_identity(prog, g)
        inst = '%s:%s splits the requested bitrate over the streams without gain or loss' % (prog.config, g.name)
        n += 1
        if ok is None:
            rep.unresolved('R05.7', inst + ': ' + detail)
        elif ok:
            rep.holds('R05.7', inst, g.where(), detail)
        else:
            rep.violated('R05.7', inst, g.where(), detail, key=g.name + ':split')
    return n


# ------------------------------------------------------------------ R05.8
def r05_8(rep, prog):
    """the CELT layer is one object shared by the hybrid and the MDCT-only mode.  Whatever rate-control request the
    hybrid arm of the frame encoder issues on it with its own value (OPUS_SET_VBR_CONSTRAINT(0), OPUS_SET_BITRATE(...))
    the MDCT-only arm must issue too, otherwise the value left by a hybrid frame governs later MDCT-only frames
    (unconstrained VBR after any hybrid frame: the constrained-VBR rate bound no longer holds)."""
    f = prog.fn('opus_encode_frame_native')
    cf = cfgm.CFG(f)
    rep.functions.add(f.name)
    # the branch on  st->mode == MODE_HYBRID  whose both arms configure the CELT encoder
    n = 0
    for b in sorted(cf.blocks):
        c = cf.cond(b)
        if c is None:
            continue
        at = guards.atoms(c, True)
        if not (len(at) == 1 and at[0][0] == '==' and isinstance(at[0][1], tuple) and at[0][1][0] == 'field' and at[0][1][2] == 'mode' and at[0][2] == ('int', 1001)):
            continue
        es = dict((pol, s2) for s2, pol in cf.edges(b))
        if True not in es or False not in es:
            continue
        join = cf.ipdom.get(b) if hasattr(cf, 'ipdom') else None

        def reqs(start, other):
            seen, work, out = set(), [start], {}
            stop = cf.reachable_from(other) | {other}
            while work:
                x = work.pop()
                if x in seen or (x in stop and x != start):
                    continue
                seen.add(x)
                for st_ in cf.blocks[x]['stmts']:
                    for y in sx.walk(st_):
                        if sx.kind(y) == 'call' and sx.callee_name(y) == 'opus_custom_encoder_ctl' or (sx.kind(y) == 'call' and sx.callee_name(y) == 'celt_encoder_ctl'):
                            r = y[2][1] if len(y[2]) > 1 else None
                            m = sx.macros(r) if r is not None else []
                            nm = (m[0] if m else None) or str(sx.int_val(r))
                            out[nm] = sx.line(y)
                work += cf.succ[x]
            return out
        hy, ce = reqs(es[True], es[False]), reqs(es[False], es[True])
        if not hy or not ce:
            continue
        n += 1
        missing = sorted(set(hy) - set(ce))
        inst = '%s:opus_encode_frame_native re-issues in the MDCT-only arm every CELT request the hybrid arm sets' % prog.config
        where = '%s:%s' % (f.file, cf.blocks[b]['term'].get('l'))
        if missing:
            rep.violated('R05.8', inst, where, 'the hybrid arm issues %s (line %s) on the shared CELT encoder, the MDCT-only arm does not: the hybrid value stays in force for later MDCT-only frames' % (
                missing, hy[missing[0]]), key='celt-config:%s' % missing[0])
        else:
            rep.holds('R05.8', inst, where, 'hybrid arm %s, MDCT-only arm %s' % (sorted(hy), sorted(ce)))
    return n


# ------------------------------------------------------------------ R05.9
def r05_9(rep, prog):
    """the multistream encoder turns its total bitrate into CBR bytes with the same rounding as the single-stream
    encoder (round to nearest, not floor): both conversion expressions are taken from the source and evaluated for
    every frame duration over two full periods of the divisor."""
    if not prog.has_fn('opus_multistream_encode_native'):
        return 0
    n_ = prog.fn('opus_encode_native')
    m_ = prog.fn('opus_multistream_encode_native')
    rep.functions.update({n_.name, m_.name})
    fr12 = decide.find_assign(n_, 'frame_rate12')
    cbr = decide.find_assign(n_, 'cbr_bytes', lambda e: sx.int_val(e) is None)
    if len(fr12) != 1 or len(cbr) != 1:
        rep.unresolved('R05.9', 'single-stream cbr_bytes definition not found')
        return 0
    mm = T_minmax(cbr[0][1])
    e_single = mm[1] if decide.mentions(mm[1], lambda x: sx.kind(x) == 'field' and x[3] == 'bitrate_bps') else mm[2]
    # multistream: max_data_bytes = IMIN(max_data_bytes, E) under !vbr
    pmax = m_.param_index('max_data_bytes')
    exprs = []
    for nn in m_.all_nodes():
        if not (nn[0] == 'assign' and sx.key(sx.strip(nn[1])) == ('param', pmax)):
            continue
        r = nn[2]
        mm2 = T_minmax(r)
        if mm2 and mm2[0] == 'min':
            e = mm2[2] if sx.key(mm2[1]) == ('param', pmax) else mm2[1]
            mm3 = T_minmax(e)
            if mm3 and mm3[0] == 'max':
                e = mm3[2] if decide.mentions(mm3[2], lambda x: sx.kind(x) == 'bin' and x[1] == '/') else mm3[1]
            if decide.mentions(e, lambda x: sx.kind(x) == 'bin' and x[1] == '/'):
                exprs.append(e)
    if not exprs:
        rep.unresolved('R05.9', 'multistream CBR byte expressions not found')
        return 0
    kFs = ('field', ('param', 0), 'Fs')
    kbr = ('field', ('param', 0), 'bitrate_bps')
    pfn = n_.param_index('frame_size')
    pfm = m_.param_index('frame_size') if m_.param_index('frame_size') is not None else None
    n = 0
    for e in exprs:
        n += 1
        # the rate operand of the multistream expression: a local (rate_sum) or st->bitrate_bps
        rate_keys = {sx.key(x) for x in sx.walk(e) if (sx.kind(x) == 'local' and x[1] in ('rate_sum',)) or (sx.kind(x) == 'field' and x[3] == 'bitrate_bps')}
        fs_keys = {sx.key(x) for x in sx.walk(e) if sx.kind(x) == 'local' and x[1] == 'frame_size'} | ({('param', pfm)} if pfm is not None else set())
        Fs_keys = {sx.key(x) for x in sx.walk(e) if sx.kind(x) == 'local' and x[1] == 'Fs'}
        bad = None
        cases = 0
        for Fs in (48000, 16000):
            for d in (1, 2, 4, 8, 16, 24, 32, 40, 48):
                fs_ = Fs * d // 400
                f12 = decide.ev3(fr12[0][1], {kFs: Fs, ('param', pfn): fs_})
                D = 2 * f12
                for b in range(6000, 6000 + 2 * D + 1):
                    cases += 1
                    want = decide.ev3(e_single, {kFs: Fs, ('param', pfn): fs_, kbr: b, sx.key(fr12[0][0]): f12})
                    val = {k: b for k in rate_keys}
                    val.update({k: fs_ for k in fs_keys})
                    val.update({k: Fs for k in Fs_keys})
                    got = decide.ev3(e, val)
                    if want is None or got is None:
                        rep.unresolved('R05.9', 'cannot evaluate `%s` / `%s`' % (sx.show(e)[:60], sx.show(e_single)[:60]))
                        return n
                    if got != want and bad is None:
                        bad = (Fs, fs_, b, got, want)
        inst = '%s:multistream CBR bytes `%s` round like the single-stream encoder' % (prog.config, sx.show(e)[:50])
        if bad:
            rep.violated('R05.9', inst, m_.where(), 'Fs=%d frame_size=%d bitrate=%d: multistream %d bytes, single stream %d (`%s`): the CBR packet size is floor(), not round()' % (bad + (sx.show(e_single)[:50],)),
                         key='ms-cbr-rounding:%s' % sx.show(e)[:30])
        else:
            rep.holds('R05.9', inst, m_.where(), '%d (rate, duration) cases' % cases, n=cases)
    return n


# ------------------------------------------------------------------ R05.10
SENTINEL_FIELDS = {('OpusMSEncoder', 'bitrate_bps'): (-1000, -1), ('OpusEncoder', 'user_bitrate_bps'): (-1000, -1)}


def _only_steers_bandwidth(f, loc):
    """True when every use of the local `loc` is a self-update or a branch condition whose two targets hold nothing but
    opus_encoder_ctl(enc, OPUS_SET_BANDWIDTH(..)) requests or further such branches: the value chooses an audio bandwidth and
    reaches no rate, size or buffer computation, so the property (sizes and rates) does not depend on it."""
    k = sx.key(loc)
    cond_blocks = set()
    for b, blk in f.blocks.items():
        for s_ in blk['stmts']:
            if (s_[0] == 'assign' and sx.key(sx.strip(s_[1])) == k) or (s_[0] == 'cassign' and sx.key(sx.strip(s_[2])) == k) or s_[0] == 'decls':
                continue                                  # definition or self-update
            if any(sx.key(x) == k for x in sx.walk(s_)):
                return False
        t = blk.get('term')
        if t and 'cond' in t and any(sx.key(x) == k for x in sx.walk(t['cond'])):
            cond_blocks.add(b)
        elif t and any(sx.key(x) == k for x in sx.walk(t.get('value') or ())):
            return False
    if not cond_blocks:
        return False
    for b in cond_blocks:
        for sb in f.blocks[b].get('succ', []):
            if sb in cond_blocks:
                continue
            for s_ in f.blocks[sb]['stmts']:
                c = sx.strip(s_[1] if s_[0] == 'expr' else s_)
                if not (sx.kind(c) == 'call' and sx.callee_name(c) == 'opus_encoder_ctl' and len(c[2]) > 1 and sx.is_int(sx.strip(c[2][1]), 4008)):
                    return False
    return True


def r05_10(rep, prog):
    """OPUS_AUTO (-1000) and OPUS_BITRATE_MAX (-1) are sentinels, not rates: every place where the bitrate setting enters
    arithmetic, an ordered comparison, or is copied into a local that does, lies behind tests that exclude both values
    (the sentinel is resolved first).  A sentinel compared with `10000 * channels` silently selects the lowest quality."""
    n = 0
    for f in prog.functions_all:
        if not f.file.startswith('src/'):
            continue
        cf = None
        for b, blk in f.blocks.items():
            items = list(enumerate(blk['stmts']))
            t = blk.get('term')
            if t and 'cond' in t:
                items.append((len(blk['stmts']), t['cond']))
            for i, s_ in items:
                uses = []
                for x in sx.walk(s_):
                    if sx.kind(x) == 'bin' and x[1] in ('+', '-', '*', '/', '<', '>', '<=', '>=', '>>', '<<'):
                        for side in (x[2], x[3]):
                            y = sx.strip(side)
                            if sx.kind(y) == 'field' and (y[2], y[3]) in SENTINEL_FIELDS:
                                uses.append((y, x))
                if s_[0] == 'assign' and sx.kind(sx.strip(s_[2])) == 'field' and (sx.strip(s_[2])[2], sx.strip(s_[2])[3]) in SENTINEL_FIELDS and sx.kind(sx.strip(s_[1])) == 'local':
                    uses.append((sx.strip(s_[2]), s_))
                for y, ctx in uses:
                    if cf is None:
                        cf = cfgm.CFG(f)
                    if ctx[0] == 'assign' and _only_steers_bandwidth(f, sx.strip(ctx[1])):
                        rep.note('R05.10 outside the property: %s:%s copies %s.%s into `%s`, which only selects OPUS_SET_BANDWIDTH requests (no rate or size depends on it); '
                                 'the sentinel is not excluded there - see DESIGN 10.3b' % (f.file, sx.line(ctx), y[2], y[3], sx.show(sx.strip(ctx[1]))))
                        continue
                    facts = T.stable_facts(cf, b, i)
                    k = sx.key(y)
                    need = SENTINEL_FIELDS[(y[2], y[3])]
                    excl = [v for v in need if any((a[0] == '!=' and a[1] == k and a[2] == ('int', v)) or
                                                   (a[0] in ('<', '<=') and isinstance(a[1], tuple) and a[1][0] == 'int' and a[2] == k and a[1][1] >= (v if a[0] == '<' else v + 1)) for a in facts)]
                    n += 1
                    rep.functions.add(f.name)
                    inst = '%s:%s uses %s.%s as a number only after the sentinels are excluded (`%s`)' % (prog.config, f.name, y[2], y[3], sx.show(ctx)[:50])
                    where = '%s:%s' % (f.file, sx.line(ctx) or sx.line(s_))
                    if len(excl) == len(need):
                        rep.holds('R05.10', inst, where, 'behind tests != %s' % list(need))
                    else:
                        rep.violated('R05.10', inst, where, 'not behind tests excluding %s: with the default (OPUS_AUTO) or OPUS_BITRATE_MAX the sentinel value itself is used as a rate' % [v for v in need if v not in excl],
                                     key='%s:%s:sentinel:%s' % (f.name, y[3], sx.line(ctx) or sx.line(s_)))
    return n


# ------------------------------------------------------------------ R05.11
CELT_ENC_DISPATCH = {'celt_encoder_ctl': 'opus_custom_encoder_ctl', 'opus_custom_encoder_ctl': 'opus_custom_encoder_ctl'}
SET_BITRATE = 4002


def _accepted_by_arm(prog, dname, req):
    """values of the request argument with which the handler arm gets past its validation (state before the first store)"""
    from .. import ctl
    f = prog.fn(dname)
    cf, arms = ctl.switch_arms(f)
    for arm in arms:
        if any(l.get('case') and l['case'][0] <= req <= l['case'][1] for l in arm.labels):
            lid, ty = arm.value_local()
            if lid is None:
                return None, arm
            an = absint.Analyzer(prog, f)
            acc = absint.BOT
            for b, i, n in arm.find(lambda n: n[0] in ('assign', 'cassign')):
                st = an.state_before_node(b, i, n)
                if st is not None:
                    acc = absint.join(acc, an.ev(['local', 'value', lid], st))
                    break
            return acc, arm
    return None, None


def _last_of_comma(e):
    e = sx.strip(e)
    while sx.kind(e) == 'comma' or (sx.kind(e) == 'bin' and e[1] == ','):
        e = sx.strip(e[-1] if sx.kind(e) == 'comma' else e[3])
    return e


def _vetted_field(prog, site_fn, fld_key, fld_rec, refuse_max):
    """(ok, text): the field is vetted by an early-out in a caller: a chain of branch conditions, evaluated for every
    frame rate 1..400 with the field at the largest refused value, leaves only through exits that cannot reach a call
    leading to site_fn; the chain dominates those calls and no store to the field is reachable after it"""
    reach_site = {site_fn.name}
    changed = True
    while changed:
        changed = False
        for g in prog.functions_all:
            if g.name not in reach_site and any(sx.callee_name(c) in reach_site for c in g.calls()):
                reach_site.add(g.name)
                changed = True
    for g in prog.functions_all:
        if g.name not in reach_site or g.name == site_fn.name:
            continue
        cf = cfgm.CFG(g)
        for b in cf.blocks:
            c = cf.cond(b)
            if c is None:
                continue
            atoms = [x for x in sx.walk(c) if sx.kind(x) == 'bin' and x[1] in ('<', '<=') and sx.key(sx.strip(x[2])) == fld_key]
            if not atoms:
                continue
            # head of the if-chain
            h = b
            while not cf.blocks[h]['stmts'] and len(cf.pred[h]) == 1 and cf.cond(cf.pred[h][0]) is not None:
                h = cf.pred[h][0]
            chain = set()
            work = [h]
            while work:
                x = work.pop()
                if x in chain:
                    continue
                chain.add(x)
                for s_ in cf.succ[x]:
                    if cf.cond(s_) is not None and not cf.blocks[s_]['stmts'] and len(cf.pred[s_]) == 1:
                        work.append(s_)
            # every occurrence of the field in the chain is `field < e` / `field <= e`  (monotone: the largest refused value is the worst case)
            mono = True
            rate_keys = set()
            for x in chain:
                cx = cf.cond(x)
                for n in sx.walk(cx):
                    if sx.key(n) == fld_key and not any(n is sx.strip(a[2]) for a in sx.walk(cx) if sx.kind(a) == 'bin' and a[1] in ('<', '<=')):
                        mono = False
                for a in sx.walk(cx):
                    # the quantity the field is measured against (the frame rate): locals in the comparisons that mention the field
                    if sx.kind(a) == 'bin' and a[1] in ('<', '<=') and sx.key(sx.strip(a[2])) == fld_key:
                        for n in sx.walk(a[3]):
                            if sx.kind(n) == 'local':
                                rate_keys.add(sx.key(n))
            if not mono or len(rate_keys) != 1:
                continue
            rk = list(rate_keys)[0]
            calls = [bb for bb in cf.blocks for st_ in cf.blocks[bb]['stmts'] for n in sx.walk(st_) if sx.kind(n) == 'call' and sx.callee_name(n) in reach_site]
            if not calls or not all(cf.dominates(h, cb) for cb in calls):
                continue
            bad = None
            exits_ok = set()
            for r in range(1, 401):
                val = {fld_key: refuse_max, rk: r}
                seen, work = set(), [h]
                while work:
                    x = work.pop()
                    if x in seen:
                        continue
                    seen.add(x)
                    if x not in chain:
                        continue
                    v = decide.ev3(cf.cond(x), val)
                    for s_, pol in cf.edges(x):
                        if v is not None and pol is not None and bool(v) != pol:
                            continue
                        work.append(s_)
                for e in seen - chain:
                    if e in exits_ok:
                        continue
                    if any(cb == e or cb in cf.reachable_from(e) for cb in calls):
                        bad = (r, e)
                        break
                    exits_ok.add(e)
                if bad:
                    break
            if bad:
                continue
            # stores to the field after the chain (here or anywhere else in the program outside init-time code)
            after = set()
            for x in chain:
                for s_ in cf.succ[x]:
                    if s_ not in chain:
                        after |= {s_} | cf.reachable_from(s_)
            late = [sx.line(n) for bb in after for st_ in cf.blocks[bb]['stmts'] for n in sx.walk(st_)
                    if n[0] in ('assign', 'cassign', 'inc') and sx.key(sx.strip_paren(n[1] if n[0] == 'assign' else (n[2] if n[0] == 'cassign' else n[3]))) == fld_key]
            if late:
                continue
            other = []
            for g2 in prog.functions_all:
                if g2.name == g.name or 'init' in g2.name:
                    continue                              # creation-time stores precede every encode call
                for n in g2.all_nodes():
                    if n[0] in ('assign', 'cassign', 'inc'):
                        lv = sx.strip_paren(n[1] if n[0] == 'assign' else (n[2] if n[0] == 'cassign' else n[3]))
                        if sx.kind(lv) == 'field' and (lv[2], lv[3]) == fld_rec:
                            other.append('%s:%s' % (g2.name, sx.line(n)))
            if other:
                continue
            return True, 'early-out at %s:%s (`%s` ...) is taken for every frame rate 1..400 when the field is <= %d; it dominates the %d call(s) leading here and the field is not stored afterwards' % (
                g.file, cf.blocks[b].get('term', {}).get('l'), sx.show(cf.cond(b))[:50], refuse_max, len(calls))
    return False, None


def r05_11(rep, prog):
    """The Opus layer sets the CELT rate to OPUS_BITRATE_MAX at the start of every frame and overrides it on the VBR arms
    with a request whose result it discards.  A refused override leaves MAX in force and the VBR frame then fills the
    whole buffer (hundreds of kb/s for a request of a few kb/s).  So every non-constant rate handed to the CELT encoder
    with the result discarded must lie inside the set the CELT handler accepts: by a clamp visible at the call site
    (interval analysis), or because the value is the encoder's resolved rate and a caller's early-out keeps small rates
    away from the frame encoder (checked, see _vetted_field)."""
    acc, arm = _accepted_by_arm(prog, 'opus_custom_encoder_ctl', SET_BITRATE)
    if acc is None or acc == absint.BOT:
        raise AnalysisBroken('R05.11: cannot determine the accepted set of the CELT OPUS_SET_BITRATE handler')
    # largest refused value below the accepted positive range
    pos = [p_ for p_ in acc if p_[1] > 0]
    refuse_max = pos[0][0] - 1 if pos else None
    for f in prog.functions_all:
        if not f.file.startswith('src/'):
            continue
        an = None
        for b, blk in f.blocks.items():
            for i, s_ in enumerate(blk['stmts']):
                if sx.kind(s_) != 'call' or sx.callee_name(s_) not in CELT_ENC_DISPATCH or len(s_[2]) < 3 or not sx.is_int(sx.strip(s_[2][1]), SET_BITRATE):
                    continue
                e = _last_of_comma(s_[2][2])
                e0 = sx.nocast(e) if hasattr(sx, 'nocast') else e
                inst = '%s:%s hands the CELT encoder a rate it accepts: `%s`' % (prog.config, f.name, sx.show(e0)[:60])
                where = '%s:%s' % (f.file, sx.line(s_))
                rep.functions.add(f.name)
                if an is None:
                    an = absint.Analyzer(prog, f)
                st = an.state_before_node(b, i, s_)
                if st is None:
                    rep.holds('R05.11', inst, where, 'unreachable in this configuration')
                    continue
                v = absint.meet(an.ev(e, st), absint.type_range(32, True))     # the argument is an opus_int32 (no signed overflow assumed)
                if absint.meet(v, acc) == v:
                    rep.holds('R05.11', inst, where, 'value %s inside the accepted set %s' % (absint.show(v), absint.show(acc)))
                    continue
                root = sx.strip(e0)
                if sx.kind(root) == 'field' and refuse_max is not None:
                    ok, txt = _vetted_field(prog, f, sx.key(root), (root[2], root[3]), refuse_max)
                    if ok:
                        rep.holds('R05.11', inst, where, txt)
                        continue
                rep.violated('R05.11', inst, where, 'value %s is not inside the accepted set %s and the result is discarded: a refused request leaves OPUS_BITRATE_MAX in force for a VBR frame' % (absint.show(v), absint.show(acc)),
                             key='%s:celt-rate-refused:%s' % (f.name, sx.show(e0)[:40].replace(' ', '')))


# ------------------------------------------------------------------ R05.12
def r05_12(rep, prog):
    """celt_encode_with_ec: the byte budget handed to the range coder never exceeds what is left of the caller's buffer.
    The linear ghost  nbCompressedBytes + (compressed - compressed at entry) - (nbCompressedBytes at entry)  is tracked
    through `compressed++; nbCompressedBytes--` (custom-modes signalling byte) and through the IMIN/IMAX clamps; it must be
    <= 0 where the coder is initialised on the caller's buffer and at the CBR shrink.  (The three VBR shrink sites come
    after relational updates the ghost does not follow and are not decided.)"""
    f = prog.fn('celt_encode_with_ec')
    rep.functions.add(f.name)
    pc = ('param', f.param_index('compressed'))
    pn = ('param', f.param_index('nbCompressedBytes'))
    an = absint.Analyzer(prog, f, entry_state={pc: absint.const(0)}, ghosts={'budget': {pn: 1, pc: 1}})
    n_ = 0
    for name in ('ec_enc_init', 'ec_enc_shrink'):
        for b, i, c in T.calls_to(an.cf, name):
            if sx.key(sx.strip(c[2][-1])) != pn:
                continue
            st = an.state_before_node(b, i, c)
            where = '%s:%s' % (f.file, sx.line(c))
            inst = '%s:celt_encode_with_ec %s(.., nbCompressedBytes) stays inside the caller buffer' % (prog.config, name)
            if st is None:
                continue
            g = an.ghost_value(st, 'budget')
            if absint.is_top(g) or absint.hi(g) > 2 ** 20:
                if name == 'ec_enc_init':
                    rep.unresolved('R05.12', 'budget ghost lost before ec_enc_init', where)
                else:
                    rep.note('R05.12 not decided: %s %s follows a relational VBR update of the budget' % (where, name))
                continue
            n_ += 1
            if absint.hi(g) <= 0:
                rep.holds('R05.12', inst + ' (line %s)' % sx.line(c), where, 'budget + pointer advance - entry budget in %s' % absint.show(g))
            else:
                rep.violated('R05.12', inst, where, 'budget + pointer advance - entry budget may reach %d: the coder is given %d byte(s) more than the caller provided' % (absint.hi(g), absint.hi(g)),
                             key='celt_encode_with_ec:%s:budget' % name)
    return n_


# ------------------------------------------------------------------ R05.13
def r05_13(rep, prog):
    """"with OPUS_BITRATE_MAX it fills the output buffer (up to 1276 bytes when the packet holds a single frame)": on the
    multi-frame path the length handed to the repacketizer for the caller's buffer is the whole buffer when the rate is
    OPUS_BITRATE_MAX, CBR or not.  Decision table over (use_vbr, user_bitrate_bps == OPUS_BITRATE_MAX): the assignments to
    that length that are feasible with CBR + MAX must all be the buffer size itself."""
    f = prog.fn('opus_encode_native')
    rep.functions.add(f.name)
    cf = cfgm.CFG(f)
    pd = f.param_index('data')
    po = f.param_index('out_data_bytes')
    lens = set()
    for b, i, c in T.calls_to(cf, ('opus_repacketizer_out_range_impl',)):
        if sx.kind(sx.strip(c[2][3])) == 'param' and sx.strip(c[2][3])[1] == pd and sx.kind(sx.strip(c[2][4])) == 'local':
            lens.add(sx.strip(c[2][4])[2])
    inst = '%s:opus_encode_native multi-frame CBR packet fills the buffer with OPUS_BITRATE_MAX' % prog.config
    if len(lens) != 1:
        rep.unresolved('R05.13', inst + ': the length passed to the repacketizer for the caller buffer was not identified')
        return 0
    lid = list(lens)[0]
    kv = kb = None
    for n in f.all_nodes():
        if sx.kind(n) == 'field' and n[3] == 'use_vbr':
            kv = sx.key(n)
        if sx.kind(n) == 'field' and n[3] == 'user_bitrate_bps':
            kb = sx.key(n)
    if kv is None:
        rep.unresolved('R05.13', inst + ': use_vbr is not read in opus_encode_native')
        return 0
    val = {kv: 0}
    if kb is not None:
        val[kb] = -1                  # a function that no longer reads the rate setting cannot tell MAX from any other rate
    feas = decide.feasible_blocks(cf, val)
    asg = [(b, i, n) for b, i, n in cf.find(lambda n: n[0] == 'assign' and sx.kind(sx.strip(n[1])) == 'local' and sx.strip(n[1])[2] == lid) if b in feas]
    if not asg:
        rep.unresolved('R05.13', inst + ': no feasible assignment of the length under CBR + OPUS_BITRATE_MAX')
        return 0
    bad = [n for b, i, n in asg if not (sx.kind(sx.strip(n[2])) == 'param' and sx.strip(n[2])[1] == po)]
    where = '%s:%s' % (f.file, sx.line(asg[0][2]))
    if bad:
        rep.violated('R05.13', inst, '%s:%s' % (f.file, sx.line(bad[0])), 'with use_vbr == 0 and user_bitrate_bps == OPUS_BITRATE_MAX the length is `%s`, not the buffer size: a 100 ms packet in a 2000-byte buffer comes out as 1276 bytes' % sx.show(bad[0])[:60],
                     key='native:multiframe-max-fill')
    else:
        rep.holds('R05.13', inst, where, '%d feasible assignment(s), all `= out_data_bytes`' % len(asg))
    return 1


# ------------------------------------------------------------------ R05.14
def _size_bytes_table(prog):
    """number of length bytes encode_size() emits for every frame size 0..1275, read off its branch conditions"""
    f = prog.fn('encode_size')
    cf = cfgm.CFG(f)
    ps = ('param', f.param_index('size'))
    out = {}
    for sz in range(0, 1276):
        feas = decide.feasible_blocks(cf, {ps: sz}, entry=True)
        rv = {sx.int_val(sx.strip(r[1])) for b, i, r in T.returns_of(cf) if b in feas and len(r) > 1}
        if len(rv) != 1 or None in rv:
            return None
        out[sz] = list(rv)[0]
    return out


def r05_14(rep, prog):
    """multistream: every stream but the last is emitted self-delimited, which adds the length of its last frame (1 byte
    below 252 bytes, 2 from there on - read off encode_size()).  The budget handed to such a stream is the room left
    minus a reservation for that length; for EVERY room 2..7662 the stream's largest possible packet plus its length
    bytes must still fit the room, or the next stream is left without its reserved minimum and the call fails."""
    tb = _size_bytes_table(prog) if prog.has_fn('encode_size') else None
    f = prog.fn('opus_multistream_encode_native')
    rep.functions.add(f.name)
    inst = '%s:opus_multistream_encode_native reserves enough for the self-delimiting length of every non-final stream' % prog.config
    if tb is None:
        rep.unresolved('R05.14', inst + ': encode_size() could not be tabulated')
        return 0
    site = None
    for n in f.all_nodes():
        if n[0] == 'cassign' and n[1] == '-' and sx.kind(sx.strip(n[2])) == 'local' and sx.kind(sx.strip(n[3])) == 'cond' and \
                any(sx.key(y) == sx.key(sx.strip(n[2])) for y in sx.walk(sx.strip(n[3])[1])):
            site = n
    if site is None:
        rep.unresolved('R05.14', inst + ': reservation statement `room -= room > k ? 2 : 1` not found')
        return 0
    k = sx.key(sx.strip(site[2]))
    bad = None
    nchk = 0
    for room in range(2, 6 * 1275 + 12 + 1):
        r = decide.ev3(site[3], {k: room})
        if r is None:
            rep.unresolved('R05.14', inst + ': cannot evaluate `%s`' % sx.show(site[3]), '%s:%s' % (f.file, sx.line(site)))
            return 0
        budget = room - r
        if budget < 1:
            continue
        nchk += 1
        frame = min(budget - 1, 1275)            # a one-frame packet: TOC + frame, the worst case for the length field
        if budget + tb[frame] > room and budget <= 1276:
            bad = (room, r, budget, frame, tb[frame])
            break
    where = '%s:%s' % (f.file, sx.line(site))
    if bad:
        rep.violated('R05.14', inst, where, 'with %d bytes of room the reservation is %d, the stream may emit %d bytes whose %d-byte frame needs %d length bytes: %d bytes in all' % (bad[0], bad[1], bad[2], bad[3], bad[4], bad[2] + bad[4]),
                     key='ms:self-delimiting-reserve')
    else:
        rep.holds('R05.14', inst, where, '%d room sizes evaluated against encode_size()' % nchk)
    return 1


def check(rep, prog, tier):
    if prog.config != 'custom':
        r05_14(rep, prog)
    if prog.config != 'custom':
        r05_13(rep, prog)
    r05_12(rep, prog)
    if prog.config == 'custom':
        return
    r05_11(rep, prog)
    r05_10(rep, prog)
    r05_9(rep, prog)
    r05_8(rep, prog)
    r05_7(rep, prog)
    r05_5(rep, prog)
    r05_6(rep, prog)
    r05_native(rep, prog)
    r05_frame(rep, prog)
    r05_3(rep, prog)
    r05_4(rep, prog)
