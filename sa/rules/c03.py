"""C03 — conformance to RFC 6716: normative table equality (translation validation).

R03.1 every normative entropy-coding PDF / codebook / constant table that the
      RFC prints as a <texttable> (doc/draft-ietf-codec-opus.xml, shipped in
      the repository and written independently of the C tables: PDFs instead
      of inverse CDFs, one row per index instead of flat arrays) equals the
      evaluated initialiser of the C table after the documented transform.
R03.2 the bit layout by which silk_NLSF_unpack splits an ec_sel entry (the
      transform R03.1 uses to read the two NLSF selection tables) is the one
      assumed.
R03.3 each decoder function reads its symbols with the RFC's tables: the
      multiset of table sets reaching the ec_dec_icdf call sites of every
      decoder function equals the frozen binding spec/c03_sites.json (each
      line names the RFC anchor), so a site cannot silently switch to a
      different - individually valid - table.
R03.4 every mapped C table is reachable from a decoder entry point, and every
      table reaching a decoder iCDF site is mapped (or listed with the reason
      the RFC prints it only in prose).
"""
import json, os
from .. import guards, sx, cfg as cfgm, rfc, decide, roles
from ..facts import flatten
from ..pts import PointsTo
from ..compdb import AnalysisBroken, VERIF

LEVEL = 'translation_validation'

EXPLANATION = (
    'Decided: R03.1 value equality of every normative table printed in the RFC text (SILK: LBRR, stereo, frame type, '
    'gain, NLSF stage-1/2 PDFs, stage-2 codebook and prediction-weight selection, prediction weights, stage-1 '
    'codebooks, minimum spacing, interpolation, orderings, cosine table, pitch lag/contour PDFs and codebooks, LTP '
    'PDFs and filter codebooks, LTP scaling, seed, rate level, pulse count, shell split, LSB, sign PDFs, quantisation '
    'offsets; CELT: band layout, static allocation, trim/spread/tapset PDFs, TF adjustment tables) with the C '
    'initialisers, after the per-entry transform (pdf->icdf, transposition, sub-table offsets); R03.2 the ec_sel bit '
    'layout used for that comparison; R03.3 the binding of each decoder call site to its table; R03.4 decoder '
    'reachability / coverage of the mapped tables. The RFC XML is an oracle independent of the C sources. '
    'NOT decided: that decoded PCM is within tolerance of the reference decoder, final-range equality, synthesis '
    'filters, MDCT, resampler and mode transitions (numeric); tables the RFC does not print (e_prob_model, PVQ U, '
    'pulse cache) are covered by C17 instead.')

CONFIGS = {'quick': ['float'], 'thorough': ['float', 'fixed']}

SITES_SPEC = os.path.join(VERIF, 'spec', 'c03_sites.json')


def setup(rep, tier):
    rep.minimum('R03.1', 140)
    rep.minimum('R03.2', 1)
    rep.minimum('R03.3', 9)
    rep.minimum('R03.5', 12)
    rep.minimum('R03.6', 6)
    rep.minimum('R03.7', 2)
    rep.minimum('R03.8', 8)
    rep.minimum('R03.9', 1)
    rep.minimum('R03.10', 1)
    rep.minimum('R03.11', 30)
    rep.minimum('R03.12', 2)
    rep.minimum('R03.4', 2)
    rep.trusted.append('doc/draft-ietf-codec-opus.xml (RFC 6716 source text) as the table oracle')


def flat(prog, name):
    v = [x for x in flatten(prog.table(name))]
    if any(not isinstance(x, int) for x in v):
        raise AnalysisBroken('table %s is not integer data' % name)
    return v


def _icdf(cell, total=256):
    p = rfc.pdf(cell)
    if p is None:
        raise AnalysisBroken('RFC cell holds no PDF: %r' % cell[:40])
    vals, tot = p
    if tot != total:
        raise AnalysisBroken('RFC PDF denominator %d, expected %d' % (tot, total))
    if sum(vals) != tot:
        raise AnalysisBroken('RFC PDF %r does not sum to %d' % (vals, tot))
    ic = rfc.pdf_to_icdf(vals, tot)
    # symbols of probability zero at the tail repeat the terminating 0
    while len(ic) > 1 and ic[-1] == 0 and ic[-2] == 0:
        ic.pop()
    return ic


def _cells(t, col):
    return [r[col].replace('&nbsp;', ' ') for r in t.rows]


class Cmp:
    def __init__(self, rep, prog, tables):
        self.rep = rep
        self.prog = prog
        self.t = tables
        self.n = 0
        self.bad = 0
        self.csyms = set()
        self.samples = []

    def tab(self, anchor):
        t = self.t.get(anchor)
        if t is None:
            raise AnalysisBroken('RFC table %s not found in %s' % (anchor, rfc.XML))
        return t

    def eq(self, anchor, what, expect, csym, got, transform):
        """one comparison = one translated table (or sub-table)"""
        self.n += 1
        self.csyms.add(csym.split('[')[0])
        inst = '%s:%s %s == %s' % (self.prog.config, anchor, what, csym)
        g = self.prog.globals.get(csym.split('[')[0].split('::')[-1]) or self.prog.globals.get(csym.split('[')[0])
        where = (g or {}).get('loc')
        if list(expect) == list(got):
            self.rep.holds('R03.1', inst, where, '%d values, transform %s' % (len(got), transform), n=len(got))
            if len(self.samples) < 8:
                self.samples.append({'rfc_anchor': anchor, 'rfc_line': self.tab(anchor).line, 'entry': what, 'c_symbol': csym,
                                     'transform': transform, 'first_values': list(got)[:8]})
        else:
            self.bad += 1
            k = next((i for i, (a, b) in enumerate(zip(expect, got)) if a != b), min(len(expect), len(got)))
            self.rep.violated('R03.1', inst, where,
                              'RFC (line %d) gives %s, C table has %s: first difference at index %d (RFC %s, C %s); lengths %d/%d' %
                              (self.tab(anchor).line, list(expect)[max(0, k - 2):k + 3], list(got)[max(0, k - 2):k + 3], k,
                               expect[k] if k < len(expect) else 'end', got[k] if k < len(got) else 'end', len(expect), len(got)),
                              key='%s:%s' % (csym, what))

    # -- helpers for the common shapes
    def pdf_rows(self, anchor, col, targets, total=256):
        """row i PDF -> icdf == targets[i] where a target is (csym, values)"""
        cells = _cells(self.tab(anchor), col)
        if len(cells) != len(targets):
            raise AnalysisBroken('RFC table %s has %d rows, map expects %d' % (anchor, len(cells), len(targets)))
        for i, (cell, (csym, vals)) in enumerate(zip(cells, targets)):
            self.eq(anchor, 'row %d' % i, _icdf(cell, total), csym, vals, 'pdf->icdf (256-cumsum, zero-probability symbols dropped)')


def r03_1(rep, prog, tables):
    c = Cmp(rep, prog, tables)
    F = lambda n: flat(prog, n)
    sub = lambda n, a, b: ('%s[%d:%d]' % (n, a, b), F(n)[a:b])
    whole = lambda n: (n, F(n))

    # ---- SILK header / stereo / frame type / gains
    c.pdf_rows('silk_lbrr_flag_pdfs', 1, [whole('silk_LBRR_flags_2_iCDF'), whole('silk_LBRR_flags_3_iCDF')])
    c.pdf_rows('silk_stereo_pred_pdfs', 1, [whole('silk_stereo_pred_joint_iCDF'), whole('silk_uniform3_iCDF'), whole('silk_uniform5_iCDF')])
    c.eq('silk_stereo_weights_table', 'weights', [rfc.ints(x)[0] for x in _cells(c.tab('silk_stereo_weights_table'), 1)],
         'silk_stereo_pred_quant_Q13', F('silk_stereo_pred_quant_Q13'), 'identity')
    c.pdf_rows('silk_mid_only_pdf', 0, [whole('silk_stereo_only_code_mid_iCDF')])
    c.pdf_rows('silk_frame_type_pdfs', 1, [whole('silk_type_offset_no_VAD_iCDF'), whole('silk_type_offset_VAD_iCDF')])
    g = F('silk_gain_iCDF')
    c.pdf_rows('silk_independent_gain_msb_pdfs', 1, [('silk_gain_iCDF[%d]' % i, g[8 * i:8 * i + 8]) for i in range(3)])
    c.pdf_rows('silk_independent_gain_lsb_pdf', 0, [whole('silk_uniform8_iCDF')])
    c.pdf_rows('silk_delta_gain_pdf', 0, [whole('silk_delta_gain_iCDF')])

    # ---- NLSF
    c.pdf_rows('silk_nlsf_stage1_pdfs', 2, [sub('silk_NLSF_CB1_iCDF_NB_MB', 0, 32), sub('silk_NLSF_CB1_iCDF_NB_MB', 32, 64),
                                            sub('silk_NLSF_CB1_iCDF_WB', 0, 32), sub('silk_NLSF_CB1_iCDF_WB', 32, 64)])
    c.pdf_rows('silk_nlsf_stage2_nbmb_pdfs', 1, [sub('silk_NLSF_CB2_iCDF_NB_MB', 9 * i, 9 * i + 9) for i in range(8)])
    c.pdf_rows('silk_nlsf_stage2_wb_pdfs', 1, [sub('silk_NLSF_CB2_iCDF_WB', 9 * i, 9 * i + 9) for i in range(8)])
    for (cb_anchor, w_anchor, csym, order, cb0, w0) in (
            ('silk_nlsf_nbmb_stage2_cb_sel', 'silk_nlsf_nbmb_weight_sel', 'silk_NLSF_CB2_SELECT_NB_MB', 10, 'a', 'A'),
            ('silk_nlsf_wb_stage2_cb_sel', 'silk_nlsf_wb_weight_sel', 'silk_NLSF_CB2_SELECT_WB', 16, 'i', 'C')):
        sel = F(csym)
        if len(sel) != 32 * order // 2:
            raise AnalysisBroken('%s has %d entries, expected %d' % (csym, len(sel), 32 * order // 2))
        cbt, wt = c.tab(cb_anchor), c.tab(w_anchor)
        # rows are taken by position (the draft's row label for I1=6 is misprinted as 'g')
        cb_rows = [r[1].replace('&nbsp;', ' ').split() for r in cbt.rows if r[0] != '']
        w_rows = [r[1].replace('&nbsp;', ' ').split() for r in wt.rows if r[0] != '']
        if len(cb_rows) != 32 or len(w_rows) != 32:
            raise AnalysisBroken('RFC selection tables %s/%s do not have 32 rows' % (cb_anchor, w_anchor))
        exp_cb, got_cb, exp_w, got_w = [], [], [], []
        for i1 in range(32):
            cbr, wr = cb_rows[i1], w_rows[i1]
            if cbr is None or wr is None or len(cbr) != order or len(wr) != order - 1:
                raise AnalysisBroken('RFC selection tables %s/%s: row %d malformed' % (cb_anchor, w_anchor, i1))
            for k in range(order):
                e = sel[i1 * order // 2 + k // 2]
                exp_cb.append(ord(cbr[k]) - ord(cb0))
                got_cb.append((e >> (1 if k % 2 == 0 else 5)) & 7)
                if k < order - 1:
                    exp_w.append(ord(wr[k]) - ord(w0))
                    got_w.append((e >> (0 if k % 2 == 0 else 4)) & 1)
        c.eq(cb_anchor, 'stage-2 codebook letters', exp_cb, csym + '[cb bits]', got_cb, 'entry bits 1-3 / 5-7 per coefficient pair (layout checked by R03.2)')
        c.eq(w_anchor, 'prediction weight letters', exp_w, csym + '[weight bits]', got_w, 'entry bits 0 / 4 per coefficient pair; last coefficient has no weight')
    c.pdf_rows('silk_nlsf_ext_pdf', 0, [whole('silk_NLSF_EXT_iCDF')])
    pw = c.tab('silk_nlsf_pred_weights')
    col = lambda j: [int(r[j]) for r in pw.rows if r[j].strip() != '']
    c.eq('silk_nlsf_pred_weights', 'lists A,B', col(1) + col(2), 'silk_NLSF_PRED_NB_MB_Q8', F('silk_NLSF_PRED_NB_MB_Q8'), 'list A then list B')
    c.eq('silk_nlsf_pred_weights', 'lists C,D', col(3) + col(4), 'silk_NLSF_PRED_WB_Q8', F('silk_NLSF_PRED_WB_Q8'), 'list C then list D')
    for anchor, csym, order in (('silk_nlsf_nbmb_codebook', 'silk_NLSF_CB1_NB_MB_Q8', 10), ('silk_nlsf_wb_codebook', 'silk_NLSF_CB1_WB_Q8', 16)):
        rows = [rfc.ints(r[1].replace('&nbsp;', ' ')) for r in c.tab(anchor).rows if r[0] != '']
        if len(rows) != 32 or any(len(r) != order for r in rows):
            raise AnalysisBroken('RFC codebook %s malformed' % anchor)
        c.eq(anchor, 'stage-1 codebook', [x for r in rows for x in r], csym, F(csym), 'row-major, one row per I1')
    ms = c.tab('silk_nlsf_min_spacing')
    c.eq('silk_nlsf_min_spacing', 'NB/MB', [int(r[1]) for r in ms.rows if r[1].strip()], 'silk_NLSF_DELTA_MIN_NB_MB_Q15', F('silk_NLSF_DELTA_MIN_NB_MB_Q15'), 'identity')
    c.eq('silk_nlsf_min_spacing', 'WB', [int(r[2]) for r in ms.rows if r[2].strip()], 'silk_NLSF_DELTA_MIN_WB_Q15', F('silk_NLSF_DELTA_MIN_WB_Q15'), 'identity')
    c.pdf_rows('silk_nlsf_interp_pdf', 0, [whole('silk_NLSF_interpolation_factor_iCDF')])
    od = c.tab('silk_nlsf_orderings')
    c.eq('silk_nlsf_orderings', 'NB/MB', [int(r[1]) for r in od.rows if r[1].strip()], 'silk_NLSF2A::ordering10', F('silk_NLSF2A::ordering10'), 'identity')
    c.eq('silk_nlsf_orderings', 'WB', [int(r[2]) for r in od.rows if r[2].strip()], 'silk_NLSF2A::ordering16', F('silk_NLSF2A::ordering16'), 'identity')
    ct = c.tab('silk_cos_table')
    cos = []
    for r in ct.rows:
        cos.extend(int(x) for x in r[1:] if x.strip() != '')
    c.eq('silk_cos_table', 'Q12 cosine', [2 * x for x in cos], 'silk_LSFCosTab_FIX_Q12', F('silk_LSFCosTab_FIX_Q12'), 'C stores 2*cos in Q12 (the RFC value doubled)')

    # ---- pitch
    c.pdf_rows('silk_abs_pitch_high_pdf', 0, [whole('silk_pitch_lag_iCDF')])
    c.pdf_rows('silk_abs_pitch_low_pdf', 1, [whole('silk_uniform4_iCDF'), whole('silk_uniform6_iCDF'), whole('silk_uniform8_iCDF')])
    c.pdf_rows('silk_rel_pitch_pdf', 0, [whole('silk_pitch_delta_iCDF')])
    c.pdf_rows('silk_pitch_contour_pdfs', 3, [whole('silk_pitch_contour_10_ms_NB_iCDF'), whole('silk_pitch_contour_NB_iCDF'),
                                              whole('silk_pitch_contour_10_ms_iCDF'), whole('silk_pitch_contour_iCDF')])
    pc = c.tab('silk_pitch_contour_pdfs')
    for anchor, csym, nsf, row in (('silk_pitch_contour_cb_nb10ms', 'silk_CB_lags_stage2_10_ms', 2, 0), ('silk_pitch_contour_cb_nb20ms', 'silk_CB_lags_stage2', 4, 1),
                                   ('silk_pitch_contour_cb_mbwb10ms', 'silk_CB_lags_stage3_10_ms', 2, 2), ('silk_pitch_contour_cb_mbwb20ms', 'silk_CB_lags_stage3', 4, 3)):
        rows = [rfc.ints(r[1].replace('&nbsp;', ' ')) for r in c.tab(anchor).rows]
        if any(len(r) != nsf for r in rows) or len(rows) != int(pc.rows[row][2]):
            raise AnalysisBroken('RFC contour codebook %s malformed (or its size differs from the PDF table)' % anchor)
        n = len(rows)
        c.eq(anchor, 'contour codebook', [rows[i][k] for k in range(nsf) for i in range(n)], csym, F(csym), 'transposed: C is [subframe][index]')

    # ---- LTP
    c.pdf_rows('silk_perindex_pdf', 0, [whole('silk_LTP_per_index_iCDF')])
    c.pdf_rows('silk_ltp_filter_pdfs', 2, [whole('silk_LTP_gain_iCDF_%d' % i) for i in range(3)])
    lt = c.tab('silk_ltp_filter_pdfs')
    for i in range(3):
        anchor = 'silk_ltp_filter_coeffs%d' % i
        rows = [rfc.ints(r[1].replace('&nbsp;', ' ')) for r in c.tab(anchor).rows]
        if any(len(r) != 5 for r in rows) or len(rows) != int(lt.rows[i][1]):
            raise AnalysisBroken('RFC LTP codebook %s malformed' % anchor)
        c.eq(anchor, 'LTP filter taps', [x for r in rows for x in r], 'silk_LTP_gain_vq_%d' % i, F('silk_LTP_gain_vq_%d' % i), 'row-major, 5 taps per index')
    c.pdf_rows('silk_ltp_scaling_pdf', 0, [whole('silk_LTPscale_iCDF')])
    c.pdf_rows('silk_seed_pdf', 0, [whole('silk_uniform4_iCDF')])

    # ---- excitation
    rl = F('silk_rate_levels_iCDF')
    c.pdf_rows('silk_rate_level_pdfs', 1, [('silk_rate_levels_iCDF[%d]' % i, rl[9 * i:9 * i + 9]) for i in range(2)])
    pp = F('silk_pulses_per_block_iCDF')
    if len(pp) != 180:
        raise AnalysisBroken('silk_pulses_per_block_iCDF has %d entries' % len(pp))
    c.pdf_rows('silk_pulse_count_pdfs', 1, [('silk_pulses_per_block_iCDF[%d]' % i, pp[18 * i:18 * i + 18]) for i in range(10)] +
               [('silk_pulses_per_block_iCDF[9]+1', pp[18 * 9 + 1:18 * 10])])
    offs = F('silk_shell_code_table_offsets')
    for lvl in range(4):
        anchor = 'silk_shell_code%d_pdfs' % lvl
        tbl = F('silk_shell_code_table%d' % lvl)
        t = c.tab(anchor)
        targets = []
        for r in t.rows:
            p = int(r[0])
            targets.append(('silk_shell_code_table%d[offsets[%d]..]' % (lvl, p), tbl[offs[p]:offs[p] + p + 1]))
        c.pdf_rows(anchor, 1, targets)
    c.pdf_rows('silk_shell_lsb_pdf', 0, [whole('silk_lsb_iCDF')])
    sg = c.tab('silk_sign_pdfs')
    exp = []
    for r in sg.rows:
        p = rfc.pdf(r[3])
        if p is None or len(p[0]) != 2 or sum(p[0]) != 256:
            raise AnalysisBroken('RFC sign PDF malformed: %r' % r)
        exp.append(256 - p[0][0])
    c.eq('silk_sign_pdfs', 'P(positive)', exp, 'silk_sign_iCDF', F('silk_sign_iCDF'), 'icdf[0] = 256 - P(negative); 7 pulse classes x (signal type, offset type)')
    qo = [int(r[2]) for r in c.tab('silk_quantization_offsets').rows]
    cq = F('silk_Quantization_Offsets_Q10')
    if len(qo) != 6 or len(cq) != 4:
        raise AnalysisBroken('quantisation offset tables malformed')
    # C indexes [signalType>>1][offsetType]: inactive and unvoiced share row 0
    c.eq('silk_quantization_offsets', 'offsets', [4 * x for x in qo], 'silk_Quantization_Offsets_Q10[signalType>>1][offset]',
         [cq[2 * (st >> 1) + o] for st in range(3) for o in range(2)], 'Q10 = 4 x the RFC unit (e_raw<<8), rows shared by inactive/unvoiced')

    # ---- CELT
    bs = [r for r in c.tab('celt_band_sizes').rows if r[0].strip().isdigit()]
    eb = F('eband5ms')
    for j, mult in ((1, 1), (2, 2), (3, 4), (4, 8)):
        c.eq('celt_band_sizes', 'bins per band, column %d' % j, [int(r[j]) for r in bs], 'eband5ms (differences x%d)' % mult,
             [(eb[i + 1] - eb[i]) * mult for i in range(len(eb) - 1)], 'band width = (eBands[i+1]-eBands[i]) << LM')
    sa_ = c.tab('static_alloc')
    ba = F('band_allocation')
    rows = [[int(x) for x in r] for r in sa_.rows]
    if len(rows) != 21 or any(len(r) != 11 for r in rows):
        raise AnalysisBroken('RFC static allocation table malformed')
    c.eq('static_alloc', 'allocation', [rows[b][q] for q in range(11) for b in range(21)], 'band_allocation', ba, 'transposed: C is [quality][band]')
    sym = {r[0]: r[1] for r in c.tab('celt_symbols').rows}
    c.eq('celt_symbols', 'alloc. trim', _icdf(sym['alloc. trim'], 128), 'trim_icdf', F('trim_icdf'), 'pdf->icdf with ft=128')
    c.eq('celt_symbols', 'spread', _icdf(sym['spread'], 32), 'spread_icdf', F('spread_icdf'), 'pdf->icdf with ft=32')
    c.eq('celt_symbols', 'tapset', _icdf(sym['tapset'], 4), 'tapset_icdf', F('tapset_icdf'), 'pdf->icdf with ft=4')
    tf = F('tf_select_table')
    if len(tf) != 32:
        raise AnalysisBroken('tf_select_table has %d entries' % len(tf))
    for tr in (0, 1):
        for sel in (0, 1):
            anchor = 'tf_%d%d' % (tr, sel)
            rows = [[int(x) for x in r[1:]] for r in c.tab(anchor).rows]
            if len(rows) != 4:
                raise AnalysisBroken('RFC table %s malformed' % anchor)
            c.eq(anchor, 'TF adjustment', [rows[lm][k] for lm in range(4) for k in range(2)],
                 'tf_select_table[LM][4*%d+2*%d+k]' % (tr, sel), [tf[8 * lm + 4 * tr + 2 * sel + k] for lm in range(4) for k in range(2)],
                 'index 4*isTransient + 2*tf_select + tf_changed')
    return c


def r03_2(rep, prog):
    """silk_NLSF_unpack splits an ec_sel entry as (>>1)&7, &1, (>>5)&7, (>>4)&1"""
    f = prog.fn('silk_NLSF_unpack')
    rep.functions.add(f.name)
    shifts = set()
    for n in f.all_nodes():
        if n[0] == 'bin' and n[1] == '&' and sx.int_val(n[3]) is not None:
            l = sx.strip(n[2])
            mask = sx.int_val(n[3])
            if sx.kind(l) == 'bin' and l[1] == '>>' and sx.int_val(l[3]) is not None:
                root = sx.strip(l[2])
                if sx.kind(root) == 'local' and root[1] == 'entry':
                    shifts.add((sx.int_val(l[3]), mask))
            elif sx.kind(l) == 'local' and l[1] == 'entry':
                shifts.add((0, mask))
    want = {(1, 7), (0, 1), (5, 7), (4, 1)}
    if shifts == want:
        rep.holds('R03.2', '%s:silk_NLSF_unpack entry layout' % prog.config, f.where(), 'fields (shift,mask) = %s' % sorted(shifts))
    else:
        rep.violated('R03.2', '%s:silk_NLSF_unpack entry layout' % prog.config, f.where(),
                     'entry is split as %s, the RFC selection tables are packed as %s' % (sorted(shifts), sorted(want)), key='unpack-layout')


DEC_ICDF = {'ec_dec_icdf': 1, 'ec_dec_icdf16': 1}
DECODER_ROOTS = ('opus_decode_native', 'opus_decode_frame', 'silk_Decode', 'celt_decode_with_ec_dred', 'celt_decode_with_ec')

# tables that reach decoder sites but are printed by the RFC in prose, not as a <texttable>
PROSE_ONLY = {
    'small_energy_icdf': 'RFC 4.3.2.1: "{2, 1, 1}/4" in running text (checked for well-formedness by C17)',
    'silk_uniform6_iCDF': None,   # mapped
}


def reach(prog, roots):
    seen = set()
    work = [prog.functions[r] for r in roots if r in prog.functions]
    while work:
        f = work.pop()
        if id(f) in seen:
            continue
        seen.add(id(f))
        yield f
        for cnode in f.calls():
            fs, ext, ok = prog.callees(f, cnode)
            for g in fs:
                if id(g) not in seen:
                    work.append(g)


def r03_34(rep, prog, cmp_):
    pt = PointsTo(prog)
    funcs = list(reach(prog, DECODER_ROOTS))
    if len(funcs) < 60:
        raise AnalysisBroken('decoder call graph has only %d functions' % len(funcs))
    site_sets = {}
    reached_tables = set()
    refd = set()
    for f in funcs:
        for n in f.all_nodes():
            if n[0] == 'global':
                refd.add(n[1])
        for cnode in f.calls():
            cn = sx.callee_name(cnode)
            if cn in DEC_ICDF:
                objs = sorted(pt.pts(f, cnode[2][DEC_ICDF[cn]]))
                if not objs:
                    # stack-built 2-entry tables (sign, laplace p0) have no static table
                    objs = ['<stack>']
                site_sets.setdefault(f.name, []).append(objs)
                reached_tables.update(o for o in objs if o != '<stack>')
    # closure of referenced globals through pointer tables / struct members
    work = list(refd)
    while work:
        g = prog.globals.get(work.pop())
        if g is None or 'init' not in g:
            continue
        for it in flatten(g['init']):
            if isinstance(it, dict) and 'addr' in it and it['addr'] not in refd:
                refd.add(it['addr'])
                work.append(it['addr'])
    # R03.4a: every mapped C table is decoder-reachable
    mapped = {s.split(' ')[0].split('::')[-1] if '::' in s else s.split(' ')[0] for s in cmp_.csyms}
    missing = sorted(m for m in mapped if m not in refd and ('silk_NLSF2A::' + m) not in refd)
    if missing:
        rep.unresolved('R03.4', 'mapped tables not referenced from the decoder call graph (anchor moved?): %s' % missing)
    else:
        rep.holds('R03.4', '%s:%d mapped C tables are all referenced from the decoder call graph (%d functions)' % (prog.config, len(mapped), len(funcs)), None, None)
    # R03.4b: every table reaching a decoder iCDF site is mapped or prose-only
    unmapped = sorted(t for t in reached_tables if t not in mapped and PROSE_ONLY.get(t) is None)
    if unmapped:
        for t in unmapped:
            rep.violated('R03.4', '%s:decoder iCDF table %s is a normative RFC table' % (prog.config, t), prog.globals.get(t, {}).get('loc'),
                         'a decoder ec_dec_icdf site can read table %s, which is not one of the tables the RFC defines' % t, key='unmapped:' + t)
    else:
        rep.holds('R03.4', '%s:%d tables reaching decoder iCDF sites are all RFC-mapped (prose-only: %s)' %
                  (prog.config, len(reached_tables), sorted(t for t in reached_tables if PROSE_ONLY.get(t))), None, None)
    # R03.3 site binding
    canon = {fn: sorted('|'.join(s) for s in sets) for fn, sets in site_sets.items()}
    if os.environ.get('VERIF_C03_WRITE_SITES'):
        json.dump({'comment': 'decoder function -> sorted list of table sets reaching its ec_dec_icdf sites (generated once from the pinned tree, each confirmed against the RFC section that defines the symbol)', 'sites': canon},
                  open(SITES_SPEC, 'w'), indent=1, sort_keys=True)
    try:
        spec = json.load(open(SITES_SPEC))['sites']
    except (OSError, ValueError, KeyError):
        raise AnalysisBroken('spec/c03_sites.json missing')
    for fn in sorted(set(spec) | set(canon)):
        f = prog.functions.get(fn)
        where = f.where() if f else None
        a, b = spec.get(fn), canon.get(fn)
        if a == b:
            rep.holds('R03.3', '%s:%s reads its %d symbols with the bound tables' % (prog.config, fn, len(b)), where, '; '.join(b)[:300], n=len(b))
        elif a is None:
            rep.violated('R03.3', '%s:%s is a new decoder iCDF reader' % (prog.config, fn), where, 'tables %s; no RFC symbol is bound to this function' % b, key='site:' + fn)
        elif b is None:
            rep.unresolved('R03.3', 'decoder function %s (bound to RFC symbols) no longer has ec_dec_icdf sites' % fn, where)
        else:
            gone = [x for x in a if x not in b]
            new = [x for x in b if x not in a]
            rep.violated('R03.3', '%s:%s reads its symbols with the bound tables' % (prog.config, fn), where,
                         'site table sets changed: expected %s, now %s' % (gone or a, new or b), key='site:' + fn)


def r03_5(rep, prog, tables):
    """selector decision tables of silk_decoder_set_fs against the RFC's rows"""
    f = prog.fn('silk_decoder_set_fs')
    rep.functions.add(f.name)
    pfs = f.param_index('fs_kHz')
    if pfs is None:
        raise AnalysisBroken('silk_decoder_set_fs has no fs_kHz parameter')
    kfs = ('param', pfs)
    knb = ('field', ('param', 0), 'nb_subfr')

    def vals_of(obj):
        return [x for x in flatten(prog.table(obj))]

    # low bits of the absolute pitch lag: RFC row whose Scale column is fs_kHz/2
    lowt = tables['silk_abs_pitch_low_pdf']
    res, nst = decide.selector_table(f, 'pitch_lag_low_bits_iCDF', [{kfs: fs} for fs in (8, 12, 16)])
    if nst < 3:
        rep.unresolved('R03.5', 'fewer than 3 stores to pitch_lag_low_bits_iCDF in silk_decoder_set_fs')
    for val, objs, definite in res:
        fs = val[kfs]
        row = [r for r in lowt.rows if rfc.ints(r[2]) == [fs // 2]]
        inst = '%s:pitch_lag_low_bits_iCDF for fs_kHz=%d is the RFC PDF with scale %d' % (prog.config, fs, fs // 2)
        if len(row) != 1:
            raise AnalysisBroken('RFC table silk_abs_pitch_low_pdf has no unique row with scale %d' % (fs // 2))
        exp = _icdf(row[0][1])
        if len(objs) == 1 and objs[0] in prog.globals and vals_of(objs[0]) == exp:
            rep.holds('R03.5', inst, f.where(), 'selects %s' % objs[0])
        elif not objs or any(o not in prog.globals for o in objs):
            rep.unresolved('R03.5', 'cannot resolve the table selected for fs_kHz=%d: %s' % (fs, objs), f.where())
        else:
            rep.violated('R03.5', inst, f.where(), 'selects %s, RFC requires iCDF %s' % (objs, exp), key='lowbits:%d' % fs)
    # contour PDFs: RFC rows (bandwidth, frame size)
    ct = tables['silk_pitch_contour_pdfs']
    res, nst = decide.selector_table(f, 'pitch_contour_iCDF', [{kfs: fs, knb: nb} for fs in (8, 12, 16) for nb in (2, 4)])
    if nst < 4:
        rep.unresolved('R03.5', 'fewer than 4 stores to pitch_contour_iCDF in silk_decoder_set_fs')
    for val, objs, definite in res:
        fs, nb = val[kfs], val[knb]
        bw = 'NB' if fs == 8 else 'MB or WB'
        ms = '10' if nb == 2 else '20'
        row = [r for r in ct.rows if r[0] == bw and r[1].startswith(ms)]
        if len(row) != 1:
            raise AnalysisBroken('RFC table silk_pitch_contour_pdfs has no unique row for %s %s ms' % (bw, ms))
        exp = _icdf(row[0][3])
        inst = '%s:pitch_contour_iCDF for fs_kHz=%d nb_subfr=%d is the RFC PDF for (%s, %s ms)' % (prog.config, fs, nb, bw, ms)
        if len(objs) == 1 and objs[0] in prog.globals and vals_of(objs[0]) == exp:
            rep.holds('R03.5', inst, f.where(), 'selects %s' % objs[0])
        elif not objs or any(o not in prog.globals for o in objs):
            rep.unresolved('R03.5', 'cannot resolve the contour table selected for fs_kHz=%d nb_subfr=%d: %s' % (fs, nb, objs), f.where())
        else:
            rep.violated('R03.5', inst, f.where(), 'selects %s, RFC requires iCDF %s' % (objs, exp), key='contour:%d:%d' % (fs, nb))
    # NLSF codebook object by bandwidth
    res, nst = decide.selector_table(f, 'psNLSF_CB', [{kfs: fs} for fs in (8, 12, 16)])
    for val, objs, definite in res:
        fs = val[kfs]
        want = 16 if fs == 16 else 10
        inst = '%s:NLSF codebook for fs_kHz=%d has order %d' % (prog.config, fs, want)
        if len(objs) == 1 and objs[0] in prog.globals and isinstance(prog.globals[objs[0]].get('init'), dict):
            got = prog.globals[objs[0]]['init'].get('order')
            if got == want:
                rep.holds('R03.5', inst, f.where(), 'selects %s' % objs[0])
            else:
                rep.violated('R03.5', inst, f.where(), 'selects %s (order %s)' % (objs[0], got), key='nlsfcb:%d' % fs)
        else:
            rep.unresolved('R03.5', 'cannot resolve the NLSF codebook selected for fs_kHz=%d: %s' % (fs, objs), f.where())


PCM_TYPES = ('opus_res *', 'opus_val16 *', 'opus_val32 *', 'opus_int16 *', 'float *', 'celt_sig *', 'const opus_res *')


def r03_6(rep, prog):
    """channel-interleave discipline of the decoder's frame assembly: every
    pointer offset into an interleaved PCM buffer (pcm, transition and
    redundancy scratch) in opus_decode_frame / opus_decode_native is a multiple
    of the decoder's channel count - a bare sample offset would cross-fade or
    place stereo audio at half the intended time"""
    n = 0
    for f in roles.frame_decoders(prog) + [prog.fn('opus_decode_native')]:
        fname = f.name
        rep.functions.add(fname)
        pcmvars = {('param', i) for i, q in enumerate(f.params) if q['type'] in PCM_TYPES and q['name'].startswith('pcm')}
        for l in f.locals.values():
            if (l.get('type') in PCM_TYPES or str(l.get('type', '')).startswith(('opus_res[', 'opus_val16[', 'opus_int16['))) and (l['name'].startswith('pcm') or l['name'].startswith('redundant_audio')):
                pcmvars.add(('local', l['id']))
        seen = set()
        for node in f.all_nodes():
            if node[0] == 'bin' and node[1] in ('+', '-') and sx.A(node).get('ptr'):
                l, r = sx.strip(node[2]), sx.strip(node[3])
                base, off = (l, r) if sx.key(l) in pcmvars else ((r, l) if sx.key(r) in pcmvars else (None, None))
                if base is None:
                    continue
                k = sx.key(node)
                if k in seen:
                    continue
                seen.add(k)
                n += 1
                where = '%s:%s' % (f.file, sx.line(node) or f.line)
                inst = '%s:%s offset `%s` into interleaved %s is a multiple of st->channels' % (prog.config, fname, sx.show(off)[:40], sx.show(base))
                ok = sx.int_val(off) == 0 or (sx.kind(off) == 'bin' and off[1] == '*' and any(sx.kind(sx.strip(x)) == 'field' and sx.strip(x)[3] == 'channels' and sx.strip(x)[2] == 'OpusDecoder' for x in (off[2], off[3])))
                if ok:
                    rep.holds('R03.6', inst, where, None)
                else:
                    rep.violated('R03.6', inst, where, 'offset is counted in samples of one channel, the buffer is interleaved (st->channels values per sample time)', key='%s:stride:%s' % (fname, sx.show(node)[:50]))
    if n < 6:
        rep.unresolved('R03.6', 'only %d PCM pointer offsets found in the decoder frame assembly' % n)


def r03_7(rep, prog):
    """unrolled symmetric FIR filters of the SILK down-sampler: every tap pair
    buf[a] + buf[b] that shares a coefficient satisfies a + b = order - 1, and
    the coefficient index is the smaller tap (linear phase); a mispaired tap
    changes the decoded PCM at exactly one output rate"""
    fname = 'silk_resampler_private_down_FIR_INTERPOL'
    if not prog.has_fn(fname):
        rep.unresolved('R03.7', '%s not found' % fname)
        return
    f = prog.fn(fname)
    rep.functions.add(fname)
    cf = cfgm.CFG(f)
    groups = {}
    for b, i, n in cf.find(lambda n: n[0] == 'bin' and n[1] == '+' and not sx.A(n).get('ptr')):
        l, r = sx.strip(n[2]), sx.strip(n[3])
        if sx.kind(l) == 'idx' and sx.kind(r) == 'idx' and sx.key(sx.strip(l[1])) == sx.key(sx.strip(r[1])) and sx.int_val(l[2]) is not None and sx.int_val(r[2]) is not None:
            groups.setdefault(b, []).append((sx.int_val(l[2]), sx.int_val(r[2]), sx.line(n)))
    if len(groups) < 2:
        rep.unresolved('R03.7', 'expected two unrolled symmetric FIR loops in %s, found %d' % (fname, len(groups)))
        return
    for b, pairs in sorted(groups.items()):
        sums = {}
        for a, c, ln in pairs:
            sums.setdefault(a + c, []).append((a, c, ln))
        order = max(len(pairs) * 2, 1)
        inst = '%s:%s %d-tap symmetric FIR pairs taps a and %d-a' % (prog.config, fname, order, order - 1)
        where = '%s:%s' % (f.file, pairs[0][2])
        lows = sorted(min(a, c) for a, c, ln in pairs)
        if len(sums) == 1 and list(sums)[0] == order - 1 and lows == list(range(order // 2)):
            rep.holds('R03.7', inst, where, '%d pairs, each summing to %d' % (len(pairs), order - 1))
        else:
            odd = [p_ for s_, ps in sums.items() if s_ != order - 1 for p_ in ps] or [p_ for p_ in pairs]
            rep.violated('R03.7', inst, '%s:%s' % (f.file, odd[0][2]), 'pair (%d, %d) breaks the symmetry (sums found: %s): the filter no longer matches the reference resampler at this ratio' %
                         (odd[0][0], odd[0][1], sorted(sums)), key='fir-pair:%d' % order)


# ------------------------------------------------------------------ R03.10
def r03_10(rep, prog):
    """the post-filter cross-fades from the old to the new comb filter over the overlap; the cross-fade may be skipped
    only when the filter did not change at all.  comb_filter() takes the old and new filter as parameter pairs
    (X0, X1); the condition under which it zeroes `overlap` must contain X0 == X1 for EVERY such pair."""
    n = 0
    for f in prog.functions_all:
        if not f.file.startswith('celt/') or not f.name.startswith('comb_filter') or f.name.endswith('_const_c') or 'const' in f.name:
            continue
        names = [q['name'] for q in f.params]
        pairs = [(a, a[:-1] + '1') for a in names if a.endswith('0') and a[:-1] + '1' in names]
        if len(pairs) < 2:
            continue
        cf = cfgm.CFG(f)
        ov = [q for q in names if q == 'overlap']
        zero = [(b, i, s_) for b, i, s_ in cf.positions() if s_[0] == 'assign' and sx.kind(sx.strip(s_[1])) == 'param' and sx.strip(s_[1])[2] == 'overlap' and sx.int_val(sx.strip(s_[2])) == 0]
        if not zero:
            continue
        rep.functions.add(f.name)
        for b, i, s_ in zero:
            eqs = set()
            for c, pol, gb in cfgm.guards_of(cf, b):
                if c is None:
                    continue
                for a in guards.atoms(c, pol):
                    if a[0] == '==' and isinstance(a[1], tuple) and isinstance(a[2], tuple) and a[1][0] == 'param' and a[2][0] == 'param':
                        eqs.add(frozenset((names[a[1][1]], names[a[2][1]])))
            if not eqs:
                continue     # the `g0 == 0 && g1 == 0` early-out style tests, not the unchanged-filter shortcut
            n += 1
            missing = [p for p in pairs if frozenset(p) not in eqs]
            inst = '%s:%s skips the cross-fade only when old and new filter agree in every parameter' % (prog.config, f.name)
            where = '%s:%s' % (f.file, sx.line(s_))
            if missing:
                rep.violated('R03.10', inst, where, 'the shortcut does not compare %s: two frames with the same period and gain but a different %s jump from one filter to the other without the cross-fade' % (
                    ', '.join('%s/%s' % p for p in missing), missing[0][0][:-1]), key=f.name + ':unchanged-shortcut')
            else:
                rep.holds('R03.10', inst, where, 'compares %s' % ', '.join('%s/%s' % p for p in pairs))
    return n


# ------------------------------------------------------------------ R03.11
def _is_edge_load(e):
    e = sx.strip(e)
    if sx.kind(e) != 'idx':
        return False
    b = sx.strip(e[1])
    return (sx.kind(b) == 'field' and b[3] == 'eBands') or (sx.kind(b) in ('param', 'local') and (b[2] if sx.kind(b) == 'param' else b[1]) == 'eBands')


def r03_11(rep, prog):
    """the bit allocation is translation invariant: in celt/rate.c the band-edge table enters only through DIFFERENCES of
    two of its entries (band widths and spans).  An absolute edge makes the allocation depend on where the coded range
    starts (band 17 in hybrid mode, 0 in MDCT-only mode): the hybrid bit allocation then differs from the reference
    decoder's, a skip flag is read or not read, and the rest of the frame is parsed out of step.  A load may also be
    kept in a local, provided every use of that local is again such a difference."""
    n = 0
    for f in prog.functions_all:
        if f.file != 'celt/rate.c':
            continue
        loads = []
        parents = {}
        for top in f.all_nodes():
            for c in sx.children(top):
                parents[id(c)] = top
        # locals that hold an edge
        edge_locals = set()
        for x in f.all_nodes():
            if x[0] == 'assign' and sx.kind(sx.strip(x[1])) == 'local' and _is_edge_load(x[2]):
                edge_locals.add(sx.strip(x[1])[2])
            if sx.kind(x) == 'decls':
                for d in x[1]:
                    if d[0] == 'decl' and d[3] is not None and _is_edge_load(d[3]):
                        edge_locals.add(d[2])

        def is_edge(e):
            e = sx.strip(e)
            return _is_edge_load(e) or (sx.kind(e) == 'local' and e[2] in edge_locals)

        def in_difference(x):
            p = parents.get(id(x))
            while p is not None and sx.kind(p) in ('paren', 'cast'):
                x, p = p, parents.get(id(p))
            if p is not None and p[0] == 'cassign' and p[1] == '-' and is_edge(p[2]) and is_edge(p[3]):
                return True                  # `w -= edge` with w holding an edge: w becomes a width
            return p is not None and sx.kind(p) == 'bin' and p[1] == '-' and is_edge(p[2]) and is_edge(p[3])
        for x in f.all_nodes():
            if _is_edge_load(x) and x is sx.strip(x):
                p = parents.get(id(x))
                while p is not None and sx.kind(p) in ('paren', 'cast'):
                    p = parents.get(id(p))
                if p is not None and ((p[0] == 'assign' and sx.kind(sx.strip(p[1])) == 'local' and sx.strip(p[1])[2] in edge_locals) or p[0] == 'decl' or sx.kind(p) == 'decls'):
                    continue        # stored into an edge local: the uses of the local are checked instead
                loads.append(x)
            elif sx.kind(x) == 'local' and x[2] in edge_locals:
                p = parents.get(id(x))
                if p is not None and p[0] == 'assign' and sx.strip(p[1]) is x:
                    continue        # the defining store
                loads.append(x)
        flagged = set()
        for x in loads:
            n += 1
            rep.functions.add(f.name)
            inst = '%s:%s uses the band edge `%s` only in a difference of two edges (line %s)' % (prog.config, f.name, sx.show(x)[:28], sx.line(x))
            where = '%s:%s' % (f.file, sx.line(x))
            if not in_difference(x):
                if inst in flagged:
                    continue          # the same source expression repeated by a macro expansion
                flagged.add(inst)
            if in_difference(x):
                rep.holds('R03.11', inst, where, 'operand of a difference of two band edges')
            else:
                rep.violated('R03.11', inst, where, 'an absolute band edge enters the bit allocation: the result depends on the position of the first coded band (17 in hybrid mode), not only on band widths',
                             key='%s:absolute-edge:%s' % (f.name, sx.show(x)[:24].replace(' ', '')))
    return n


# ------------------------------------------------------------------ R03.12
def r03_12(rep, prog):
    """a remembered configuration is compared before it is overwritten.  The decoder keeps the previous packet's
    configuration in state fields (`psDec->nChannelsInternal = decControl->nChannelsInternal`) and hands state over when a
    test on the old and the new value fires (mono -> stereo: clear the predictor and the side history, copy the resampler).
    If the update runs first, the test compares the value with itself: the hand-over block is dead code although every
    line of it is still there.  Decided per store `state field := plain read R` of the decoder layer: over all valuations of
    the compared quantities (constants the code compares them with, plus one fresh value) a block that is reachable when the
    field is free but unreachable under every valuation with field == R, behind branch conditions that all execute after the
    store, is a violation.  Conditions that can still reach the store see the old value and are left unknown."""
    import itertools
    n = 0
    for f in prog.functions_all:
        if not (f.file.startswith('silk/dec') or f.file in ('src/opus_decoder.c', 'celt/celt_decoder.c', 'silk/decoder_set_fs.c')):
            continue
        condkeys = {}
        for b in f.blocks:
            t = f.blocks[b].get('term')
            if t and 'cond' in t:
                for x in sx.walk(t['cond']):
                    if sx.kind(x) in ('field', 'param', 'local'):
                        condkeys.setdefault(sx.key(x), set()).add(b)
        stores = {}
        for bid, st in f.stmts():
            for x in sx.walk(st):
                if x[0] == 'assign' and sx.kind(sx.strip(x[1])) == 'field':
                    stores.setdefault(sx.key(sx.strip(x[1])), []).append((bid, x))
        ties = []
        for kf, sts in stores.items():
            if len(sts) != 1 or kf not in condkeys:
                continue
            bid, x = sts[0]
            r = sx.strip(x[2])
            if sx.kind(r) not in ('field', 'param') or sx.key(r) not in condkeys or sx.key(r) in stores or sx.key(r) == kf:
                continue
            ties.append((kf, sx.key(r), bid, x))
        if not ties:
            continue
        cf = cfgm.CFG(f)
        # constants the tied quantities are compared with
        consts = set()
        for b in f.blocks:
            t = f.blocks[b].get('term')
            if t and 'cond' in t:
                for x in sx.walk(t['cond']):
                    if sx.kind(x) == 'bin' and x[1] in ('==', '!=', '<', '<=', '>', '>='):
                        for a_, c_ in ((x[2], x[3]), (x[3], x[2])):
                            if sx.key(sx.strip(a_)) in [t_[0] for t_ in ties] + [t_[1] for t_ in ties] and sx.int_val(sx.strip(c_)) is not None:
                                consts.add(sx.int_val(sx.strip(c_)))
        if not consts or len(consts) > 4 or len(ties) > 3:
            continue
        dom = sorted(consts) + [max(consts) + 1]
        fkeys = [t_[0] for t_ in ties]
        rkeys = sorted(set(t_[1] for t_ in ties), key=str)
        # every live condition on a tied field must execute after its store
        ok = True
        for kf, kr, bid, x in ties:
            for b in condkeys[kf]:
                if bid in cf.reachable_from(b) or b == bid:
                    continue        # sees the old value: left unknown by feasible_blocks
                if not cf.dominates(bid, b):
                    ok = False
        if not ok:
            continue
        free, tied = set(), set()
        for rv in itertools.product(dom, repeat=len(rkeys)):
            base = dict(zip(rkeys, rv))
            tv = dict(base)
            for kf, kr, _, _ in ties:
                tv[kf] = base[kr]
            tied |= decide.feasible_blocks(cf, tv)
            for fv in itertools.product(dom, repeat=len(fkeys)):
                v = dict(base)
                v.update(zip(fkeys, fv))
                free |= decide.feasible_blocks(cf, v)
        dead = sorted((free - tied), reverse=True)
        dead = [b for b in dead if f.blocks[b]['stmts'] and all(cf.dominates(t_[2], b) for t_ in ties)]
        n += 1
        rep.functions.add(f.name)
        names = ', '.join('`%s`' % sx.show(t_[3])[:60] for t_ in ties)
        inst = '%s:%s compares remembered configuration before overwriting it (%d field(s))' % (prog.config, f.name, len(ties))
        where = '%s:%s' % (f.file, sx.line(ties[0][3]))
        if dead:
            ln = [sx.line(s_) for s_ in f.blocks[dead[0]]['stmts'] if sx.line(s_)]
            rep.violated('R03.12', inst, where, 'after %s the block at line %s can no longer run: its guard compares the stored field with the value it was just given (reachable for %d valuation(s) of old/new value, for none once old == new). The hand-over it performs (state cleared / copied on a configuration change) is skipped' % (
                names, ln[0] if ln else '?', len(dom) ** (len(rkeys) + len(fkeys))), key='%s:tied-dead:%s' % (f.name, ','.join(str(t_[0][-1]) for t_ in ties)))
        else:
            rep.holds('R03.12', inst, where, '%s; %d x %d valuations, no block reachable only when old != new lies after the store' % (names, len(dom) ** len(rkeys), len(dom) ** len(fkeys)))
    return n


def check(rep, prog, tier):
    r03_12(rep, prog)
    r03_11(rep, prog)
    r03_10(rep, prog)
    tables, digest = rfc.load()
    rep.extra['rfc_tables_parsed'] = len(tables)
    rep.extra['rfc_table_payload_sha256'] = digest
    cmp_ = r03_1(rep, prog, tables)
    r03_2(rep, prog)
    r03_34(rep, prog, cmp_)
    r03_5(rep, prog, tables)
    r03_6(rep, prog)
    r03_7(rep, prog)
    from . import deadstate
    if deadstate.check(rep, 'R03.9', prog, 'decoder') == 0 and prog.config.split('+')[0] in ('float', 'fixed'):
        rep.unresolved('R03.9', 'no written state fields found')
    from . import chanstate
    chanstate.check(rep, 'R03.8', prog, 'celt_decode_with_ec_dred', 'two')
    rep.extra['programs'] = rep.extra.get('programs', 0) + cmp_.n
    rep.extra['disagreements_checked'] = rep.extra.get('disagreements_checked', 0) + cmp_.bad
    rep.extra.setdefault('translation_samples', []).extend(cmp_.samples if prog.config == 'float' else [])
