"""Shared by C13 (R13.8) and C19 (R19.8): the decoder's use of the soft clipper with its own memory.

The function that hands the decoder's `softclip_mem` to the soft clipper is found by role (any function of
src/ with a call whose argument reads the field `softclip_mem`).  Two facts are decided there:

 always-when-asked (C13): the call is control-dependent on nothing but the caller's request flag - every
   16-bit output that was asked to be clipped IS clipped.  An extra condition (mode, bandwidth, gain ...)
   makes some 16-bit outputs differ from soft_clip(float output).
 memory contract (C19): on the complementary branch both memory cells are cleared, so that a later
   clipped frame starts from `no excursion pending` (the public clipper's contract for memory).
"""
from .. import sx, cfg as cfgm
from ..compdb import AnalysisBroken


def sites(prog):
    out = []
    for f in prog.functions_all:
        if not f.file.startswith('src/'):
            continue
        for c in f.calls():
            if any(sx.kind(x) == 'field' and x[3] == 'softclip_mem' for a in c[2] for x in sx.walk(a)):
                out.append((f, c))
    return out


def check(rep, prog, rule, part):
    ss = sites(prog)
    if not ss:
        if 'FIXED_POINT' in prog.macros or prog.config.startswith('fixed') or prog.config == 'nofloatapi':
            rep.holds(rule, '%s: no soft clipping with decoder memory in this configuration' % prog.config, None, 'fixed-point build: 16-bit output is the native format')
            return 1
        rep.unresolved(rule, '%s: no call passing the decoder\'s softclip_mem was found' % prog.config)
        return 0
    n = 0
    for f, c in ss:
        rep.functions.add(f.name)
        cg = cfgm.CFG(f)
        pos = [(b, i) for b, i, s_ in cg.positions() if any(x is c for x in sx.walk(s_))]
        if not pos:
            continue
        cb = pos[0][0]
        # the return reached after the call, and the guards the call has beyond those of that return
        after = [b for b in cg.reachable_from(cb) | {cb} if any(sx.kind(s_) == 'ret' for s_ in cg.blocks[b]['stmts'])]
        if len(after) != 1:
            rep.unresolved(rule, '%s:%s: %d returns follow the soft-clip call' % (prog.config, f.name, len(after)))
            continue
        rb = after[0]
        gcall = [(sx.key(sx.strip(cnd)), pol, gb, cnd) for cnd, pol, gb in cfgm.guards_of(cg, cb) if cnd is not None]
        gret = {(sx.key(sx.strip(cnd)), pol) for cnd, pol, gb in cfgm.guards_of(cg, rb) if cnd is not None}
        extra = [(k, pol, gb, cnd) for k, pol, gb, cnd in gcall if (k, pol) not in gret]
        where = '%s:%s' % (f.file, sx.line(c))
        n += 1
        if part == 'always':
            inst = '%s:%s soft-clips the 16-bit output whenever the caller asks for it' % (prog.config, f.name)
            ok = len(extra) == 1 and extra[0][1] is True and sx.kind(sx.strip(extra[0][3])) == 'param'
            if ok:
                rep.holds(rule, inst, where, 'the call depends on `%s` alone' % sx.show(extra[0][3]))
            else:
                rep.violated(rule, inst, where, 'the call is reached only under %s: frames for which the extra condition fails are converted without the soft clipper' % (
                    ' && '.join('%s%s' % ('' if pol else '!', sx.show(cnd)) for k, pol, gb, cnd in extra) or '(no request flag at all)'), key=f.name + ':softclip-guard')
        else:
            inst = '%s:%s clears the soft-clip memory when a frame is not clipped' % (prog.config, f.name)
            req = [e for e in extra if sx.kind(sx.strip(e[3])) == 'param']
            if not req:
                rep.unresolved(rule, inst + ': request flag not identified')
                continue
            gb = req[0][2]
            other = [s2 for s2, pol in cg.edges(gb) if pol is False]
            if not other:
                rep.unresolved(rule, inst + ': no complementary branch')
                continue
            # blocks that store 0 into softclip_mem[k]
            zero = {}
            for b, i, s_ in cg.positions():
                for x in sx.walk(s_):
                    if x[0] == 'assign':
                        lvs = []
                        y = x
                        while sx.kind(y) == 'assign':
                            lvs.append(sx.strip_paren(y[1]))
                            y = sx.strip_paren(y[2])
                        if sx.int_val(y) == 0 or (sx.kind(y) == 'flt' and float(y[1]) == 0.0):
                            for lv in lvs:
                                if sx.kind(lv) == 'idx' and sx.kind(sx.strip(lv[1])) == 'field' and sx.strip(lv[1])[3] == 'softclip_mem' and sx.int_val(lv[2]) is not None:
                                    zero.setdefault(sx.int_val(lv[2]), set()).add(b)
            ncell = 2
            missing = []
            for k in range(ncell):
                through = zero.get(k, set())
                if not through or not cg.must_pass_live(other[0], {rb}, through):
                    if other[0] in through:
                        continue
                    missing.append(k)
            if missing:
                rep.violated(rule, inst, where, 'when `%s` is false the return at line %s is reached without clearing softclip_mem[%s]: a stale excursion coefficient bends the start of the next clipped frame' % (
                    sx.show(req[0][3]), sx.line(cg.blocks[rb]['stmts'][-1]), ', '.join(map(str, missing))), key=f.name + ':softclip-mem')
            else:
                rep.holds(rule, inst, where, 'both cells stored 0 on the branch where `%s` is false' % sx.show(req[0][3]))
    return n
