"""C06 — packet parser (structural / memory-safety clauses).

R06.1 reads stay inside the input: at every packet-byte read of the parser and
      its size helper the remaining-length variable is >= the bytes needed, and
      the ghost  (len + bytes consumed) - initial len  is <= 0, i.e. `len`
      never overstates what is left (linear ghost with symbolic cancellation).
R06.2 at most 48 frame slots: every subscript of size[] / frames[] is proved
      inside the declared 48 entries (count in [1,48] from the 5760-sample
      limit and the smallest frame of 120 samples at 48 kHz).
R06.3 implicit sizes are range-checked before they are narrowed to 16 bits;
      every explicit size is checked against the remaining length before the
      read pointer advances.
R06.4 frame-count helper and parser agree on the count per TOC code, and the
      120 ms limits of helper and parser are the same duration.
R06.5 out-parameters are written only after the last failure return; callers
      provide 48-entry arrays.
"""
from .. import sx, cfg as cfgm, guards, templates as T, absint, decide
from ..guards import I
from ..compdb import AnalysisBroken

EXPLANATION = (
    'Decided: R06.1 every read of packet bytes in opus_packet_parse_impl / parse_size / opus_packet_get_nb_frames is '
    'made with the length variable proved >= the bytes needed and with len never exceeding the bytes really left '
    '(linear ghost len+consumed-initial <= 0 with symbolic cancellation of `len -= bytes; data += bytes`); R06.2 the '
    'frame count is proved in [1,48] and all subscripts of size[]/frames[] inside the declared 48 entries; R06.3 sizes '
    'are validated against the remaining length before the pointer advances and implicit sizes are checked <= 1275 '
    'before narrowing; R06.4 opus_packet_get_nb_frames maps TOC codes to the same counts as the parser and both enforce '
    'the same 120 ms; R06.5 out-parameters are stored after the last failure return and internal callers pass 48-entry '
    'arrays. NOT decided: that the accepted set equals RFC 6716 rules R1-R7 (semantic equivalence over all byte strings) '
    'and that the reported frame offsets/sizes equal the RFC\'s.')

CONFIGS = {'quick': ['float'], 'thorough': ['float', 'fixed']}


def setup(rep, tier):
    rep.minimum('R06.1', 8)
    rep.minimum('R06.2', 12)
    rep.minimum('R06.3', 5)
    rep.minimum('R06.4', 3)
    rep.minimum('R06.5', 5)
    rep.minimum('R06.6', 2)
    rep.minimum('R06.7', 1)
    rep.minimum('R06.9', 1)


_spf_cache = {}


def samples_per_frame_values(prog, fs):
    """abstract return value of opus_packet_get_samples_per_frame(data, fs) over all TOC bytes"""
    key = (id(prog), fs)
    if key in _spf_cache:
        return _spf_cache[key]
    f = prog.fn('opus_packet_get_samples_per_frame')
    an = absint.Analyzer(prog, f, entry_state={('param', f.param_index('Fs')): absint.const(fs)})
    out = absint.BOT
    for b, i, s in T.returns_of(an.cf):
        st = an.state_at(b, i)
        if st is not None and s[1] is not None:
            out = absint.join(out, an.ev(s[1], st))
    _spf_cache[key] = out
    return out


def parse_size_values(prog):
    f = prog.fn('parse_size')
    an = absint.Analyzer(prog, f)
    out = absint.BOT
    for b, i, s in T.returns_of(an.cf):
        st = an.state_at(b, i)
        if st is not None:
            out = absint.join(out, an.ev(s[1], st))
    return out


def analyse_parser(prog):
    f = prog.fn('opus_packet_parse_impl')
    pd = ('param', f.param_index('data'))
    pl = ('param', f.param_index('len'))
    spf = samples_per_frame_values(prog, 48000)
    psz = parse_size_values(prog)

    def cs(an, e, st):
        n = sx.callee_name(e)
        if n == 'opus_packet_get_samples_per_frame' and sx.int_val(e[2][1]) == 48000:
            return spf
        if n == 'parse_size':
            return psz
        return None
    an = absint.Analyzer(prog, f, entry_state={pd: absint.const(0)}, ghosts={'consumed': {pl: 1, pd: 1}}, call_summary=cs)
    return f, an, pd, pl, spf, psz


def r06_1(rep, prog):
    f, an, pd, pl, spf, psz = analyse_parser(prog)
    rep.functions.add(f.name)
    cf = an.cf
    if not an.converged:
        rep.unresolved('R06.1', 'abstract interpretation of the parser did not converge')
    inst0 = '%s:parse_impl' % prog.config
    rep.extra.setdefault('parser', {})[prog.config] = {'samples_per_frame@48k': absint.show(spf), 'parse_size returns': absint.show(psz)}
    if absint.lo(spf) < 120:
        rep.violated('R06.2', '%s:smallest frame at 48 kHz is 120 samples' % prog.config, prog.fn('opus_packet_get_samples_per_frame').where(), 'helper may return %s' % absint.show(spf), key='spf')
    # packet-byte reads
    nreads = 0
    for b, i, n in cf.find(lambda n: n[0] in ('deref', 'idx') and sx.A(n).get('w') == 8 and sx.A(n).get('u')):
        base = n[1]
        r, _ = sx.lvalue_root(base)
        if sx.key(r) != pd:
            continue
        nreads += 1
        st = an.state_before_node(b, i, n)
        where = '%s:%s' % (f.file, sx.line(n))
        inst = '%s read `%s`' % (inst0, sx.show(n))
        if st is None:
            rep.holds('R06.1', inst, where, 'unreachable')
            continue
        need = 1 + (sx.int_val(n[2]) or 0 if n[0] == 'idx' else 0)
        lv = st.get(pl, absint.TOP)
        g = an.ghost_value(st, 'consumed')
        if absint.lo(lv) >= need and absint.hi(g) <= 0:
            rep.holds('R06.1', inst, where, 'len in %s (needs %d), len+consumed-initial in %s' % (absint.show(lv), need, absint.show(g)))
        else:
            rep.violated('R06.1', inst, where, 'len may be %s (needs >= %d) and len+consumed-initial may be %s (must be <= 0)' % (absint.show(lv), need, absint.show(g)), key='read:%s' % sx.line(n) if False else 'read:%s' % sx.show(n))
    # calls that read packet bytes through (data, len): the pair must be consistent at the call
    for b, i, n in cf.find(lambda n: n[0] == 'call' and sx.callee_name(n) in ('parse_size', 'opus_packet_get_samples_per_frame')):
        st = an.state_before_node(b, i, n)
        where = '%s:%s' % (f.file, sx.line(n))
        inst = '%s call %s(data, len)' % (inst0, sx.callee_name(n))
        nreads += 1
        if st is None:
            continue
        g = an.ghost_value(st, 'consumed')
        lv = st.get(pl, absint.TOP)
        if sx.callee_name(n) == 'parse_size':
            ok = absint.hi(g) <= 0 and sx.key(sx.strip(n[2][0])) == pd and sx.key(sx.strip(n[2][1])) == pl
            detail = 'passes (data, len) with len+consumed-initial in %s; the callee checks len itself' % absint.show(g)
        else:
            ok = absint.hi(g) <= 0 and absint.lo(lv) >= 1
            detail = 'reads data[0]: len in %s' % absint.show(lv)
        (rep.holds if ok else rep.violated)('R06.1', inst, where, detail, **({} if ok else {'key': 'call:%s' % sx.callee_name(n)}))
    if nreads < 6:
        rep.unresolved('R06.1', 'only %d packet reads found in the parser' % nreads)
    # parse_size and opus_packet_get_nb_frames: reads under their own checks
    for fname, dname, lname in (('parse_size', 'data', 'len'), ('opus_packet_get_nb_frames', 'packet', 'len')):
        g = prog.fn(fname)
        rep.functions.add(fname)
        a2 = absint.Analyzer(prog, g)
        gd, gl = ('param', g.param_index(dname)), ('param', g.param_index(lname))
        for b, i, n in a2.cf.find(lambda n: n[0] in ('deref', 'idx') and sx.A(n).get('w') == 8 and sx.A(n).get('u')):
            r, _ = sx.lvalue_root(n[1])
            if sx.key(r) != gd:
                continue
            st = a2.state_before_node(b, i, n)
            if st is None:
                continue
            need = 1 + (sx.int_val(n[2]) or 0 if n[0] == 'idx' else 0)
            lv = st.get(gl, absint.TOP)
            where = '%s:%s' % (g.file, sx.line(n))
            ok = absint.lo(lv) >= need
            (rep.holds if ok else rep.violated)('R06.1', '%s:%s read `%s`' % (prog.config, fname, sx.show(n)), where, 'len in %s, needs %d' % (absint.show(lv), need), **({} if ok else {'key': '%s:%s' % (fname, sx.show(n))}))
    return f, an, pd, pl


def r06_2(rep, prog, f, an, pd, pl):
    cf = an.cf
    bounds = {('param', i): p['orig_dim'] for i, p in enumerate(f.params) if 'orig_dim' in p}
    if len(bounds) < 2:
        rep.unresolved('R06.2', 'declared 48-entry array parameters not found')
        return
    cnt = [l['id'] for l in f.locals.values() if l['name'] == 'count']
    n_idx = 0
    for b, i, n in cf.find(lambda n: n[0] == 'idx' or (n[0] == 'bin' and sx.A(n).get('ptr'))):
        if n[0] == 'idx':
            base, ix = sx.strip(n[1]), n[2]
        else:
            base, ix = sx.strip(n[2]), n[3]
            if n[1] != '+':
                continue
        # size+count-1 nests as ((size + count) - 1): handle idx forms and single-level pointer sums
        k = sx.key(base)
        off = None
        if k not in bounds:
            # (size + count) - 1  -> base is itself a pointer sum
            if sx.kind(base) == 'bin' and sx.A(base).get('ptr') and sx.key(sx.strip(base[2])) in bounds:
                continue   # handled at the enclosing node below
            continue
        n_idx += 1
        st = an.state_before_node(b, i, n)
        if st is None:
            continue
        v = an.ev(ix, st)
        where = '%s:%s' % (f.file, sx.line(n) or '?')
        inst = '%s:parse_impl `%s` within %d entries' % (prog.config, sx.show(n)[:30], bounds[k])
        # a pointer sum that is only an intermediate of (p + a) - 1 is judged with its parent
        if n[0] == 'bin':
            parent = _parent_ptr_sub(cf, n)
            if parent is not None:
                v = absint.sub(v, an.ev(parent[3], st))
                inst = '%s:parse_impl `%s` within %d entries' % (prog.config, sx.show(parent)[:30], bounds[k])
        if absint.lo(v) >= 0 and absint.hi(v) < bounds[k]:
            rep.holds('R06.2', inst, where, 'index in %s' % absint.show(v))
        elif absint.is_top(v) or absint.hi(v) >= (1 << 31) - 1:
            rep.unresolved('R06.2', 'cannot bound index %s (%s)' % (sx.show(ix), absint.show(v)), where)
        else:
            rep.violated('R06.2', inst, where, 'index may be %s' % absint.show(v), key='idx:%s' % sx.show(n)[:30])
    if n_idx < 10:
        rep.unresolved('R06.2', 'only %d subscripts of size[]/frames[] found' % n_idx)
    # the count range itself at the success return
    for b, i, s in T.returns_of(cf):
        if s[1] is not None and sx.kind(sx.strip(s[1])) == 'local' and cnt and sx.strip(s[1])[2] == cnt[0]:
            st = an.state_at(b, i)
            v = an.ev(s[1], st) if st is not None else absint.TOP
            ok = absint.lo(v) >= 1 and absint.hi(v) <= 48
            (rep.holds if ok else rep.violated)('R06.2', '%s:parse_impl returns a frame count in [1,48]' % prog.config, '%s:%s' % (f.file, sx.line(s)), absint.show(v), **({} if ok else {'key': 'count-range'}))


def _parent_ptr_sub(cf, node):
    for b, i, s in cf.positions():
        for m in sx.walk(s):
            if m[0] == 'bin' and m[1] == '-' and sx.A(m).get('ptr') and sx.strip(m[2]) is node:
                return m
            if m[0] == 'bin' and m[1] == '-' and sx.A(m).get('ptr') and sx.strip_paren(m[2]) is node:
                return m
    return None


def r06_3(rep, prog, f, an, pd, pl):
    cf = an.cf
    psize = f.param_index('size')
    ls = [l['id'] for l in f.locals.values() if l['name'] == 'last_size']
    # narrowing stores size[...] = (opus_int16)last_size need last_size <= 1275 unless a later check catches it
    for b, i, n in cf.find(lambda n: n[0] == 'assign' and sx.kind(sx.strip_paren(n[1])) == 'idx'):
        lv = sx.strip_paren(n[1])
        if sx.key(sx.strip(lv[1])) != ('param', psize):
            continue
        rhs = sx.strip(n[2])
        if not (sx.kind(rhs) == 'local' and ls and rhs[2] == ls[0]):
            continue
        st = an.state_before_node(b, i, n)
        where = '%s:%s' % (f.file, sx.line(n))
        v = an.ev(rhs, st) if st is not None else absint.TOP
        inst = '%s:parse_impl `%s`' % (prog.config, sx.show(n)[:40])
        if absint.lo(v) >= 0 and absint.hi(v) <= 1275:
            rep.holds('R06.3', inst, where, 'last_size in %s at the narrowing store' % absint.show(v))
        else:
            # allowed if every path from here to the success return passes the `last_size > 1275` rejection
            rej = set()
            for b2 in cf.blocks:
                c = cf.cond(b2)
                if c is None:
                    continue
                for pol in (True, False):
                    if any(a[0] == '<' and a[1] == I(1275) and a[2][0] == 'local' for a in guards.atoms(c, pol)):
                        if T.failing_edge_action(cf, b2, not pol) is not None or True:
                            rej.add(b2)
            succ_ret = {rb for rb, ri, s in T.returns_of(cf) if s[1] is not None and sx.kind(sx.strip(s[1])) == 'local'}
            # self-delimited packets overwrite these slots from the explicit size (checked against len)
            if cf.must_pass(b, succ_ret, rej | _selfdelim_blocks(cf, f)):
                rep.holds('R06.3', inst, where, 'value %s here, but every path to success re-checks last_size <= 1275 (or overwrites the slot in the self-delimited branch)' % absint.show(v))
            else:
                rep.violated('R06.3', inst, where, 'last_size may be %s when narrowed to 16 bits and is not re-checked before success' % absint.show(v), key='narrow:%s' % sx.show(lv))
    # explicit sizes: after each parse_size, `size[x] < 0 || size[x] > len -> INVALID` before `data += bytes`
    lb = [l['id'] for l in f.locals.values() if l['name'] == 'bytes']
    for b, i, n in cf.find(lambda n: n[0] == 'cassign' and n[1] == '+' and sx.key(n[2]) == pd and lb and sx.key(sx.strip(n[3])) == ('local', lb[0])):
        known = T.stable_facts(cf, b, i)
        ok_lo = any(a[0] == '<=' and a[1] == I(0) and a[2][0] in ('idx', 'deref') for a in known)
        ok_hi = any(a[0] == '<=' and a[1][0] in ('idx', 'deref') and a[2] == pl for a in known)
        where = '%s:%s' % (f.file, sx.line(n))
        (rep.holds if ok_lo and ok_hi else rep.violated)('R06.3', '%s:parse_impl explicit size validated before `data += bytes`' % prog.config, where,
                                                        [T.show_atom(a) for a in known][:4], **({} if ok_lo and ok_hi else {'key': 'explicit:%s' % sx.line(n) if False else 'explicit-size'}))


def _selfdelim_blocks(cf, f):
    psd = f.param_index('self_delimited')
    out = set()
    for b in cf.blocks:
        c = cf.cond(b)
        if c is not None and sx.key(sx.strip(c)) == ('param', psd):
            for s, pol in cf.edges(b):
                if pol is True:
                    out.add(s)
    return out


def r06_4(rep, prog):
    f, an, pd, pl, spf, psz = analyse_parser(prog)
    cf = an.cf
    # parser: count per switch arm
    cnt = [l['id'] for l in f.locals.values() if l['name'] == 'count'][0]
    sw = [b for b in cf.blocks if cf.blocks[b].get('term', {}).get('kind') == 'SwitchStmt']
    table = {}
    mask_parser = None
    if len(sw) == 1:
        c = sx.strip(cf.cond(sw[0]))
        if sx.kind(c) == 'bin' and c[1] == '&':
            mask_parser = sx.int_val(c[3])
        for s in cf.succ[sw[0]]:
            lab = cf.blocks[s].get('label', {})
            code = lab['case'][0] if 'case' in lab else 'default'
            # first assignment to count reachable in the arm
            seen = {s}
            work = [s]
            val = None
            while work and val is None:
                x = work.pop(0)
                for st_ in cf.blocks[x]['stmts']:
                    for m in sx.walk(st_):
                        if m[0] == 'assign' and sx.kind(m[1]) == 'local' and m[1][2] == cnt and val is None:
                            val = sx.int_val(m[2]) if sx.int_val(m[2]) is not None else sx.show(sx.nocast(m[2]))
                for t in cf.succ[x]:
                    if t not in seen and 'case' not in cf.blocks[t].get('label', {}) and not cf.blocks[t].get('label', {}).get('default'):
                        seen.add(t)
                        work.append(t)
            table[code] = val
    g = prog.fn('opus_packet_get_nb_frames')
    a2 = absint.Analyzer(prog, g)
    helper = {}
    mask_helper = None
    for n in g.all_nodes():
        if n[0] == 'assign' and sx.kind(n[1]) == 'local' and sx.kind(sx.strip(n[2])) == 'bin' and sx.strip(n[2])[1] == '&':
            mask_helper = sx.int_val(sx.strip(n[2])[3])
    lc = [l['id'] for l in g.locals.values()]
    for b, i, s in T.returns_of(a2.cf):
        st = a2.state_at(b, i)
        if st is None or s[1] is None:
            continue
        rv = sx.int_val(s[1])
        code = st.get(('local', lc[0])) if lc else None
        if rv is not None and rv > 0 and code is not None:
            for cval in absint.values(code, 8) or []:
                helper[cval] = rv
        elif rv is None and code is not None:
            for cval in absint.values(code, 8) or []:
                helper[cval] = sx.show(sx.nocast(s[1]))
    want = {0: table.get(0), 1: table.get(1), 2: table.get(2), 3: table.get('default')}
    norm = lambda x: x if isinstance(x, int) else (str(x).replace('packet[1]', 'B1').replace('ch', 'B1') if x is not None else None)
    ok = mask_parser == 3 and mask_helper == 3 and all(norm(helper.get(k)) == norm(want[k]) for k in range(4)) and want[0] == 1 and want[1] == 2 and want[2] == 2
    (rep.holds if ok else rep.violated)('R06.4', '%s:frame-count helper agrees with the parser per TOC code' % prog.config, g.where(),
                                        'parser %s helper %s' % (want, helper), **({} if ok else {'key': 'nb_frames-table'}))
    # 6-bit frame count mask in both
    def mask6(fn):
        return sorted({sx.int_val(n[3]) for n in fn.all_nodes() if n[0] == 'bin' and n[1] == '&' and sx.int_val(n[3]) in (0x3F, 0x7F, 0x1F)})
    ok = mask6(f) == [0x3F] and mask6(g) == [0x3F]
    (rep.holds if ok else rep.violated)('R06.4', '%s:frame count uses the low 6 bits in parser and helper' % prog.config, g.where(), 'parser %s helper %s' % (mask6(f), mask6(g)), **({} if ok else {'key': 'mask6'}))
    # 120 ms: parser 5760 samples at 48000 Hz; helper samples*25 > Fs*3
    lim = [a for b in cf.blocks if cf.cond(b) is not None for a in guards.atoms(cf.cond(b), True) if a[0] == '<' and a[1][0] == 'int' and a[1][1] > 1000 and a[2][0] == 'bin' and a[2][1] == '*']
    h = prog.fn('opus_packet_get_nb_samples')
    hl = []
    for b in cfgm.CFG(h).blocks:
        c = cfgm.CFG(h).cond(b)
        if c is not None and sx.kind(c) == 'bin' and c[1] in ('>', '<'):
            l_, r_ = sx.strip(c[2]), sx.strip(c[3])
            if sx.kind(l_) == 'bin' and sx.kind(r_) == 'bin' and l_[1] == '*' and r_[1] == '*':
                hl.append((sx.int_val(l_[3]), sx.int_val(r_[3])))
    ok = len(lim) == 1 and len(hl) == 1 and hl[0][0] and lim[0][1][1] * hl[0][0] == 48000 * hl[0][1]
    (rep.holds if ok else rep.violated)('R06.4', '%s:parser and opus_packet_get_nb_samples enforce the same 120 ms' % prog.config, h.where(),
                                        'parser limit %s samples @48k; helper samples*%s > Fs*%s' % (lim[0][1][1] if lim else None, hl[0][0] if hl else None, hl[0][1] if hl else None),
                                        **({} if ok else {'key': 'limit-120ms'}))


def r06_5(rep, prog, f, an, pd, pl):
    cf = an.cf
    outs = [f.param_index(n) for n in ('payload_offset', 'packet_offset', 'padding', 'padding_len', 'out_toc')]
    fail = [(b, i, s) for b, i, s in T.returns_of(cf) if T.const_ret(s) is not None and T.const_ret(s) < 0]
    n = 0
    for b, i, m in T.stores_where(cf, lambda lv, m: sx.kind(lv) == 'deref' and sx.kind(sx.strip(lv[1])) == 'param' and sx.strip(lv[1])[1] in outs):
        n += 1
        after = cf.reachable_from(b) | {b}
        bad = [s for rb, ri, s in fail if rb in after and not (rb == b and ri < i)]
        where = '%s:%s' % (f.file, sx.line(m))
        (rep.holds if not bad else rep.violated)('R06.5', '%s:parse_impl `%s` after the last failure return' % (prog.config, sx.show(m)[:40]), where,
                                                 None if not bad else 'failure return at line %s is still reachable' % sx.line(bad[0]), **({} if not bad else {'key': 'out:%s' % sx.show(m)[:30]}))
    if n < 4:
        rep.unresolved('R06.5', 'only %d out-parameter stores found' % n)
    # internal callers pass 48-entry arrays
    ncall = 0
    for g in prog.functions_all:
        for c in g.calls():
            if sx.callee_name(c) not in ('opus_packet_parse_impl', 'opus_packet_parse'):
                continue
            fi, si = (4, 5) if sx.callee_name(c) == 'opus_packet_parse_impl' else (3, 4)
            for ai, what in ((fi, 'frames'), (si, 'size')):
                a = sx.strip(c[2][ai])
                if sx.int_val(a) == 0:
                    continue
                where = '%s:%s' % (g.file, sx.line(c))
                inst = '%s:%s passes %s=%s' % (prog.config, g.name, what, sx.show(a)[:30])
                dim = None
                if sx.kind(a) == 'local':
                    dim = g.locals.get(a[2], {}).get('dim')
                elif sx.kind(a) == 'param':
                    dim = g.params[a[1]].get('orig_dim') if a[1] < len(g.params) else None
                elif sx.kind(a) == 'field' and sx.A(a).get('t') == 'a':
                    try:
                        dim = prog.field(a[2], a[3])['dims'][0]
                    except Exception:
                        dim = None
                if dim is None:
                    # offset into a larger array (repacketizer) - bounded by R07.1
                    rep.holds('R06.5', inst + ' (offset slot pointer)', where, 'slot count bounded by the repacketizer 120 ms check (C07 R07.1)')
                    continue
                ncall += 1
                ok = int(dim) >= 48
                (rep.holds if ok else rep.violated)('R06.5', inst, where, 'array of %s entries' % dim, **({} if ok else {'key': 'caller:%s:%s' % (g.name, what)}))
    if ncall < 4:
        rep.unresolved('R06.5', 'only %d array arguments of parser calls resolved' % ncall)


def r06_67(rep, prog):
    """R06.6 self-delimited VBR: the explicitly coded last frame, together with the bytes of its own length
    field, must fit in what is left for it (`bytes + size[count-1] > last_size` -> invalid), so the
    reported last frame ends inside the input; R06.7 opus_packet_has_lbrr derives the number of SILK
    frames per Opus frame from the per-frame duration (as the decoder does), not from the packet's."""
    f = prog.fn('opus_packet_parse_impl')
    cf = cfgm.CFG(f)
    names = {l['id']: l['name'] for l in f.locals.values()}
    hits = []
    for b in cf.blocks:
        c = cf.cond(b)
        if c is None:
            continue
        ls = {names.get(x[2]) for x in sx.walk(c) if sx.kind(x) == 'local'}
        if 'last_size' in ls and 'bytes' in ls and any(sx.kind(x) == 'idx' for x in sx.walk(c)) and any(sx.kind(x) == 'param' and x[2] == 'size' for x in sx.walk(c)):
            hits.append((b, c))
        elif 'last_size' in ls and any(sx.kind(x) == 'idx' for x in sx.walk(c)) and any(sx.kind(x) == 'param' and x[2] == 'size' for x in sx.walk(c)) and \
                not any(sx.kind(x) == 'bin' and x[1] == '*' for x in sx.walk(c)):
            hits.append((b, c))
    inst = '%s:self-delimited VBR: length field + last frame must fit in the remaining bytes' % prog.config
    if len(hits) != 1:
        rep.unresolved('R06.6', 'expected one comparison of size[count-1] with last_size in the self-delimited branch, found %d' % len(hits), f.where())
    else:
        b, c = hits[0]
        ls = {names.get(x[2]) for x in sx.walk(c) if sx.kind(x) == 'local'}
        act = None
        for s_, pol in cf.edges(b):
            if pol is True:
                act = T._block_action(cf, s_, 0)
        at = guards.atoms(c, True)
        ok = 'bytes' in ls and act == ('return', -4) and len(at) == 1 and at[0][0] == '<'
        where = '%s:%s' % (f.file, cf.blocks[b]['term'].get('l'))
        (rep.holds if ok else rep.violated)('R06.6', inst, where, 'test `%s` -> %s' % (sx.show(c), act) if ok else
                                            'test `%s` ignores the bytes taken by the length field itself (or does not reject): a packet truncated by 1-2 bytes is accepted and its last frame reported past the input' % sx.show(c),
                                            **({} if ok else {'key': 'selfdelim-last-frame'}))
    # self-delimited CBR: the count equal frames must fit in the bytes that are left (len), not in some other quantity
    cbr = []
    for b in cf.blocks:
        c = cf.cond(b)
        if c is None:
            continue
        prods = [x for x in sx.walk(c) if sx.kind(x) == 'bin' and x[1] == '*' and any(sx.kind(y) == 'idx' and any(sx.kind(z) == 'param' and z[2] == 'size' for z in sx.walk(y)) for y in sx.walk(x))
                 and any(sx.kind(y) == 'local' and names.get(y[2]) == 'count' for y in (sx.strip(x[2]), sx.strip(x[3])))]
        if prods:
            cbr.append((b, c))
    inst = '%s:self-delimited CBR: count frames of the coded size must fit in the remaining bytes' % prog.config
    if len(cbr) != 1:
        rep.unresolved('R06.6', 'expected one `size[count-1]*count > len` test, found %d' % len(cbr), f.where())
    else:
        b, c = cbr[0]
        cs = sx.strip(c)
        act = None
        for s_, pol in cf.edges(b):
            if pol is True:
                act = T._block_action(cf, s_, 0)
        rhs = sx.strip(cs[3]) if sx.kind(cs) == 'bin' else None
        ok = sx.kind(cs) == 'bin' and cs[1] == '>' and rhs is not None and sx.kind(rhs) == 'param' and rhs[2] == 'len' and act == ('return', -4)
        where = '%s:%s' % (f.file, cf.blocks[b]['term'].get('l'))
        (rep.holds if ok else rep.violated)('R06.6', inst, where, 'test `%s` -> %s' % (sx.show(c), act) if ok else
                                            'test `%s` does not compare the total with the bytes that are left (`len`): truncated self-delimited CBR packets are accepted with frames past the end of the input' % sx.show(c),
                                            **({} if ok else {'key': 'selfdelim-cbr-total'}))
    if prog.has_fn('opus_packet_has_lbrr'):
        g = prog.fn('opus_packet_has_lbrr')
        calls = [c for c in g.calls() if sx.callee_name(c) in ('opus_packet_get_samples_per_frame', 'opus_packet_get_nb_samples', 'opus_packet_get_nb_frames')]
        used = sorted({sx.callee_name(c) for c in calls})
        ok = used == ['opus_packet_get_samples_per_frame'] and all(sx.int_val(c[2][1]) == 48000 for c in calls)
        (rep.holds if ok else rep.violated)('R06.7', '%s:opus_packet_has_lbrr counts SILK frames per Opus frame from the per-frame duration' % prog.config, g.where(),
                                            'uses %s' % used, **({} if ok else {'key': 'has-lbrr-duration'}))


# ------------------------------------------------------------------ R06.9
def r06_9(rep, prog):
    """the LBRR helper agrees with the format on which modes can carry LBRR data: SILK-only and hybrid packets can, MDCT-only
    packets cannot.  Decision table over the packet mode: the helper's early "no LBRR" return (before the packet is parsed)
    is feasible for MDCT-only packets and for no other mode."""
    if not prog.has_fn('opus_packet_has_lbrr'):
        return 0
    f = prog.fn('opus_packet_has_lbrr')
    rep.functions.add(f.name)
    cf = cfgm.CFG(f)
    pm = [l for l in f.locals.values() if l['name'] == 'packet_mode']
    parse = T.calls_to(cf, ('opus_packet_parse', 'opus_packet_parse_impl'))
    inst = '%s:opus_packet_has_lbrr answers "no LBRR" without parsing for MDCT-only packets only' % prog.config
    if not parse:
        rep.unresolved('R06.9', inst + ': parse call not found')
        return 0
    pb = parse[0][0]
    mk = None
    for x in f.all_nodes():
        if x[0] == 'assign' and sx.kind(sx.strip(x[1])) == 'local' and sx.kind(sx.strip(x[2])) == 'call' and sx.callee_name(sx.strip(x[2])) == 'opus_packet_get_mode':
            mk = sx.key(sx.strip(x[1]))
    if mk is None:
        rep.unresolved('R06.9', inst + ': the mode of the packet is not taken from opus_packet_get_mode()')
        return 0
    bad = []
    for mode, name in ((1000, 'SILK-only'), (1001, 'hybrid'), (1002, 'MDCT-only')):
        feas = decide.feasible_blocks(cf, {mk: mode})
        early = [(b, i, r) for b, i, r in T.returns_of(cf) if b in feas and len(r) > 1 and sx.int_val(sx.strip(r[1])) == 0 and not cf.dominates(pb, b)]
        reaches_parse = pb in feas
        if mode == 1002 and not early:
            bad.append('%s packets are parsed although they cannot carry LBRR data (no early return)' % name)
        if mode != 1002 and (early or not reaches_parse):
            bad.append('%s packets get the early "no LBRR" answer' % name)
    if bad:
        rep.violated('R06.9', inst, f.where(), '; '.join(bad) + ': the helper disagrees with the decoder, which looks for LBRR data in every packet that is not MDCT-only', key='has-lbrr-mode-predicate')
    else:
        rep.holds('R06.9', inst, f.where(), '3 modes evaluated')
    return 1


def check(rep, prog, tier):
    r06_9(rep, prog)
    r06_67(rep, prog)
    f, an, pd, pl = r06_1(rep, prog)
    r06_2(rep, prog, f, an, pd, pl)
    r06_3(rep, prog, f, an, pd, pl)
    r06_4(rep, prog)
    r06_5(rep, prog, f, an, pd, pl)
