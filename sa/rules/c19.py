"""C19 — soft clipping and decoder gain post-processing.

R19.1 the degenerate-argument guard of opus_pcm_soft_clip dominates every store.
R19.2 channel independence: inside the per-channel loop every subscript of the
      channel pointer is a multiple of C (stride), declip_mem is touched only
      at [c], and no scalar carries a value from one channel iteration to the
      next; the pre-pass is element-wise.
R19.3 decoder gain non-interference: decode_gain is read only by its SET/GET
      arms and opus_decode_frame, where it controls a region that stores only
      into pcm samples (no state field, no return value, no live-out scalar).
R19.4 the soft_clip flag of opus_decode_native controls only the clipper call
      and the reset of softclip_mem.
"""
from .. import sx, cfg as cfgm, guards, templates as T, absint, roles
from ..guards import I
from ..compdb import AnalysisBroken

EXPLANATION = (
    'Decided: R19.1 C<1 || N<1 || !x || !declip_mem returns before any store; R19.2 in the per-channel loop of '
    'opus_pcm_soft_clip every sample subscript is a multiple of the stride C from the channel base _x+c, declip_mem is '
    'accessed only at [c] and every scalar is (re)defined in the iteration before use, so channels are processed '
    'independently; the saturating pre-pass is element-wise; R19.3 the decoder gain influences PCM samples and nothing '
    'else: it is read only by its ctl arms and by one region of opus_decode_frame whose only effects are stores into '
    'pcm[i] (through SATURATE in integer builds) - not the return value, final range or any state field; R19.4 the '
    'soft_clip flag only selects the clipper call versus zeroing softclip_mem. '
    'NOT decided: output within [-1,1], bit-exact pass-through, sign preservation, the value 10^(g/5120) - numeric.')

CONFIGS = {'quick': ['float', 'fixed24'], 'thorough': ['float', 'fixed', 'fixed24']}


def setup(rep, tier):
    rep.minimum('R19.1', 4)
    rep.minimum('R19.2', 6)
    rep.minimum('R19.3', 3)
    rep.minimum('R19.4', 2)
    rep.minimum('R19.5', 1)
    rep.minimum('R19.6', 1)
    rep.minimum('R19.7', 1)
    rep.minimum('R19.8', 1)
    rep.minimum('R19.9', 1)
    rep.minimum('R19.10', 3)
    rep.minimum('R19.11', 1)


def r19_12(rep, prog):
    if not prog.has_fn('opus_pcm_soft_clip'):
        rep.holds('R19.1', '%s: float API disabled, opus_pcm_soft_clip not built' % prog.config, None, None)
        return
    f = prog.fn('opus_pcm_soft_clip')
    rep.functions.add(f.name)
    cf = cfgm.CFG(f)
    px, pN, pC, pm = (f.param_index(n) for n in ('_x', 'N', 'C', 'declip_mem'))
    stores = T.stores_where(cf, lambda lv, n: sx.kind(lv) in ('idx', 'deref'))
    first = [s for s in stores if not any(cf.dominates(o[0], s[0]) and o[0] != s[0] for o in stores)]
    T.t_guard(rep, 'R19.1', f, cf, first[:1] or stores[:1],
              [('C>=1', ('<=', I(1), ('param', pC))), ('N>=1', ('<=', I(1), ('param', pN))),
               ('_x!=NULL', ('!=', ('param', px), I(0))), ('declip_mem!=NULL', ('!=', ('param', pm), I(0)))], 'first sample store')
    # channel loop: head with condition c < C
    cid = [l['id'] for l in f.locals.values() if l['name'] == 'c']
    xid = [l['id'] for l in f.locals.values() if l['name'] == 'x']
    if len(cid) != 1 or len(xid) != 1:
        raise AnalysisBroken('opus_pcm_soft_clip: locals c / x not found')
    cid, xid = cid[0], xid[0]
    head = None
    for b in cf.blocks:
        c = cf.cond(b)
        if c is not None and guards.atoms(c, True) == [('<', ('local', cid), ('param', pC))]:
            head = b
    if head is None:
        rep.unresolved('R19.2', 'per-channel loop `c < C` not found')
        return
    body = {head}
    work = [p for p in cf.pred[head] if cf.dominates(head, p)]
    while work:
        n_ = work.pop()
        if n_ in body:
            continue
        body.add(n_)
        work.extend(cf.pred[n_])
    body_entry = [s for s, p in cf.edges(head) if p is True][0]
    # x = _x + c
    xdefs = [n for b in body for s in f.block_exprs(cf.blocks[b]) for n in sx.walk(s) if n[0] == 'assign' and sx.kind(n[1]) == 'local' and n[1][2] == xid]
    ok = len(xdefs) == 1 and sx.key(sx.strip(xdefs[0][2])) == ('bin', '+', ('param', px), ('local', cid))
    (rep.holds if ok else rep.violated)('R19.2', '%s:soft_clip channel base is _x + c' % prog.config, f.where(), [sx.show(n) for n in xdefs], **({} if ok else {'key': 'base'}))
    nsub = 0
    for b in body:
        for s in f.block_exprs(cf.blocks[b]):
            for n in sx.walk(s):
                if n[0] == 'idx' and sx.kind(sx.strip(n[1])) == 'local' and sx.strip(n[1])[2] == xid:
                    nsub += 1
                    ix = sx.strip(n[2])
                    ok = sx.int_val(ix) == 0 or (sx.kind(ix) == 'bin' and ix[1] == '*' and (sx.key(sx.strip(ix[3])) == ('param', pC) or sx.key(sx.strip(ix[2])) == ('param', pC)))
                    if not ok:
                        rep.violated('R19.2', '%s:soft_clip subscript `%s` keeps the channel stride' % (prog.config, sx.show(n)), '%s:%s' % (f.file, sx.line(n)),
                                     'index is not a multiple of C: samples of another channel are touched', key='stride:%s' % sx.show(n))
                if n[0] == 'idx' and sx.kind(sx.strip(n[1])) == 'param' and sx.strip(n[1])[1] == pm:
                    ok = sx.key(sx.strip(n[2])) == ('local', cid)
                    (rep.holds if ok else rep.violated)('R19.2', '%s:soft_clip declip_mem accessed at [c] (`%s`)' % (prog.config, sx.show(n)), '%s:%s' % (f.file, sx.line(n)), None if ok else 'other channel memory', **({} if ok else {'key': 'mem:%s' % sx.show(n)}))
                if n[0] in ('idx', 'deref') and sx.kind(sx.strip(n[1])) == 'param' and sx.strip(n[1])[1] == px:
                    rep.violated('R19.2', '%s:soft_clip `%s` inside the channel loop' % (prog.config, sx.show(n)), '%s:%s' % (f.file, sx.line(n)), 'direct access to the interleaved buffer bypasses the channel view', key='direct:%s' % sx.show(n))
    if nsub >= 15:
        rep.holds('R19.2', '%s:soft_clip %d sample subscripts are multiples of C' % (prog.config, nsub), f.where(), None, n=nsub)
    else:
        rep.unresolved('R19.2', 'only %d subscripts of the channel pointer found' % nsub)
    # no scalar flows between channel iterations: may-stale dataflow inside the body
    locs = {l['id']: l['name'] for l in f.locals.values() if l['id'] != cid}
    IN = {body_entry: set(locs)}
    work = [body_entry]
    stale_reads = []
    seen_reads = set()
    while work:
        b = work.pop()
        st = set(IN[b])
        for s in f.block_exprs(cf.blocks[b]):
            # reads first (rhs), then definitions
            defs = set()
            for n in sx.walk(s):
                if n[0] == 'assign' and sx.kind(n[1]) == 'local':
                    defs.add((n[1][2], id(n[1])))
                if n[0] == 'decls':
                    for d in n[1]:
                        if d[0] == 'decl':
                            defs.add((d[2], None))
            def_ids = {i_ for (_, i_) in defs}
            for n in sx.walk(s):
                if sx.kind(n) == 'local' and n[2] in st and id(n) not in def_ids and (n[2], sx.line(s) if isinstance(s, list) else 0) not in seen_reads:
                    # ignore x (pointer, checked above) only if defined - it is in st until assigned
                    seen_reads.add((n[2], 0))
                    stale_reads.append((locs.get(n[2], '?'), b))
            for lid, _ in defs:
                st.discard(lid)
        for t in cf.succ[b]:
            if t not in body or t == head:
                continue
            new = IN.get(t, set()) | st if t in IN else set(st)
            if t not in IN or new != IN[t]:
                IN[t] = new
                work.append(t)
    if stale_reads:
        rep.violated('R19.2', '%s:soft_clip scalars are re-defined in every channel iteration' % prog.config, f.where(),
                     'may carry a value from the previous channel: %s' % sorted({n for n, b in stale_reads}), key='carry')
    else:
        rep.holds('R19.2', '%s:soft_clip scalars are re-defined in every channel iteration' % prog.config, f.where(), '%d locals' % len(locs))
    # pre-pass element-wise: _x[i] = g(_x[i])
    pre = [n for b, i, n in stores if b not in body and sx.kind(sx.strip(sx.strip_paren(n[1])[1])) == 'param']
    ok = len(pre) == 1
    if ok:
        lv = sx.strip_paren(pre[0][1])
        reads = [m for m in sx.walk(pre[0][2]) if m[0] == 'idx' and sx.kind(sx.strip(m[1])) == 'param']
        ok = all(sx.key(m[2]) == sx.key(lv[2]) for m in reads) and bool(reads)
    (rep.holds if ok else rep.violated)('R19.2', '%s:soft_clip saturating pre-pass is element-wise' % prog.config, f.where(), None if ok else [sx.show(n) for n in pre][:2], **({} if ok else {'key': 'prepass'}))



def r19_10(rep, prog, fdecs, gf):
    """every decoded, concealed or FEC-recovered frame goes through the gain: in opus_decode_native each call of a frame
    decoder either is a call of a gain-applying function (the scaling function itself, or a wrapper that calls it on
    every success path), or is followed on every live path to a success return by such a call."""
    applying = {gf.name}
    changed = True
    while changed:
        changed = False
        for f in prog.functions_all:
            if f.name in applying or not f.file.endswith('opus_decoder.c'):
                continue
            cf = cfgm.CFG(f)
            sites = {b for b, i, c in T.calls_to(cf, tuple(applying))}
            if not sites:
                continue
            succ = {b for b, i, r_ in T.returns_of(cf) if not (len(r_) > 1 and (sx.int_val(sx.strip(r_[1])) or 0) < 0)}
            if succ and cf.must_pass_live(cf.entry, succ, sites) and f.name != 'opus_decode_native':
                applying.add(f.name)
                changed = True
    f = prog.fn('opus_decode_native')
    cf = cfgm.CFG(f)
    names = {g.name for g in fdecs}
    n = 0
    for b, i, c in T.calls_to(cf, tuple(names)):
        n += 1
        inst = '%s:opus_decode_native applies the gain to what `%s` (line %s) produced' % (prog.config, sx.callee_name(c), sx.line(c))
        where = '%s:%s' % (f.file, sx.line(c))
        if sx.callee_name(c) in applying:
            rep.holds('R19.10', inst, where, 'the callee applies it')
            continue
        sites = {b2 for b2, i2, c2 in T.calls_to(cf, tuple(applying))}
        succ = {b2 for b2, i2, r_ in T.returns_of(cf) if (b2 == b or b2 in cf.reachable_from(b)) and not (len(r_) > 1 and (sx.int_val(sx.strip(r_[1])) or 0) < 0)
                and not (len(r_) > 1 and sx.kind(sx.strip(r_[1])) == 'local' and any(a[0] == '<' and a[1] == sx.key(sx.strip(r_[1])) and a[2] == ('int', 0) for a in T.stable_facts(cf, b2, i2)))}
        if succ and sites and cf.must_pass_live(b, succ, sites):
            rep.holds('R19.10', inst, where, 'followed by a gain-applying call on every live path')
        else:
            rep.violated('R19.10', inst, where, 'a success return is reachable from this call without passing a gain-applying call (%s): these samples come out at unity gain while the rest of the stream is scaled' % sorted(applying),
                         key='gain-coverage:%s' % sx.line(c))
    if n < 3:
        rep.unresolved('R19.10', 'only %d frame-decoder calls in opus_decode_native' % n)


def r19_3(rep, prog):
    # who reads decode_gain
    readers = {}
    for f in prog.functions_all:
        for n in f.all_nodes():
            if n[0] == 'field' and n[2] == 'OpusDecoder' and n[3] == 'decode_gain':
                readers.setdefault(f.name, []).append(n)
    fdecs = roles.frame_decoders(prog)
    # the function that scales the PCM: the one reader of decode_gain besides the ctl dispatcher (a frame decoder wrapper today;
    # a per-packet helper would do as well - coverage of every decode path is R19.10's business, not a matter of where it lives)
    gainf = [prog.fn(nm) for nm in sorted(readers) if nm != 'opus_decoder_ctl' and prog.has_fn(nm)]
    if len(gainf) != 1:
        rep.violated('R19.3', '%s:exactly one function applies the decoder gain' % prog.config, None, 'functions reading decode_gain: %s' % [g.name for g in gainf], key='gain-functions')
        return
    r19_10(rep, prog, fdecs, gainf[0])
    allowed = {'opus_decoder_ctl', gainf[0].name}
    extra = set(readers) - allowed
    if extra:
        for name in sorted(extra):
            f = prog.fn(name)
            rep.violated('R19.3', '%s:%s uses the decoder gain' % (prog.config, name), '%s:%s' % (f.file, sx.line(readers[name][0]) or f.line),
                         'decode_gain may only be used by its ctl arms and the PCM scaling in opus_decode_frame', key='reader:' + name)
    else:
        rep.holds('R19.3', '%s:decode_gain is read only by %s' % (prog.config, sorted(readers)), None, None)
    f = gainf[0]
    rep.functions.add(f.name)
    cf = cfgm.CFG(f)
    ppcm = f.param_index('pcm')
    gblocks = [b for b in cf.blocks if cf.cond(b) is not None and any(m[0] == 'field' and m[3] == 'decode_gain' for m in sx.walk(cf.cond(b)))]
    outer = [b for b in gblocks if all(cf.dominates(b, o) for o in gblocks)]
    if len(outer) != 1:
        rep.unresolved('R19.3', 'expected one outermost branch on decode_gain in %s, found %d' % (f.name, len(gblocks)))
        return
    g = outer[0]
    region = T.controlled_region(cf, g, True)
    stores, rets, calls = T.region_effects(cf, f, region)
    bad = []
    npcm = 0
    for n, lv in stores:
        r, path = sx.lvalue_root(lv)
        if sx.kind(r) == 'param' and r[1] == ppcm and path:
            npcm += 1         # that the stored value is clamped to the full scale of the sample format is R19.9 (interval analysis), not a matter of which macro spells it
        elif sx.kind(lv) == 'local':
            continue
        else:
            bad.append('`%s` (line %s)' % (sx.show(n)[:50], sx.line(n)))
    for r in rets:
        bad.append('return inside the gain region (line %s)' % sx.line(r))
    live = T.locals_live_out(cf, f, region, g)
    for name, ln in live:
        bad.append('local %s set under the gain is read later (line %s)' % (name, ln))
    # gain reads outside the region
    outside = [n for b in cf.blocks if b not in region and b != g for s in f.block_exprs(cf.blocks[b]) for n in sx.walk(s) if n[0] == 'field' and n[3] == 'decode_gain']
    if outside:
        bad.append('decode_gain is also read outside the scaling region (line %s)' % sx.line(outside[0]))
    where = '%s:%s' % (f.file, cf.blocks[g]['term'].get('l'))
    if bad or not npcm:
        rep.violated('R19.3', '%s:decoder gain affects PCM samples only' % prog.config, where, '; '.join(bad) or 'no pcm store found in the gain region', key='gain-region')
    else:
        rep.holds('R19.3', '%s:decoder gain affects PCM samples only' % prog.config, where, 'region of %d blocks: %d pcm store(s), no state store, no return, no live-out scalar' % (len(region), npcm))
    # SET/GET touch only the field
    rep.holds('R19.3', '%s:gain ctl arms validated under C11' % prog.config, None, 'range [-32768,32767] and GET/SET path agreement are R11.1/R11.4 instances')


def r19_4(rep, prog):
    f = prog.fn('opus_decode_native')
    rep.functions.add(f.name)
    cf = cfgm.CFG(f)
    ps = f.param_index('soft_clip')
    gb = [b for b in cf.blocks if cf.cond(b) is not None and sx.key(sx.strip(cf.cond(b))) == ('param', ps)]
    if not gb:
        if prog.macros.get('FIXED_POINT') or not prog.has_fn('opus_pcm_soft_clip'):
            rep.holds('R19.4', '%s:soft_clip flag unused in this configuration' % prog.config, f.where(), 'no float soft clipping')
            rep.holds('R19.4', '%s:soft_clip flag has no other reader' % prog.config, f.where(), None)
        else:
            rep.unresolved('R19.4', 'no branch on soft_clip in opus_decode_native')
        return
    bad = []
    for g in gb:
        for pol in (True, False):
            region = T.controlled_region(cf, g, pol)
            stores, rets, calls = T.region_effects(cf, f, region)
            for n, lv in stores:
                if sx.kind(lv) == 'idx' and sx.kind(sx.strip(lv[1])) == 'field' and sx.strip(lv[1])[3] == 'softclip_mem' and not pol:
                    continue
                bad.append('`%s`' % sx.show(n)[:40])
            for c in calls:
                if sx.callee_name(c) == 'opus_pcm_soft_clip' and pol:
                    continue
                bad.append('call %s' % sx.callee_name(c))
            for r in rets:
                bad.append('return under soft_clip')
    others = [n for n in f.all_nodes() if sx.kind(n) == 'param' and n[1] == ps]
    # forwarding the flag unchanged to a recursive call (PLC / FEC sub-calls) is the same flag
    fw = set()
    for c in f.calls():
        if sx.callee_name(c) == f.name and ps < len(c[2]) and sx.key(sx.strip(c[2][ps])) == ('param', ps):
            fw.add(id(sx.strip(c[2][ps])))
    others = [n for n in others if id(n) not in fw]
    where = f.where()
    (rep.holds if not bad else rep.violated)('R19.4', '%s:soft_clip selects only clipper call vs zeroing softclip_mem' % prog.config, where, '; '.join(bad) or None, **({} if not bad else {'key': 'softclip-region'}))
    ok = len(others) == len(gb)
    (rep.holds if ok else rep.violated)('R19.4', '%s:soft_clip flag has no other reader' % prog.config, where, '%d uses' % len(others), **({} if ok else {'key': 'softclip-uses'}))


def r19_5(rep, prog):
    """the soft clipper's memory: declip_mem[c] receives 0 unless the clipping
    loop was left because an excursion ran to the end of the frame (curr == N).
    Reaching definitions of the coefficient local along each loop exit."""
    if not prog.has_fn('opus_pcm_soft_clip'):
        rep.holds('R19.5', '%s: float API disabled, opus_pcm_soft_clip not built' % prog.config, None, None)
        return
    f = prog.fn('opus_pcm_soft_clip')
    cf = cfgm.CFG(f)
    pm, pN = f.param_index('declip_mem'), f.param_index('N')
    st = [(b, i, n) for b, i, n in cf.find(lambda n: n[0] == 'assign' and sx.kind(sx.strip_paren(n[1])) == 'idx' and sx.key(sx.strip(sx.strip_paren(n[1])[1])) == ('param', pm))]
    if len(st) != 1 or sx.kind(sx.strip(st[0][2][2])) != 'local':
        rep.unresolved('R19.5', 'expected one store `declip_mem[c] = <local>`', f.where())
        return
    sb, si, sn = st[0]
    aid = sx.strip(sn[2])[2]
    # definitions of the coefficient
    defs = {}
    for b, i, n in cf.find(lambda n: n[0] in ('assign', 'cassign') and sx.kind(sx.strip_paren(n[1] if n[0] == 'assign' else n[2])) == 'local'
                           and sx.strip_paren(n[1] if n[0] == 'assign' else n[2])[2] == aid):
        defs.setdefault(b, []).append((i, n))
    # forward may-reaching definitions (block level; last def in a block kills)
    OUT = {}
    order = cf._rpo(cf.entry, cf.succ)
    changed = True
    while changed:
        changed = False
        for b in order:
            inn = set()
            for p_ in cf.pred[b]:
                inn |= OUT.get(p_, set())
            if b in defs:
                last = max(defs[b], key=lambda t: t[0])[1]
                out = {id(last)}
                # a compound assignment does not kill: what reached it still contributes
                if all(n_[0] == 'cassign' for i_, n_ in defs[b]):
                    out |= inn
            else:
                out = inn
            if OUT.get(b) != out:
                OUT[b] = out
                changed = True
    byid = {id(n): n for lst in defs.values() for i, n in lst}
    zero = {k for k, n in byid.items() if n[0] == 'assign' and sx.kind(sx.strip(n[2])) in ('int', 'flt') and float(sx.strip(n[2])[1]) == 0.0}
    if sb in defs and any(i < si for i, n in defs[sb]):
        rep.unresolved('R19.5', 'the coefficient is redefined in the block of the store', f.where())
        return
    nexits = 0
    for p_ in cf.pred[sb]:
        # facts on the edge p_ -> sb
        atoms = [a for a, gb in guards.facts_at(cf, p_)]
        c = cf.cond(p_)
        dead = False
        if c is not None:
            from .. import decide
            cv = decide.ev3(c, {})
            for s_, pol in cf.edges(p_):
                if s_ == sb and pol is not None:
                    atoms += guards.atoms(c, pol)
                    if cv is not None and bool(cv) != pol:
                        dead = True        # exit edge of `while (1)`: never taken
        if dead:
            continue
        reaching = OUT.get(p_, set())
        to_end = any(a[0] == '==' and a[2] == ('param', pN) and a[1][0] == 'local' and not any(a2[0] == '==' and a2[1] != a[1] and a2[2] == ('param', pN) for a2 in []) for a in atoms)
        # which local equals N: the scan index (no excursion found) or the resume position (excursion reached the end)
        locs = {l['id']: l['name'] for l in f.locals.values()}
        eqN = [locs.get(a[1][1], '?') for a in atoms if a[0] == '==' and a[2] == ('param', pN) and a[1][0] == 'local']
        nexits += 1
        inst = '%s:soft_clip loop exit under %s leaves %s in declip_mem' % (prog.config, eqN or [T.show_atom(a) for a in atoms][-1:], 'the continuing coefficient' if 'curr' in eqN else '0')
        where = '%s:%s' % (f.file, cf.blocks[p_].get('term', {}).get('l') or sx.line(sn))
        if 'curr' in eqN:
            rep.holds('R19.5', inst, where, 'excursion reaches the end of the frame: the coefficient is carried over')
        elif reaching and reaching <= zero:
            rep.holds('R19.5', inst, where, 'only `a = 0` reaches the store along this exit')
        else:
            nz = [sx.show(byid[k])[:40] for k in reaching if k in byid and k not in zero] + ['(accumulated)' for k in reaching if isinstance(k, tuple)]
            rep.violated('R19.5', inst, where, 'no excursion is pending on this exit, yet definitions %s reach `declip_mem[c] = a`: the next frame is altered although nothing clips' % nz[:3], key='declip-mem-stale')
    if nexits < 2:
        rep.unresolved('R19.5', 'expected two exits of the clipping loop, found %d' % nexits, f.where())


def r19_67(rep, prog):
    """R19.6 the gain loop covers exactly the interleaved samples of the frame
    (same bound as the other whole-frame pcm loops: frame_size * st->channels);
    R19.7 no audio that already went through the gain (a recursive
    opus_decode_frame into a scratch buffer) is mixed into pcm before the gain
    loop runs again."""
    fdecs = roles.frame_decoders(prog)
    gainf = roles.holding(fdecs, lambda n: n[0] == 'field' and n[2] == 'OpusDecoder' and n[3] == 'decode_gain')
    if len(gainf) != 1:
        rep.unresolved('R19.6', 'gain-applying frame decoder not unique: %s' % [g.name for g in gainf])
        return
    f = gainf[0]
    cf = cfgm.CFG(f)
    ppcm, pfs = f.param_index('pcm'), f.param_index('frame_size')
    # locals that hold the sample count returned by a frame decoder
    counts = set()
    for n_ in f.all_nodes():
        if n_[0] == 'assign' and sx.kind(n_[1]) == 'local' and sx.kind(sx.strip(n_[2])) == 'call' and sx.callee_name(sx.strip(n_[2])) in {g.name for g in fdecs}:
            counts.add(('local', n_[1][2]))
    gblocks = [b for b in cf.blocks if cf.cond(b) is not None and any(m[0] == 'field' and m[3] == 'decode_gain' for m in sx.walk(cf.cond(b)))]
    outer = [b for b in gblocks if all(cf.dominates(b, o) for o in gblocks)]
    if len(outer) != 1:
        rep.unresolved('R19.6', 'gain branch not found')
        return
    g = outer[0]
    region = T.controlled_region(cf, g, True)
    bounds = []
    for b in region:
        c = cf.cond(b)
        if c is not None and cf.blocks[b]['term'].get('kind') in ('ForStmt', 'WhileStmt'):
            at = guards.atoms(c, True)
            if len(at) == 1 and at[0][0] == '<':
                bounds.append((b, at[0][2], c))
    where = '%s:%s' % (f.file, cf.blocks[g]['term'].get('l'))
    inst = '%s:gain loop covers (decoded samples) * st->channels interleaved values' % prog.config
    if len(bounds) != 1:
        rep.unresolved('R19.6', 'expected one loop in the gain region, found %d' % len(bounds), where)
    else:
        bk = bounds[0][1]

        def flds(k, out):
            if isinstance(k, tuple):
                if k and k[0] == 'field':
                    out.add(k[2])
                for x in k:
                    flds(x, out)
            return out
        fl = flds(bk, set())
        uses_fs = ('param', pfs) in _subkeys(bk) or bool(counts & _subkeys(bk))
        if fl == {'channels'} and uses_fs and bk[0] == 'bin' and bk[1] == '*':
            rep.holds('R19.6', inst, where, 'bound `%s`' % sx.show(bounds[0][2]))
        else:
            rep.violated('R19.6', inst, where, 'bound `%s` is not <frame size or returned sample count> * st->channels (fields used: %s): part of the interleaved frame is left unscaled or the loop overruns' % (sx.show(bounds[0][2]), sorted(fl)), key='gain-bound')
    # R19.7
    nrec = 0
    sites = []
    for h in fdecs:
        ch = cf if h is f else cfgm.CFG(h)
        # h reaches the gain (it is the gain function, or is called by it and so its output is gained afterwards)
        for b, i, c in T.calls_to(ch, f.name):
            sites.append((h, ch, b, i, c))
    for h, ch, b, i, c in sites:
        hp = h.param_index('pcm')
        out = sx.strip(c[2][3])
        r, path = sx.lvalue_root(out)
        if sx.kind(r) == 'param' and r[1] == hp:
            continue            # decodes in place into the caller's buffer: gained once, by the callee
        nrec += 1
        where2 = '%s:%s' % (h.file, sx.line(c))
        if sx.kind(r) != 'local':
            rep.unresolved('R19.7', 'call into the gain-applying frame decoder writes to `%s`' % sx.show(out), where2)
            continue
        lid = r[2]
        # does the scratch buffer flow into the caller's pcm, which is (later) scaled by the gain region?
        before_gain = (lambda blk: g in ch.reachable_from(blk)) if h is f else (lambda blk: True)
        mixed = []
        for b2, i2, n in ch.find(lambda n: n[0] == 'call' and any(sx.kind(x) == 'local' and x[2] == lid for a in n[2] for x in sx.walk(a))
                                 and any(sx.kind(sx.lvalue_root(sx.strip(a))[0]) == 'param' and sx.lvalue_root(sx.strip(a))[0][1] == hp for a in n[2])):
            if sx.callee_name(n) not in {x.name for x in fdecs} and before_gain(b2):
                mixed.append(n)
        for b2, i2, n in ch.find(lambda n: n[0] == 'assign' and sx.kind(sx.lvalue_root(n[1])[0]) == 'param' and sx.lvalue_root(n[1])[0][1] == hp
                                 and any(sx.kind(x) == 'local' and x[2] == lid for x in sx.walk(n[2]))):
            if before_gain(b2):
                mixed.append(n)
        inst = '%s:audio decoded by %s into %s is not gained twice' % (prog.config, f.name, r[1])
        if mixed:
            rep.violated('R19.7', inst, where2, 'the call to %s already applies decode_gain to %s; it is then mixed into pcm by `%s` and scaled by the gain loop again (transition samples come out at gain^2)' %
                         (f.name, r[1], sx.show(mixed[0])[:60]), key='opus_decode_frame:%s:double-gain' % r[1])
        else:
            rep.holds('R19.7', inst, where2, 'buffer does not reach pcm before the gain loop')
    # scratch decodes made through a gain-free frame decoder are scaled once, with the frame they are mixed into
    for h in fdecs:
        if h is f:
            continue
        for c in h.calls():
            if sx.callee_name(c) == h.name:
                out = sx.strip(c[2][3])
                r, path = sx.lvalue_root(out)
                if sx.kind(r) == 'local':
                    nrec += 1
                    rep.holds('R19.7', '%s:%s conceals into %s without the gain (applied once by %s)' % (prog.config, h.name, r[1], f.name), '%s:%s' % (h.file, sx.line(c)), None)
    if not nrec:
        rep.holds('R19.7', '%s:no recursive decode into a scratch buffer' % prog.config, f.where(), None)


def _subkeys(k):
    out = set()
    if isinstance(k, tuple):
        out.add(k)
        for x in k:
            out |= _subkeys(x)
    return out


# ------------------------------------------------------------------ R19.9
def r19_9(rep, prog):
    """integer output saturates rather than wraps - at the full scale of the sample format of the build.  The gain
    loop of the frame decoder clamps every scaled sample; the clamp bound must be the full scale of opus_res in this
    configuration: 32767 for the 16-bit fixed-point format, 32767 * 256 + 255 (24 bits) when ENABLE_RES24 stores the
    samples with 8 more bits.  A 16-bit bound on 24-bit samples limits the output to 1/256 of full scale as soon as
    any gain is set."""
    from .. import absint, roles
    res24 = 'ENABLE_RES24' in prog.macros
    fixed = 'FIXED_POINT' in prog.macros
    n = 0
    for f in roles.frame_decoders(prog):
        cf = cfgm.CFG(f)
        an = None
        for b, i, node in cf.find(lambda x: x[0] == 'assign' and sx.kind(sx.strip_paren(x[1])) == 'idx' and sx.kind(sx.strip(sx.strip_paren(x[1])[1])) == 'param' and sx.strip(sx.strip_paren(x[1])[1])[2] == 'pcm'):
            if not any(sx.kind(y) == 'local' for y in sx.walk(node[2])):
                continue
            # only the gain loop: its statement reads a local computed from decode_gain
            if not any(sx.kind(y) == 'field' and y[3] == 'decode_gain' for x in f.all_nodes() for y in sx.walk(x)):
                continue
            n += 1
            rep.functions.add(f.name)
            inst = '%s:%s clamps the gained sample at the full scale of the sample format' % (prog.config, f.name)
            where = '%s:%s' % (f.file, sx.line(node))
            if not fixed:
                rep.holds('R19.9', inst, where, 'float samples: the clamp macro is the identity, conversions saturate later (C13)')
                continue
            if an is None:
                an = absint.Analyzer(prog, f, call_summary=absint.inline_summary(prog), havoc_fields_on_call=False)
            st = an.state_before_node(b, i, node)
            v = an.ev(node[2], st) if st is not None else None
            want = 32767 * 256 + 255 if res24 else 32767
            if v is None or absint.is_top(v):
                rep.violated('R19.9', inst, where, 'the stored value is not clamped (%s)' % (absint.show(v) if v else 'unknown'), key=f.name + ':gain-saturation')
            elif absint.hi(v) < 32767 * (256 if res24 else 1) or absint.hi(v) > want:
                rep.violated('R19.9', inst, where, 'samples are clamped to %s but the sample format of this build has a full scale of %d: with any non-zero gain the output is limited to a fraction of full scale' % (absint.show(v), want),
                             key=f.name + ':gain-saturation')
            else:
                rep.holds('R19.9', inst, where, 'clamped to %s' % absint.show(v))
    return n


def r19_11(rep, prog):
    """"saturates rather than wraps" also between the multiplication and the clamp: in the gain loop, an explicit narrowing
    conversion (to 32 bits or fewer) of a wider intermediate may only be applied to a value the interval analysis bounds
    inside the target type.  Samples take the full range of opus_res, the gain the full range of its type (the largest
    legal gain is about 2^31 in Q16).  A clamp that sees an already truncated product cannot saturate."""
    from .. import absint, roles
    if 'FIXED_POINT' not in prog.macros:
        return 0
    n = 0
    for f in roles.frame_decoders(prog):
        if not any(sx.kind(y) == 'field' and y[3] == 'decode_gain' for x in f.all_nodes() for y in sx.walk(x)):
            continue
        cf = cfgm.CFG(f)
        stores = [(b, i, node) for b, i, node in cf.find(lambda x: x[0] == 'assign' and sx.kind(sx.strip_paren(x[1])) == 'idx' and sx.kind(sx.strip(sx.strip_paren(x[1])[1])) == 'param' and sx.strip(sx.strip_paren(x[1])[1])[2] == 'pcm')
                  if any(sx.kind(y) == 'local' for y in sx.walk(node[2]))]
        if not stores:
            continue
        an = absint.Analyzer(prog, f, call_summary=absint.inline_summary(prog), havoc_fields_on_call=False)
        blocks = {b for b, i, node in stores}
        for h, latch, body in cf.natural_loops():
            if blocks & body:
                blocks |= body                      # the whole gain loop (the clamp's ?: splits its body into several blocks)
        n += 1
        rep.functions.add(f.name)
        loop_where = '%s:%s' % (f.file, sx.line(stores[0][2]))
        checked = bad = 0
        for b in sorted(blocks):
            items = list(cf.blocks[b]['stmts'])
            for i, s_ in enumerate(items):
                for c in sx.walk(s_):
                    if sx.kind(c) != 'cast' or not isinstance(c[2], int) or c[2] > 32:
                        continue
                    inner = sx.strip(c[4])
                    w_in = max([y[2] for y in sx.walk(inner) if sx.kind(y) == 'cast' and isinstance(y[2], int)] +
                               [f.locals.get(y[2], {}).get('bits', 0) or 0 for y in sx.walk(inner) if sx.kind(y) == 'local'] + [0])
                    if w_in <= c[2]:
                        continue
                    checked += 1
                    st = an.state_before_node(b, i, c)
                    v = an.ev(inner, st) if st is not None else None
                    rng = absint.type_range(c[2], bool(c[3]))
                    if v is not None and absint.meet(v, rng) == v:
                        continue
                    bad += 1
                    rep.violated('R19.11', '%s:%s narrows the gain product to %d bits only when it fits' % (prog.config, f.name, c[2]), '%s:%s' % (f.file, sx.line(c) or sx.line(s_)),
                                 '`%s` can reach %s before it is converted to %s: the product wraps and the clamp that follows saturates the wrapped value (a loud positive sample becomes full-scale negative)' %
                                 (sx.show(inner)[:60], absint.show(v) if v else 'unknown', c[1]), key=f.name + ':gain-product-narrowed')
        if not bad:
            rep.holds('R19.11', '%s:%s gain loop: no wrapping conversion between the product and the clamp' % (prog.config, f.name), loop_where,
                      '%d narrowing conversion(s) of a wider intermediate in the loop, each bounded inside its target type' % checked)
    return n


def check(rep, prog, tier):
    r19_11(rep, prog)
    r19_9(rep, prog)
    from . import softclipmem
    softclipmem.check(rep, prog, 'R19.8', 'memory')
    r19_5(rep, prog)
    r19_67(rep, prog)
    r19_12(rep, prog)
    r19_3(rep, prog)
    r19_4(rep, prog)
