"""C20 — DTX: bounded runs of tiny packets when inactive, immediate resume.

R20.1 the Opus-level inactivity counter (decide_dtx_mode).  Its transfer
      function (counter, activity, frame length) -> (counter', decision) is
      extracted by the abstract interpreter, partitioned per input value so
      that it is exact (the function is loop free), and the resulting
      automaton is explored exhaustively for each of the nine legal frame
      durations: DTX starts within one frame of the 200 ms mark, a run of DTX
      decisions lasts less than 400 ms + one frame, is followed by exactly one
      refresh frame, and activity resets the counter with decision 0.
R20.2 the SILK-level counter (silk_encode_do_VAD_FLP / _FIX): same analysis in
      units of 20 ms frames; its thresholds equal the Opus detector's
      (x 20 ms x 2 in Q1); no other function writes the counter.
R20.3 OPUS_GET_IN_DTX compares the same counters with thresholds that are
      true on every frame for which the decision was DTX.
R20.4 emission: when the decision is DTX (and on the SILK nBytes==0 path) the
      encoder stores the TOC byte only, zeroes the final range and returns 1;
      the counter is cleared when DTX is off or the analysis is not valid;
      the call passes the frame length in Q1 milliseconds exactly; the
      multi-frame path counts 1-byte frames and does not pad an all-DTX packet.
R20.5 decoder: payloads of <= 1 byte are routed to concealment and do not
      conceal more than the TOC duration.
"""
from .. import sx, cfg as cfgm, guards, templates as T, absint, decide, roles
from ..compdb import AnalysisBroken

EXPLANATION = (
    'Decided: R20.1/R20.2 the two inactivity counters (Opus generalised DTX and SILK) as finite automata extracted '
    'from the source by partitioned abstract interpretation and explored exhaustively for every legal frame duration: '
    'first DTX decision within one frame of 200 ms, DTX runs shorter than 400 ms + one frame followed by exactly one '
    'refresh frame, activity resets; both detectors use the same thresholds and nothing else writes the counters. '
    'R20.3 the in-DTX query is true on every DTX frame. R20.4 a DTX decision emits the TOC byte only with a zero '
    'final range and length 1, the counter is cleared when DTX is off / analysis invalid, the frame length passed is '
    'exact in Q1 ms, multi-frame packets count DTX frames. R20.5 the decoder routes <=1-byte payloads to PLC/CNG '
    'bounded by the TOC duration. '
    'NOT decided: that digital silence is classified inactive by the analysis (signal dependent), decoder near-silence '
    'during the gap, and that no packet of <= 2 bytes is produced with DTX off (rate dependent).')

CONFIGS = {'quick': ['float'], 'thorough': ['float', 'fixed']}

FRAME_Q1 = (5, 10, 20, 40, 80, 120, 160, 200, 240)       # 2.5 .. 120 ms in Q1


def setup(rep, tier):
    rep.minimum('R20.1', 9)
    rep.minimum('R20.2', 3)
    rep.minimum('R20.3', 1)
    rep.minimum('R20.4', 3)
    rep.minimum('R20.5', 1)
    rep.minimum('R20.6', 1)
    rep.minimum('R20.7', 2)
    rep.minimum('R20.8', 1)
    rep.minimum('R20.9', 1)


def single(v):
    if v is None or v == absint.BOT:
        return None
    vals = absint.values(v, 4)
    return vals[0] if vals is not None and len(vals) == 1 else None


def opus_transfer(prog, f, c, act, fq1):
    """(decision, counter') of decide_dtx_mode for one input partition"""
    an = absint.Analyzer(prog, f, entry_state={('param', 0): absint.const(act), ('deref', ('param', 1)): absint.const(c), ('param', 2): absint.const(fq1)},
                         havoc_fields_on_call=False)
    outs = set()
    for b, i, s in an.cf.positions():
        if sx.kind(s) == 'ret':
            st = an.state_at(b, i)
            if st is None:
                continue
            r = single(an.ev(s[1], st))
            c2 = single(st.get(('deref', ('param', 1))))
            outs.add((r, c2))
    if len(outs) != 1 or None in list(outs)[0]:
        raise AnalysisBroken('decide_dtx_mode: transfer for counter=%d activity=%d frame=%d is not a single value: %s' % (c, act, fq1, outs))
    return list(outs)[0]


def automaton_checks(step, unit_ms, frame_units, label):
    """generic run-length checks.  step(c, act) -> (dtx, c'); unit_ms = ms per
    counter unit; frame_units = counter units per frame.  Returns (ok, detail)"""
    fms = frame_units * unit_ms
    # 1. activity resets
    seen = set()
    c = 0
    # continuous inactivity from rest: record decisions
    seq = []
    states = []
    for n in range(1, 4000):
        d, c = step(c, 0)
        seq.append(d)
        states.append(c)
        if len(seq) > 3 and (c, ) in seen and n > 3000 / max(1, frame_units):
            break
        seen.add((c,))
        if n * fms > 5000:
            break
    if 1 not in seq:
        return False, 'no DTX decision within 5 s of inactivity'
    first = seq.index(1) + 1                      # first DTX frame (1-based)
    t_first_end = first * fms
    if not (t_first_end > 200 and t_first_end - fms <= 200):
        return False, 'first DTX frame is frame %d (ends at %.1f ms): not within one frame of the 200 ms mark' % (first, t_first_end)
    # runs
    runs, cur, gaps = [], 0, []
    gap = 0
    for d in seq[first - 1:]:
        if d:
            if gap:
                gaps.append(gap)
                gap = 0
            cur += 1
        else:
            if cur:
                runs.append(cur)
                cur = 0
            gap += 1
    if not runs:
        return False, 'DTX run never ends within 5 s (no refresh frame)'
    for r in runs:
        if not (r * fms < 400 + fms + 1e-9 and r * fms >= 400 - fms):
            return False, 'a DTX run lasts %d frames = %.1f ms, outside [400-frame, 400+frame)' % (r, r * fms)
    if any(g < 1 for g in gaps):
        return False, 'no refresh frame between DTX runs'

    # activity at any reachable state resets and never yields DTX
    for c0 in set(states) | {0}:
        d, c1 = step(c0, 1)
        if d != 0 or c1 != 0:
            return False, 'activity at counter %d gives decision %d, counter %d (expected 0, 0)' % (c0, d, c1)
        # and the first frames after activity are not DTX
        d2, _ = step(0, 0)
        if d2 != 0 and fms <= 200:
            return False, 'first inactive frame after activity is already DTX'
    return True, 'first DTX frame %d (%.1f ms), runs of %s frames, refresh gaps %s, %d states' % (first, t_first_end, sorted(set(runs)), sorted(set(gaps)) or [1], len(set(states)))


def r20_1(rep, prog):
    if not prog.has_fn('decide_dtx_mode'):
        if prog.macros.get('DISABLE_FLOAT_API') or prog.config in ('nofloatapi',):
            rep.holds('R20.1', '%s:generalised DTX not built (float API disabled)' % prog.config, None, None)
            return None
        raise AnalysisBroken('decide_dtx_mode not found')
    f = prog.fn('decide_dtx_mode')
    rep.functions.add(f.name)
    if [p['name'] for p in f.params][:1] != ['activity'] or len(f.params) != 3:
        raise AnalysisBroken('decide_dtx_mode signature changed')
    thresholds = set()
    for fq1 in FRAME_Q1:
        cache = {}

        def step(c, act, fq1=fq1, cache=cache):
            k = (c, act)
            if k not in cache:
                cache[k] = opus_transfer(prog, f, c, act, fq1)
            return cache[k]
        ok, detail = automaton_checks(step, 0.5, fq1, 'opus')
        inst = '%s:generalised DTX counter, %.1f ms frames' % (prog.config, fq1 / 2)
        rep.count(len(cache))
        if ok:
            rep.holds('R20.1', inst, f.where(), detail, n=len(cache))
        else:
            rep.violated('R20.1', inst, f.where(), detail, key='opus-dtx:%d' % fq1)
        # DTX post-states for R20.3
        for (c, act), (d, c2) in cache.items():
            if d == 1:
                thresholds.add(c2)
    return min(thresholds) if thresholds else None


def silk_transfer(prog, f, c, opus_act, counter_key, dtx_key):
    an = absint.Analyzer(prog, f, entry_state={('param', 1): absint.const(opus_act), counter_key: absint.const(c), dtx_key: absint.const(1)},
                         havoc_fields_on_call=False, preserve_fields=('noSpeechCounter', 'inDTX'))
    st = an.IN.get(an.cf.exit)
    outs = []
    for b in an.cf.pred[an.cf.exit]:
        s_ = an.state_at(b, len(an.cf.blocks[b]['stmts']))
        if s_ is not None:
            outs.append((s_.get(counter_key), s_.get(dtx_key)))
    return outs


def r20_2(rep, prog):
    name = 'silk_encode_do_VAD_FLP' if prog.has_fn('silk_encode_do_VAD_FLP') else 'silk_encode_do_VAD_FIX'
    f = prog.fn(name)
    rep.functions.add(name)
    # counter / flag keys as written in the function
    ck = dk = None
    for n in f.all_nodes():
        if sx.kind(n) == 'field' and n[3] == 'noSpeechCounter':
            ck = sx.key(n)
        if sx.kind(n) == 'field' and n[3] == 'inDTX':
            dk = sx.key(n)
    if ck is None or dk is None:
        raise AnalysisBroken('%s does not access noSpeechCounter / inDTX' % name)
    # who writes the counter
    writers = set()
    for g in prog.functions_all:
        for n in g.all_nodes():
            if n[0] in ('assign', 'cassign', 'inc'):
                lv = sx.strip_paren(n[1] if n[0] == 'assign' else (n[2] if n[0] == 'cassign' else n[3]))
                if sx.kind(lv) == 'field' and lv[3] == 'noSpeechCounter':
                    writers.add(g.name)
    extra = writers - {name, 'silk_encode_do_VAD_FLP', 'silk_encode_do_VAD_FIX'}
    inst = '%s:noSpeechCounter is written only by the SILK VAD step' % prog.config
    if extra:
        rep.violated('R20.2', inst, None, 'also written by %s' % sorted(extra), key='silk-counter-writers')
    else:
        rep.holds('R20.2', inst, None, 'writers %s (cleared by the whole-state memset at init)' % sorted(writers))
    # the VAD step only vetoes: silk_Encode arms inDTX once per packet and a single frame of the packet (speech, too early,
    # or the wrap-around refresh) must be able to clear it for the whole packet - so every store here is the constant 0
    for n in f.all_nodes():
        if n[0] in ('assign', 'cassign', 'inc'):
            lv = sx.strip_paren(n[1] if n[0] == 'assign' else (n[2] if n[0] == 'cassign' else n[3]))
            if sx.kind(lv) == 'field' and lv[3] == 'inDTX':
                inst = '%s:%s only clears inDTX (`%s`)' % (prog.config, name, sx.show(n)[:40])
                if n[0] == 'assign' and sx.int_val(sx.strip(n[2])) == 0:
                    rep.holds('R20.2', inst, '%s:%s' % (f.file, sx.line(n)), 'constant 0')
                else:
                    rep.violated('R20.2', inst, '%s:%s' % (f.file, sx.line(n)), 'the per-frame VAD step stores a value other than 0: a later frame of a multi-frame packet re-arms the flag that an earlier frame (the refresh) cleared, and the refresh packet is lost',
                                 key='silk-dtx-veto')
    # transfer: Opus VAD inactive (param activity = 0) forces the inactive arm
    trans = {}
    amb = None
    for c in range(0, 64):
        outs = silk_transfer(prog, f, c, 0, ck, dk)
        vals = {(single(a), single(b)) for a, b in outs}
        if len(vals) != 1 or None in list(vals)[0]:
            amb = (c, outs)
            break
        trans[c] = list(vals)[0]
    if amb and all(single(a) is not None for a, b in amb[1]) and len({single(a) for a, b in amb[1]}) == 1:
        # the counter is determined but the stored DTX flag is not a function of the counter (it takes a value the
        # analysis cannot pin down): the property must hold whichever value is stored, so try both resolutions
        for resolve in (0, 1):
            tr = {}
            for c in range(0, 64):
                outs = silk_transfer(prog, f, c, 0, ck, dk)
                cs = {single(a) for a, b in outs}
                fl = {single(b) for a, b in outs}
                if len(cs) != 1 or None in cs:
                    tr = None
                    break
                tr[c] = (list(cs)[0], list(fl)[0] if len(fl) == 1 and None not in fl else resolve)
            if tr is None:
                break

            def step_r(c, act, tr=tr):
                if act:
                    return (0, 0)
                c2, flag = tr[c]
                return (1 if flag else 0, c2)
            ok, detail = automaton_checks(step_r, 20.0, 1, 'silk')
            if not ok:
                rep.violated('R20.2', '%s:%s counter automaton (20 ms frames, Opus VAD inactive)' % (prog.config, name), f.where(),
                             'at counter %d the stored DTX flag is not determined by the counter (value %s); if it is %d there: %s' %
                             (amb[0], [absint.show(b) if b else None for a, b in amb[1]], resolve, detail), key='silk-dtx')
                return None
    if amb:
        rep.unresolved('R20.2', '%s: inactive-frame transfer for counter=%d is not single valued: %s' % (name, amb[0], [(absint.show(a) if a else None, absint.show(b) if b else None) for a, b in amb[1]]), f.where())
        return None
    rep.count(len(trans))

    def step(c, act):
        if act:
            return (0, 0)
        c2, flag = trans[c]
        return (1 if flag else 0, c2)
    ok, detail = automaton_checks(step, 20.0, 1, 'silk')
    inst = '%s:%s counter automaton (20 ms frames, Opus VAD inactive)' % (prog.config, name)
    (rep.holds if ok else rep.violated)('R20.2', inst, f.where(), detail, **({} if ok else {'key': 'silk-dtx'}))
    # active arm: speech detected -> counter 0, inDTX 0 on every path through the active arm (param activity = 1, any speech level)
    outs = silk_transfer(prog, f, 17, 1, ck, dk)
    okA = bool(outs) and all(a is not None and set(absint.values(a, 8) or [99]) <= {0, 18} for a, b in outs) and any(single(a) == 0 and single(b) == 0 for a, b in outs)
    (rep.holds if okA else rep.violated)('R20.2', '%s:%s active frame clears counter and DTX flag' % (prog.config, name), f.where(),
                                         [(absint.show(a) if a else None, absint.show(b) if b else None) for a, b in outs], **({} if okA else {'key': 'silk-active'}))
    dtx_states = [c2 for c, (c2, flag) in trans.items() if flag]
    return min(dtx_states) if dtx_states else None


def r20_3(rep, prog, opus_min, silk_min):
    f = prog.fn('opus_encoder_ctl')
    from .. import ctl
    cf, arms = ctl.switch_arms(f)
    arm = [a for a in arms if 'OPUS_GET_IN_DTX_REQUEST' in a.names]
    if not arm:
        rep.unresolved('R20.3', 'no OPUS_GET_IN_DTX arm')
        return
    arm = arm[0]
    found = {}
    for b, i, n in arm.find(lambda n: n[0] == 'bin' and n[1] in ('>=', '>', '<', '<=')):
        for a in guards.atoms(n, True):
            op, l, r = a
            for x, y, o in ((l, r, op), (r, l, {'<': '>', '<=': '>='}.get(op, op))):
                if isinstance(y, tuple) and y[0] == 'field' and x[0] == 'int' and y[2] in ('noSpeechCounter', 'nb_no_activity_ms_Q1'):
                    # x OP y  with OP in < <= : y >= x (+1)
                    thr = x[1] + (1 if o == '<' else 0)
                    found.setdefault(y[2], set()).add(thr)
    where = '%s:%s' % (f.file, arm.line())
    for fld, mn, nm in (('nb_no_activity_ms_Q1', opus_min, 'generalised'), ('noSpeechCounter', silk_min, 'SILK')):
        if mn is None:
            continue
        inst = '%s:OPUS_GET_IN_DTX is true on every %s DTX frame' % (prog.config, nm)
        th = found.get(fld)
        if not th:
            rep.violated('R20.3', inst, where, 'the query does not test %s' % fld, key='in-dtx:' + fld)
        elif max(th) <= mn:
            rep.holds('R20.3', inst, where, 'query threshold %s <= smallest counter value on a DTX frame (%d)' % (sorted(th), mn))
        else:
            rep.violated('R20.3', inst, where, 'query threshold %s exceeds the counter value %d that already yields a DTX packet: the query is false on a DTX packet' % (sorted(th), mn), key='in-dtx:' + fld)


def r20_4(rep, prog):
    f = prog.fn('opus_encode_frame_native')
    rep.functions.add(f.name)
    cf = cfgm.CFG(f)
    pdata = f.param_index('data')

    def toc_only(region, label, key):
        stores, rets, calls = T.region_effects(cf, f, region)
        bad = []
        toc = 0
        rf = 0
        for n, lv in stores:
            r, path = sx.lvalue_root(lv)
            if sx.kind(lv) == 'field' and lv[3] == 'rangeFinal' and sx.int_val(n[2]) == 0:
                rf += 1
            elif sx.kind(r) in ('param', 'local') and path and sx.kind(lv) == 'idx' and any(sx.callee_name(x) == 'gen_toc' for x in sx.walk(n[2])):
                toc += 1
            elif sx.kind(lv) == 'local':
                continue
            elif sx.kind(r) == 'param' and r[1] == pdata:
                bad.append(sx.show(n)[:50])           # a second store into the packet
            else:
                continue                              # encoder state kept up to date on the way out (frame history) is not part of the packet
        rv = [T.const_ret(s) for s in rets]
        inst = '%s:%s writes the TOC byte only, zeroes the final range and returns 1' % (prog.config, label)
        if bad or toc != 1 or rf != 1 or rv != [1]:
            rep.violated('R20.4', inst, f.where(), 'TOC stores %d, rangeFinal=0 %d, returns %s, other stores into the packet %s' % (toc, rf, rv, bad), key=key)
        else:
            rep.holds('R20.4', inst, f.where(), 'region of %d blocks' % len(region))
    calls = T.calls_to(cf, 'decide_dtx_mode')
    if calls:
        b, i, n = calls[0]
        if cf.cond(b) is None or not any(x is n for x in sx.walk(cf.cond(b))):
            rep.unresolved('R20.4', 'decide_dtx_mode result is not used directly as a branch condition', '%s:%s' % (f.file, sx.line(n)))
        else:
            toc_only(T.controlled_region(cf, b, True), 'generalised DTX decision', 'dtx-emit')
        # arguments: &st->nb_no_activity_ms_Q1 and the exact frame length in Q1 ms
        a = n[2]
        ok = sx.kind(sx.strip(a[1])) == 'addr' and sx.kind(sx.strip(sx.strip(a[1])[1])) == 'field' and sx.strip(sx.strip(a[1])[1])[3] == 'nb_no_activity_ms_Q1'
        pfs = f.param_index('frame_size')
        bad = None
        for Fs in (8000, 12000, 16000, 24000, 48000):
            for q1 in FRAME_Q1:
                fs_ = Fs * q1 // 2000
                v = decide.ev3(a[2], {('param', pfs): fs_, ('field', ('param', 0), 'Fs'): Fs})
                if v != q1:
                    bad = (Fs, fs_, v, q1)
        ok = ok and bad is None
        (rep.holds if ok else rep.violated)('R20.4', '%s:the DTX counter is advanced by the exact frame length in Q1 ms' % prog.config, '%s:%s' % (f.file, sx.line(n)),
                                            'argument `%s` equals 2*duration for all 45 (Fs, frame size) pairs' % sx.show(a[2]) if ok else 'argument `%s`: Fs=%s frame_size=%s gives %s, expected %s' % ((sx.show(a[2]),) + (bad or (0, 0, 0, 0))),
                                            **({} if ok else {'key': 'dtx-arg'}))
        # counter cleared in the other arm of the enabling condition
        clr = [(b2, i2, m) for b2, i2, m in cf.find(lambda m: m[0] == 'assign' and sx.kind(sx.strip_paren(m[1])) == 'field' and sx.strip_paren(m[1])[3] == 'nb_no_activity_ms_Q1')]
        ok = len(clr) == 1 and sx.int_val(clr[0][2][2]) == 0 and b not in cf.reachable_from(clr[0][0]) and clr[0][0] not in cf.reachable_from(b)
        facts_call = [a_ for a_, gb in guards.facts_at(cf, b)]
        ok = ok and any(a_[0] == '!=' and isinstance(a_[1], tuple) and a_[1][0] == 'field' and a_[1][2] == 'use_dtx' for a_ in facts_call)
        (rep.holds if ok else rep.violated)('R20.4', '%s:the inactivity counter is cleared whenever DTX is off or the analysis is not valid' % prog.config, f.where(),
                                            [sx.show(m) for b2, i2, m in clr], **({} if ok else {'key': 'dtx-clear'}))
    elif not prog.has_fn('decide_dtx_mode'):
        rep.holds('R20.4', '%s:generalised DTX not built' % prog.config, None, None)
    else:
        rep.unresolved('R20.4', 'decide_dtx_mode is not called from opus_encode_frame_native')
    # SILK nBytes == 0
    nb = [b for b in cf.blocks if cf.cond(b) is not None and guards.atoms(cf.cond(b), True) and guards.atoms(cf.cond(b), True)[0][0] == '==' and guards.atoms(cf.cond(b), True)[0][2] == ('int', 0)
          and guards.atoms(cf.cond(b), True)[0][1][0] == 'local' and any(sx.kind(x) == 'local' and x[1] == 'nBytes' for x in sx.walk(cf.cond(b)))]
    if len(nb) != 1:
        rep.unresolved('R20.4', 'SILK nBytes==0 branch not found (%d candidates)' % len(nb), f.where())
    else:
        toc_only(T.controlled_region(cf, nb[0], True), 'SILK DTX (nBytes == 0)', 'silk-dtx-emit')
    # multi-frame path
    g = prog.fn('opus_encode_native')
    cg = cfgm.CFG(g)
    incs = [(b, i, n) for b, i, n in cg.find(lambda n: n[0] == 'inc' and sx.kind(sx.strip(n[3])) == 'local' and sx.strip(n[3])[1] == 'dtx_count')]
    ok = False
    detail = 'dtx_count++ not found'
    if len(incs) == 1:
        facts = [a for a, gb in guards.facts_at(cg, incs[0][0])]
        ok = any(a[0] == '==' and a[2] == ('int', 1) and a[1][0] == 'local' for a in facts)
        detail = 'counted under %s' % [T.show_atom(a) for a in facts if a[0] == '=='][:2]
    outs = T.calls_to(cg, 'opus_repacketizer_out_range_impl')
    padarg = [sx.show(c[2][6]) for b, i, c in outs]
    ok = ok and any('dtx_count' in p and 'nb_frames' in p and 'use_vbr' in p for p in padarg)
    (rep.holds if ok else rep.violated)('R20.4', '%s:multi-frame packets count 1-byte frames and are not padded when every frame is DTX' % prog.config, g.where(),
                                        '%s; pad argument %s' % (detail, padarg), **({} if ok else {'key': 'dtx-multiframe'}))


def _disjuncts(e):
    e = sx.strip(e)
    if sx.kind(e) == 'bin' and e[1] == '||':
        return _disjuncts(e[2]) | _disjuncts(e[3])
    if sx.kind(e) == 'field':
        return {e[3]}
    if sx.kind(e) in ('local',):
        return {e[1]}
    if sx.kind(e) == 'param':
        return {e[2]}
    return {sx.show(e)}


def _conjuncts(e):
    e = sx.strip(e)
    if sx.kind(e) == 'bin' and e[1] == '&&':
        return _conjuncts(e[2]) + _conjuncts(e[3])
    return [e]


def r20_6(rep, prog):
    """exactly one detector is armed: SILK's DTX is enabled iff DTX is on and
    the condition under which the generalised detector runs is false - the two
    conditions are complements built from the same terms"""
    if not prog.has_fn('decide_dtx_mode'):
        rep.holds('R20.6', '%s:generalised DTX not built, SILK DTX follows use_dtx' % prog.config, None, None)
        return
    g = prog.fn('opus_encode_native')
    f = prog.fn('opus_encode_frame_native')
    silk = [n for n in g.all_nodes() if n[0] == 'assign' and sx.kind(sx.strip_paren(n[1])) == 'field' and sx.strip_paren(n[1])[3] == 'useDTX']
    cf = cfgm.CFG(f)
    calls = T.calls_to(cf, 'decide_dtx_mode')
    if len(silk) != 1 or not calls:
        rep.unresolved('R20.6', 'silk_mode.useDTX assignment (%d) / decide_dtx_mode call (%d) not found' % (len(silk), len(calls)))
        return
    cj = _conjuncts(silk[0][2])
    neg = [sx.strip(c[2]) for c in cj if sx.kind(c) == 'un' and c[1] == '!']
    has_dtx = any(sx.kind(c) == 'field' and c[3] == 'use_dtx' for c in cj)
    X1 = _disjuncts(neg[0]) if len(neg) == 1 else None
    # the enabling condition of the generalised detector: conditions controlling the call block
    b = calls[0][0]
    X2 = None
    dtx2 = False
    # the `a && (b || c)` test is spread over several blocks: collect the terms from the chain of
    # condition blocks that lead to the call block without statements in between
    terms = set()
    seen = set()
    work = [b]
    while work:
        x = work.pop()
        for p_ in cf.pred[x]:
            c = cf.cond(p_)
            if c is None or p_ in seen:
                continue
            if cf.blocks[p_]['term'].get('kind') not in ('IfStmt', 'BinaryOperator'):
                continue
            seen.add(p_)
            cs = sx.strip(c)
            if sx.kind(cs) == 'field' and cs[3] == 'use_dtx':
                dtx2 = True
            else:
                terms |= _disjuncts(cs)
            if not cf.blocks[p_]['stmts']:
                work.append(p_)
    X2 = terms or None
    where = '%s:%s' % (g.file, sx.line(silk[0]))
    inst = '%s:SILK DTX is armed exactly when the generalised detector is not (complementary conditions)' % prog.config
    if X1 is None or X2 is None or not has_dtx or not dtx2:
        rep.unresolved('R20.6', 'cannot read the two enabling conditions: SILK `%s` (terms %s), generalised terms %s' % (sx.show(silk[0][2]), X1, X2), where)
    elif X1 == X2:
        rep.holds('R20.6', inst, where, 'both use_dtx && [!](%s)' % ' || '.join(sorted(X1)))
    else:
        rep.violated('R20.6', inst, where, 'SILK DTX: use_dtx && !(%s); generalised DTX: use_dtx && (%s) - for the terms that differ both detectors (or neither) run, and the refresh frames of one are swallowed by the other' %
                     (' || '.join(sorted(X1)), ' || '.join(sorted(X2))), key='dtx-complement')


def r20_5(rep, prog):
    cands = roles.holding(roles.frame_decoders(prog), lambda n: n[0] == 'call' and sx.callee_name(n) in ('silk_Decode', 'celt_decode_with_ec', 'celt_decode_with_ec_dred'))
    if len(cands) != 1:
        rep.unresolved('R20.5', 'per-frame decoder body not unique: %s' % [c.name for c in cands])
        return
    f = cands[0]
    rep.functions.add(f.name)
    cf = cfgm.CFG(f)
    pl, pd, pf = f.param_index('len'), f.param_index('data'), f.param_index('frame_size')
    hits = []
    for b in cf.blocks:
        c = cf.cond(b)
        if c is None:
            continue
        at = guards.atoms(c, True)
        if at == [('<=', ('param', pl), ('int', 1))] or at == [('<', ('param', pl), ('int', 2))]:
            hits.append(b)
    inst = '%s:decoder routes payloads of <= 1 byte to concealment, bounded by the TOC duration' % prog.config
    # the routing branch is the one whose taken arm discards the payload pointer
    def nulls_data(b):
        st_, _, _ = T.region_effects(cf, f, T.controlled_region(cf, b, True))
        return any(sx.key(lv) == ('param', pd) and sx.int_val(n[2]) == 0 for n, lv in st_)
    hits = [b for b in hits if nulls_data(b)]
    if len(hits) != 1:
        rep.violated('R20.5', inst, f.where(), 'no `len <= 1` branch that sets data = NULL in %s (%d found)' % (f.name, len(hits)), key='dec-dtx')
        return
    region = T.controlled_region(cf, hits[0], True)
    stores, rets, calls = T.region_effects(cf, f, region)
    nulls = [n for n, lv in stores if sx.key(lv) == ('param', pd) and sx.int_val(n[2]) == 0]
    lim = [n for n, lv in stores if sx.key(lv) == ('param', pf) and any(sx.kind(x) == 'field' and x[3] == 'frame_size' for x in sx.walk(n[2]))]
    # the data != NULL test that selects normal decoding comes after
    ok = len(nulls) == 1 and len(lim) == 1 and not rets
    (rep.holds if ok else rep.violated)('R20.5', inst, '%s:%s' % (f.file, cf.blocks[hits[0]]['term'].get('l')),
                                        'data = NULL: %d, frame_size limited by st->frame_size: %d' % (len(nulls), len(lim)), **({} if ok else {'key': 'dec-dtx'}))


# ------------------------------------------------------------------ R20.7 / R20.8
def r20_7(rep, prog):
    """the digital-silence detector scans every input channel: each call that passes the encoder's input PCM
    passes the encoder's channel count (the interleave of that buffer), not the number of channels coded"""
    n = 0
    for f in prog.functions_all:
        if not f.file.startswith('src/'):
            continue
        for c in f.calls():
            if sx.callee_name(c) != 'is_digital_silence' or len(c[2]) < 3:
                continue
            root, path = sx.lvalue_root(sx.strip(c[2][0])) if sx.kind(sx.strip(c[2][0])) != 'param' else (sx.strip(c[2][0]), None)
            a0 = sx.strip(c[2][0])
            base = a0
            while sx.kind(base) == 'bin' and base[1] in ('+', '-'):
                base = sx.strip(base[2])
            if sx.kind(base) != 'param':
                continue     # an internal mono buffer (the analysis), not the caller's interleaved input
            n += 1
            ch = sx.strip(c[2][2])
            inst = '%s:%s scans all input channels for digital silence' % (prog.config, f.name)
            where = '%s:%s' % (f.file, sx.line(c))
            rep.functions.add(f.name)
            ln_ = sx.strip(c[2][1])
            if sx.kind(a0) == 'param' and not (sx.kind(ln_) == 'param' and ln_[2] == 'frame_size'):
                rep.violated('R20.7', '%s:%s scans the whole packet it was given for digital silence' % (prog.config, f.name), where,
                             'the pointer is the start of the input (`%s`) but the length is `%s`, not frame_size: only the head of a multi-frame packet is looked at, and activity resuming later in it is sent as DTX' % (sx.show(a0), sx.show(ln_)),
                             key='%s:%s:len' % (f.name, sx.line(c)))
            elif sx.kind(ch) == 'field' and ch[3] == 'channels':
                rep.holds('R20.7', inst, where, 'channel count `%s`' % sx.show(ch))
            else:
                rep.violated('R20.7', inst, where, 'the input buffer `%s` is interleaved by st->channels but is scanned with `%s`: part of every frame is not looked at, and a frame with audio there is declared silent (sent as DTX)' % (
                    sx.show(a0), sx.show(ch)), key='%s:%s' % (f.name, sx.line(c)))
    return n


def r20_8(rep, prog):
    """OPUS_GET_IN_DTX under SILK-driven DTX agrees with the packet decision of silk_Encode.
    silk_Encode presets inDTX = useDTX for every channel, lets the VAD of each channel it ENCODES clear it unless
    that channel's counter has passed the threshold, and sends no bytes iff inDTX[0] && (one channel || inDTX[1]);
    the side channel is not encoded in a mid-only frame, so its flag stays set.  Hence
        DTX packet  <=>  c0 && (nChannelsInternal == 1 || mid_only || c1)      (cN: counter N past the threshold)
    The query arm is evaluated by interval analysis for all 16 valuations and compared with that table."""
    from .. import absint, ctl
    f = prog.fn('opus_encoder_ctl')
    cf, arms = ctl.switch_arms(f)
    arm = [a for a in arms if 'OPUS_GET_IN_DTX_REQUEST' in a.names]
    inst = '%s:OPUS_GET_IN_DTX (SILK-driven) is true exactly when silk_Encode sends no bytes' % prog.config
    if not arm:
        rep.unresolved('R20.8', inst + ': no OPUS_GET_IN_DTX arm')
        return
    arm = arm[0]
    # the out store(s)  *value = ...  and the arm's exit
    stores = [(b, i, n) for b, i, n in arm.find(lambda n: n[0] == 'assign' and sx.kind(sx.strip(n[1])) == 'deref')]
    if not stores:
        rep.unresolved('R20.8', inst + ': no store through the out pointer')
        return
    outk = sx.key(sx.strip(sx.strip(stores[0][2][1])[1]))
    thr = None
    for b, i, n in arm.find(lambda n: n[0] == 'bin' and n[1] == '>=' and sx.kind(sx.strip(n[2])) == 'field' and sx.strip(n[2])[3] == 'noSpeechCounter'):
        thr = sx.int_val(n[3])
    if thr is None:
        rep.unresolved('R20.8', inst + ': counter threshold not found')
        return
    exits = [b for b in arm.blocks if any(s2 not in arm.blocks for s2 in cf.succ[b])]
    bad = []
    ncase = 0
    for c0 in (0, 1):
        for c1 in (0, 1):
            for nch in (1, 2):
                for mo in (0, 1):
                    def hook(an_, node, st_, c0=c0, c1=c1, nch=nch, mo=mo):
                        n_ = sx.strip(node)
                        if sx.kind(n_) == 'field':
                            if n_[3] == 'noSpeechCounter':
                                t = sx.show(n_)
                                return absint.const((thr if c1 else thr - 1) if '[1]' in t else (thr if c0 else thr - 1))
                            if n_[3] == 'nChannelsInternal':
                                return absint.const(nch)
                            if n_[3] == 'prev_decode_only_middle':
                                return absint.const(mo)
                            if n_[3] == 'useDTX':
                                return absint.const(1)
                            if n_[3] == 'prev_mode':
                                return absint.const(1000)
                        return None
                    an = absint.Analyzer(prog, f, entry_state={}, start=arm.entry, call_summary=absint.inline_summary(prog), havoc_fields_on_call=False, load_hook=hook)
                    vals = set()
                    for b in exits:
                        st = an.state_at(b, len(cf.blocks[b]['stmts']))
                        if st is None:
                            continue
                        v = an.lookup(st, ('deref', outk), None)
                        if v is None:
                            continue      # a path that stores nothing (rejected NULL argument)
                        vs = absint.values(v, 4)
                        if vs is None:
                            vals = None
                            break
                        vals |= set(vs)
                    ncase += 1
                    want = int(bool(c0 and (nch == 1 or mo or c1)))
                    if vals is None or not vals:
                        rep.unresolved('R20.8', inst + ': the value stored through the out pointer could not be evaluated (c0=%d c1=%d channels=%d mid_only=%d)' % (c0, c1, nch, mo))
                        return
                    if vals != {want}:
                        bad.append((c0, c1, nch, mo, sorted(vals), want))
    where = '%s:%s' % (f.file, arm.line())
    if bad:
        b0 = bad[0]
        rep.violated('R20.8', inst, where, 'mid counter %s, side counter %s the threshold, %d internal channel(s), previous frame %s: the query answers %s, silk_Encode %s (%d of %d valuations differ)' % (
            'past' if b0[0] else 'below', 'past' if b0[1] else 'below', b0[2], 'mid-only' if b0[3] else 'mid+side', b0[4], 'sends no bytes' if b0[5] else 'sends a packet', len(bad), ncase), key='in-dtx-table')
    else:
        rep.holds('R20.8', inst, where, '%d valuations of (mid counter, side counter, internal channels, mid-only)' % ncase)


# ------------------------------------------------------------------ R20.9
def r20_9(rep, prog):
    """SILK DTX is armed once per PACKET (`inDTX = useDTX` in silk_Encode) and vetoed per frame by the VAD step (R20.2):
    one frame of a 40/60 ms packet - the refresh - clears it for the whole packet.  The arming store must therefore lie
    outside the loop that encodes the frames; inside it, a later frame re-arms what an earlier frame vetoed."""
    n = 0
    for f in prog.functions_all:
        if not f.file.startswith('silk/') or f.name != 'silk_Encode':
            continue
        cf = cfgm.CFG(f)
        frame_loops = [body for h, latch, body in cf.natural_loops()
                       if any(sx.kind(x) == 'call' and (sx.callee_name(x) or '').startswith(('silk_encode_frame', 'silk_encode_do_VAD')) for b in body for s_ in cf.blocks[b]['stmts'] for x in sx.walk(s_))]
        for b, i, x in cf.find(lambda x: x[0] == 'assign' and sx.kind(sx.strip_paren(x[1])) == 'field' and sx.strip_paren(x[1])[3] == 'inDTX'):
            if sx.int_val(sx.strip(x[2])) == 0:
                continue
            n += 1
            rep.functions.add(f.name)
            inst = '%s:silk_Encode arms DTX once per packet (`%s`)' % (prog.config, sx.show(x)[:50])
            where = '%s:%s' % (f.file, sx.line(x))
            if any(b in body for body in frame_loops):
                rep.violated('R20.9', inst, where, 'the arming store lies inside the loop that encodes the frames of the packet: a refresh frame that is not the last one of a 40/60 ms packet is re-armed by the next frame and the refresh packet is never sent', key='silk-dtx-arming-per-frame')
            else:
                rep.holds('R20.9', inst, where, 'outside the %d frame-encoding loop(s)' % len(frame_loops))
        if not frame_loops:
            rep.unresolved('R20.9', '%s: frame-encoding loop of silk_Encode not found' % prog.config)
    return n


def check(rep, prog, tier):
    r20_9(rep, prog)
    r20_7(rep, prog)
    r20_8(rep, prog)
    omin = r20_1(rep, prog)
    smin = r20_2(rep, prog)
    # both detectors use the same thresholds (SILK counts 20 ms frames, Opus counts Q1 ms)
    if omin is not None and smin is not None:
        # smallest DTX post-state: opus  T_lo + 1 .. ; silk  T_lo + 1
        ok = (smin - 1) * 40 == ((omin - 1) // 5) * 5 or (smin - 1) * 40 < omin <= (smin - 1) * 40 + 5
        (rep.holds if ok else rep.violated)('R20.2', '%s:both detectors start DTX after the same 200 ms' % prog.config, None,
                                            'SILK: counter > %d frames; Opus: counter > about %d (Q1 ms)' % (smin - 1, omin - 1), **({} if ok else {'key': 'thresholds-differ'}))
    r20_3(rep, prog, omin, smin)
    r20_4(rep, prog)
    r20_5(rep, prog)
    r20_6(rep, prog)
