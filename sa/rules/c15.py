"""C15 — run-time dispatched SIMD kernels: dispatch soundness (a necessary
condition: a kernel executed on a CPU below its ISA traps; an empty slot is a
NULL call).  Kernel *results* are not decided.

R15.1 every RTCD table entry i is a function from a TU whose -m flags are
      within ISA level i; selectable entries are non-NULL.
R15.2 max(opus_select_arch) < number of initialised entries; every use of a
      table masks the index with (length-1).
R15.3 no direct call from a TU into a function compiled with more ISA flags
      (presumption must agree with compile flags).
R15.6 each level is only selected after the CPUID bits of every ISA extension
      its kernels were compiled with have been tested.
R15.4 twin kernels saturate what they store to the same range (see below).
"""
from .. import sx, cfg as cfgm, templates as T
from ..facts import flatten
from ..compdb import AnalysisBroken

EXPLANATION = (
    'Decided (dispatch soundness only): R15.1 every run-time dispatch table (const array of function pointers of length '
    'OPUS_ARCHMASK+1) holds, at index i, a function defined in a translation unit whose -m ISA flags (from the '
    'compilation database) are within level i (0 base, 1 sse, 2 sse2, 3 sse4.1, 4 avx+avx2+fma), selectable entries '
    'non-NULL; R15.2 the largest value opus_select_arch_impl can return indexes an initialised entry and every table '
    'use masks the index; R15.3 no direct call into a TU compiled with more ISA flags than the caller; R15.6 a level '
    'is returned only after CPUID tests of every extension its kernels need (leaf/register/bit table in the checker). '
    'R15.4 a necessary condition of bit-identity on extreme data: where a C kernel and its SIMD twin both saturate what they '
    'store into a 8/16-bit array, they saturate to the same range (interval analysis of the scalar store, saturation of the pack '
    'intrinsic followed through min/max with constants and lane shuffles). '
    'NOT decided: bit-identity or numerical closeness of SIMD kernels to their C counterparts in general - a run-time relation '
    'over all argument shapes that static analysis of this kind cannot bound.')

CONFIGS = {'quick': ['float', 'fixed'], 'thorough': ['float', 'fixed']}

LEVEL_FLAGS = [set(), {'sse'}, {'sse', 'sse2'}, {'sse', 'sse2', 'sse4.1'}, {'sse', 'sse2', 'sse4.1', 'avx', 'avx2', 'fma'}]
# architectural CPUID feature bits: extension -> (leaf, register index in {eax,ebx,ecx,edx}, bit)
CPUID = {'sse': (1, 3, 25), 'sse2': (1, 3, 26), 'sse4.1': (1, 2, 19), 'avx': (1, 2, 28), 'fma': (1, 2, 12), 'avx2': (7, 1, 5)}


def setup(rep, tier):
    rep.minimum('R15.1', 6)
    rep.minimum('R15.2', 10)
    rep.minimum('R15.3', 1)
    rep.minimum('R15.6', 4)
    rep.minimum('R15.4', 6)
    rep.minimum('R15.5', 150)
    rep.minimum('R15.7', 10)
    rep.minimum('R15.8', 1)
    rep.minimum('R15.9', 1)


def isa_flags(prog, rel):
    u = prog.unit_flags.get(rel)
    if u is None:
        return None
    out = set()
    for m in u['m']:
        out.add(m)
    return out


def def_unit(prog, fname):
    """unit (.c file) in which function fname is defined"""
    for rel, tu in prog.units.items():
        for fd in tu['functions']:
            if fd['name'] == fname and fd['file'] == rel:
                return rel
    f = prog.functions.get(fname)
    return f.tu if f else None


def check(rep, prog, tier):
    if 'OPUS_HAVE_RTCD' not in prog.macros:
        rep.holds('R15.1', '%s: no run-time dispatch configured' % prog.config, None, 'OPUS_HAVE_RTCD undefined')
        return
    base = None
    for rel in prog.units:
        fl = isa_flags(prog, rel)
        if fl is None:
            continue
        base = fl if base is None else (base & fl)
    base = base or set()
    rep.extra.setdefault('isa', {})[prog.config] = {'baseline_flags': sorted(base)}
    mask = None
    for rel, v in prog.macros.get('OPUS_ARCHMASK', {}).items():
        mask = int(v)
    if mask is None:
        raise AnalysisBroken('OPUS_ARCHMASK not defined')
    # ---- R15.1 tables
    tables = {}
    for name, g in sorted(prog.globals.items()):
        if g.get('pointee_func') and g.get('dims') and 'init' in g and g.get('defined'):
            tables[name] = g
    level_ext = [set() for _ in LEVEL_FLAGS]
    for name, g in tables.items():
        ents = list(flatten(g['init']))
        inst = '%s:%s[%d]' % (prog.config, name, len(ents))
        problems = []
        if len(ents) != mask + 1:
            problems.append('length %d != OPUS_ARCHMASK+1 = %d' % (len(ents), mask + 1))
        if not g['const']:
            problems.append('table is not const')
        names = []
        for i, e in enumerate(ents):
            if e is None:
                names.append(None)
                if i < len(LEVEL_FLAGS):
                    problems.append('entry %d (a selectable level) is NULL' % i)
                continue
            if not isinstance(e, dict) or not e.get('isfunc'):
                problems.append('entry %d is not a function address' % i)
                continue
            names.append(e['addr'])
            if i >= len(LEVEL_FLAGS):
                problems.append('entry %d beyond the highest selectable level is initialised (%s)' % (i, e['addr'])) if False else None
                continue
            u = def_unit(prog, e['addr'])
            if u is None:
                problems.append('entry %d: %s is not defined in any parsed unit' % (i, e['addr']))
                continue
            fl = isa_flags(prog, u) or set()
            extra = fl - base - LEVEL_FLAGS[i]
            if extra:
                problems.append('entry %d (level %d) is %s from %s compiled with -m%s, not available at that level' %
                                (i, i, e['addr'], u, ' -m'.join(sorted(extra))))
            level_ext[i] |= (fl - base)
        rep.count(len(ents))
        if problems:
            rep.violated('R15.1', inst, g['loc'], '; '.join(p for p in problems if p), key=name)
        else:
            rep.holds('R15.1', inst, g['loc'], 'entries %s' % names[:5])
    if not tables:
        rep.unresolved('R15.1', 'no dispatch table found although OPUS_HAVE_RTCD is defined')
    # ---- R15.2 index masking at every use + max arch
    nuse = 0
    for f in prog.functions_all:
        for n in f.all_nodes():
            if n[0] == 'idx' and sx.kind(sx.strip(n[1])) == 'global' and sx.strip(n[1])[1] in tables:
                nuse += 1
                ix = sx.strip(n[2])
                ok = sx.kind(ix) == 'bin' and ix[1] == '&' and (sx.int_val(ix[3]) == mask or sx.int_val(ix[2]) == mask)
                where = '%s:%s' % (f.file, sx.line(n))
                if ok:
                    rep.holds('R15.2', '%s:%s uses %s[arch & %d]' % (prog.config, f.name, sx.strip(n[1])[1], mask), where, None)
                else:
                    rep.violated('R15.2', '%s:%s indexes %s' % (prog.config, f.name, sx.strip(n[1])[1]), where,
                                 'index %s is not masked with OPUS_ARCHMASK' % sx.show(n[2]), key='%s:%s' % (f.name, sx.strip(n[1])[1]))
    f = prog.fn('opus_select_arch_impl')
    rep.functions.add(f.name)
    cf = cfgm.CFG(f)
    maxret, per_level_guard = _max_arch(cf, f)
    ninit = min(len([e for e in flatten(g['init']) if e is not None]) for g in tables.values()) if tables else 0
    if maxret is None:
        rep.unresolved('R15.2', 'cannot bound the return value of opus_select_arch_impl')
    elif maxret < ninit and maxret <= mask:
        rep.holds('R15.2', '%s:max(opus_select_arch_impl)=%d < %d initialised entries' % (prog.config, maxret, ninit), f.where(), None)
    else:
        rep.violated('R15.2', '%s:max(opus_select_arch_impl)' % prog.config, f.where(),
                     'can return %d but only %d entries are initialised (mask %d)' % (maxret, ninit, mask), key='maxarch')
    # ---- R15.6 detection covers compile flags
    implied = _feature_tests(prog)
    for lvl in range(1, min(maxret or 0, len(LEVEL_FLAGS) - 1) + 1):
        need = set()
        for l2 in range(1, lvl + 1):
            need |= level_ext[l2] | (LEVEL_FLAGS[l2] & set().union(*level_ext))
        need = {x for x in need if x in CPUID} | {x for x in level_ext[lvl] if x not in CPUID}
        fields = per_level_guard.get(lvl, [])
        have = set()
        for fld in fields:
            have |= implied.get(fld, set())
        missing = []
        for ext in sorted(need):
            if ext not in CPUID:
                missing.append('%s (no CPUID rule known)' % ext)
            elif CPUID[ext] not in have:
                missing.append('%s (CPUID leaf %d reg %d bit %d)' % ((ext,) + CPUID[ext]))
        inst = '%s:level %d requires %s' % (prog.config, lvl, sorted(need))
        if missing:
            rep.violated('R15.6', inst, f.where(), 'returned after testing only %s via %s; missing %s' % (sorted(have), fields, missing), key='level%d' % lvl)
        else:
            rep.holds('R15.6', inst, f.where(), 'guarded by %s which imply CPUID tests %s' % (fields, sorted(have)))
    # ---- R15.3 direct calls never go up in ISA level
    defs = {}
    for rel, tu in prog.units.items():
        for fd in tu['functions']:
            if fd['file'] == rel:
                defs.setdefault(fd['name'], rel)
    nedges = 0
    bad = []
    for rel, tu in prog.units.items():
        fl = isa_flags(prog, rel) or set()
        for fd in tu['functions']:
            for b in fd.get('blocks', []):
                for s in b['stmts'] + ([b['term']['cond']] if b.get('term') and 'cond' in b['term'] else []):
                    for n in sx.walk(s):
                        if n[0] == 'call':
                            cn = sx.callee_name(n)
                            if cn in defs and defs[cn] != rel:
                                nedges += 1
                                gl = isa_flags(prog, defs[cn]) or set()
                                if not gl <= fl:
                                    bad.append((rel, fd['name'], cn, defs[cn], sorted(gl - fl), sx.line(n)))
    rep.count(nedges)
    seen = set()
    for rel, fn, cn, crel, extra, ln in bad:
        if (fn, cn) in seen:
            continue
        seen.add((fn, cn))
        rep.violated('R15.3', '%s:%s calls %s directly' % (prog.config, fn, cn), '%s:%s' % (rel, ln),
                     '%s is compiled with -m%s which %s is not' % (crel, ' -m'.join(extra), rel), key='%s:%s' % (fn, cn))
    if not bad:
        rep.holds('R15.3', '%s: %d cross-unit direct call edges' % (prog.config, nedges), None, 'callee ISA flags within caller unit flags on every edge', n=nedges)
    if nedges < 300:
        rep.unresolved('R15.3', 'only %d cross-unit call edges resolved (expected several hundred)' % nedges)
    r15_4(rep, prog)
    r15_5(rep, prog)
    r15_8(rep, prog)
    r15_9(rep, prog)
    r15_7(rep, prog)


def _max_arch(cf, f):
    """largest return value: arch starts at a constant and is only ++'d; count
    increments along the (acyclic) paths.  Also the HW_ fields whose test must
    have passed before the k-th increment."""
    order = []
    memo = {}
    guards_for_level = {}

    def walk(b, val, passed, depth):
        if depth > 200:
            return None
        best = None
        blk = cf.blocks[b]
        v = val
        for s in blk['stmts']:
            for n in sx.walk(s):
                if n[0] == 'assign' and sx.kind(n[1]) == 'local' and n[1][1] == 'arch':
                    c = sx.int_val(n[2])
                    if c is None:
                        return None
                    v = c
                elif n[0] == 'inc' and sx.kind(n[3]) == 'local' and n[3][1] == 'arch' and n[1] == '++':
                    v = (v if v is not None else 0) + 1
                    guards_for_level.setdefault(v, set()).update(passed)
                elif n[0] in ('cassign',) and sx.kind(n[2]) == 'local' and n[2][1] == 'arch':
                    return None
            if sx.kind(s) == 'ret':
                r = sx.strip(s[1]) if s[1] is not None else None
                if r is not None and sx.kind(r) == 'local' and r[1] == 'arch':
                    return v
                c = sx.int_val(r) if r is not None else None
                return c
        for s, pol in cf.edges(b):
            p2 = set(passed)
            c = cf.cond(b)
            if c is not None and pol is not None:
                e = sx.strip(c)
                neg = False
                while sx.kind(e) == 'un' and e[1] == '!':
                    neg = not neg
                    e = sx.strip(e[2])
                if sx.kind(e) == 'field' and ((pol and not neg) or (not pol and neg)):
                    p2.add(e[3])
            r = walk(s, v, frozenset(p2), depth + 1)
            if r is None and s != cf.exit:
                return None
            if r is not None:
                best = r if best is None else max(best, r)
        return best
    m = walk(cf.entry, None, frozenset(), 0)
    return m, {k: sorted(v) for k, v in guards_for_level.items()}


def _feature_tests(prog):
    """forward must-analysis over opus_cpu_feature_check: for each HW_ field,
    the CPUID (leaf, reg, bit) tests that are all true whenever the field is
    non-zero at exit"""
    f = prog.fn('opus_cpu_feature_check')
    cf = cfgm.CFG(f)
    ZERO = 'ZERO'

    def tests_of(e, leaf, state):
        """returns (set of tests, ok) for a conjunction of bit tests / self refs; ok False if the shape is not understood"""
        e = sx.strip(e)
        if sx.kind(e) == 'bin' and e[1] == '&&':
            a, oka = tests_of(e[2], leaf, state)
            b, okb = tests_of(e[3], leaf, state)
            # a conjunction is non-zero only if both are: union, each side may be opaque (ignored)
            return (a | b), True
        if sx.kind(e) == 'bin' and e[1] == '!=' and sx.int_val(e[3]) == 0:
            return tests_of(e[2], leaf, state)
        if sx.kind(e) == 'bin' and e[1] == '&':
            l, r = sx.strip(e[2]), sx.strip(e[3])
            v = sx.int_val(r)
            if sx.kind(l) == 'idx' and v is not None and v > 0 and v & (v - 1) == 0 and leaf is not None:
                reg = sx.int_val(l[2])
                if reg is not None:
                    return {(leaf, reg, v.bit_length() - 1)}, True
            return set(), False
        if sx.kind(e) == 'field':
            cur = state.get(e[3])
            if cur == ZERO or cur is None:
                return set(), True
            return set(cur), True
        return set(), False

    # per-block dataflow: state = (leaf of last cpuid, {field: set|ZERO})
    order = cf._rpo(cf.entry, cf.succ)
    IN = {}
    OUT = {}

    def join(states):
        states = [s for s in states if s is not None]
        if not states:
            return None
        leaf = states[0][0]
        for s in states[1:]:
            if s[0] != leaf:
                leaf = None
        fields = {}
        keys = set()
        for s in states:
            keys |= set(s[1])
        for k in keys:
            vals = [s[1].get(k, set()) for s in states]
            nz = [v for v in vals if v != ZERO]
            if not nz:
                fields[k] = ZERO
            else:
                r = set(nz[0])
                for v in nz[1:]:
                    r &= v
                fields[k] = r
        return (leaf, fields)

    changed = True
    rounds = 0
    while changed and rounds < 20:
        changed = False
        rounds += 1
        for b in order:
            if b == cf.entry:
                st = (None, {})
            else:
                st = join([OUT.get(p) for p in cf.pred[b]])
            if st is None:
                continue
            leaf, fields = st[0], dict(st[1])
            for s in cf.blocks[b]['stmts']:
                for n in sx.walk(s):
                    if n[0] == 'call' and sx.callee_name(n) == 'cpuid':
                        leaf = sx.int_val(n[2][1])
                    elif n[0] == 'assign' and sx.kind(n[1]) == 'field':
                        fld = n[1][3]
                        if sx.int_val(n[2]) == 0:
                            fields[fld] = ZERO
                        else:
                            t, ok = tests_of(n[2], leaf, fields)
                            fields[fld] = t
            new = (leaf, fields)
            if OUT.get(b) != new:
                OUT[b] = new
                changed = True
    final = OUT.get(cf.exit) or join([OUT.get(p) for p in cf.pred[cf.exit]])
    if final is None:
        raise AnalysisBroken('opus_cpu_feature_check: no state at exit')
    return {k: (set() if v == ZERO else v) | ({('always-zero',)} if v == ZERO else set()) for k, v in final[1].items()}


# ------------------------------------------------------------------ R15.4
# Twin kernels must saturate to the same range.  "Bit-identical for integer kernels" fails on
# extreme data as soon as the narrowing store of one twin clamps to [-32767, 32767] and the other's
# to [-32768, 32767]: that is visible in the code, with no input in hand.  For every dispatch table
# the C entry and each SIMD entry (with the static helpers of their own files) are searched for
# stores of 8/16-bit elements into arrays; the range of each stored value is computed with all
# inputs unknown - interval analysis of the scalar expression (clamp idioms, casts), or the
# saturation of the pack intrinsic that produced the stored vector (followed through min/max with
# constants and lane shuffles).  Per destination (matched by the name of the array), the union of
# ranges of the SIMD twin must equal that of the C twin.  Only destinations where BOTH twins
# saturate explicitly are compared (a plain wrapping cast says nothing about intended range).
ELEM_BITS = {'opus_int16': 16, 'opus_val16': 16, 'short': 16, 'celt_norm': 16, 'celt_coef': 16, 'opus_int8': 8, 'signed char': 8, 'char': 8}
PACK = {'_mm_packs_epi32': 16, '_mm256_packs_epi32': 16, '_mm_packs_epi16': 8, '_mm256_packs_epi16': 8}
PASS_THROUGH = ('_mm_shuffle_', '_mm256_shuffle_', '_mm_unpack', '_mm256_unpack', '_mm256_permute', '_mm_permute', '_mm256_castsi256_si128', '_mm256_extracti128_si256',
                '_mm256_extractf128', '_mm_castps_si128', '_mm_castsi128_ps', '_mm256_castsi128_si256', '_mm_blend', '_mm256_blend', '_mm_alignr', '_mm256_inserti128', '_mm_srli_si128', '_mm_slli_si128',
                '_mm_bsrli', '_mm_bslli', '_mm_move_epi64')


def _elem_bits(prog, f, root):
    t = None
    if sx.kind(root) == 'param':
        t = f.params[root[1]]['type']
    elif sx.kind(root) == 'local':
        l = f.locals.get(root[2])
        t = l['type'] if l else None
    elif sx.kind(root) == 'field':
        rf = prog.record(root[2]) if root[2] in prog.records else None
        if rf:
            for fl in rf['fields']:
                if fl['name'] == root[3]:
                    t = fl['type']
    if not t:
        return None
    t = t.replace('const', '').replace('OPUS_RESTRICT', '').replace('restrict', '').replace('*', ' ').replace('[', ' ').strip().split()
    if not t:
        return None
    b = ELEM_BITS.get(t[0])
    if b == 16 and t[0] in ('opus_val16', 'celt_norm', 'celt_coef') and 'FIXED_POINT' not in prog.macros:
        return None
    return b


def _root_name(e):
    e = sx.strip(e)
    while True:
        k = sx.kind(e)
        if k in ('idx',):
            e = sx.strip(e[1])
        elif k == 'addr' or k == 'deref':
            e = sx.strip(e[1])
        elif k == 'bin' and e[1] in ('+', '-'):
            e = sx.strip(e[2])
        elif k == 'cast':
            e = sx.strip(e[-2]) if isinstance(e[-1], dict) else sx.strip(e[-1])
        else:
            break
    if k == 'param':
        return e, e[2]
    if k == 'local':
        return e, e[1]
    if k == 'field':
        return e, e[3]
    return None, None


def _closure(prog, f):
    out, work = [], [f]
    while work:
        g = work.pop()
        if g in out:
            continue
        out.append(g)
        for c in g.calls():
            h = prog.resolve_in(g, sx.callee_name(c) or '')
            if h is not None and h.file == f.file and h not in out:
                work.append(h)
    return out


def _vec_range(g, cg, e, pos, depth=0):
    """(bits, lo, hi) of the lanes of a vector expression, or None"""
    if depth > 12:
        return None
    e = sx.strip(e)
    k = sx.kind(e)
    if k == 'local':
        cur, defs = cfgm.defs_at(cg, e[2], pos[0], pos[1])
        res = None
        for d in cur:
            db, di, dn = defs[d]
            if dn[0] != 'assign':
                return None
            r = _vec_range(g, cg, dn[2], (db, di), depth + 1)
            if r is None:
                return None
            res = r if res is None else (r[0], min(res[1], r[1]), max(res[2], r[2])) if r[0] == res[0] else None
            if res is None:
                return None
        return res
    if k == 'call':
        nm = sx.callee_name(e) or ''
        if nm in PACK:
            b = PACK[nm]
            return (b, -(1 << (b - 1)), (1 << (b - 1)) - 1)
        if nm in ('_mm_max_epi16', '_mm_min_epi16', '_mm256_max_epi16', '_mm256_min_epi16', '_mm_max_epi8', '_mm_min_epi8'):
            a, b_ = e[2][0], e[2][1]
            for x, y in ((a, b_), (b_, a)):
                ys = sx.strip(y)
                if sx.kind(ys) == 'call' and (sx.callee_name(ys) or '').startswith(('_mm_set1_epi', '_mm256_set1_epi')):
                    from .. import decide
                    c = decide.ev3(ys[2][0], {})
                    r = _vec_range(g, cg, x, pos, depth + 1)
                    if c is not None and r is not None:
                        return (r[0], max(r[1], c), r[2]) if 'max' in nm else (r[0], r[1], min(r[2], c))
            return None
        if nm.startswith(PASS_THROUGH):
            rs = [_vec_range(g, cg, a, pos, depth + 1) for a in e[2] if sx.int_val(a) is None]
            rs = [r for r in rs]
            if rs and all(r is not None for r in rs) and len({r[0] for r in rs}) == 1:
                return (rs[0][0], min(r[1] for r in rs), max(r[2] for r in rs))
        return None
    return None


def _narrow_stores(prog, f):
    """{dest name: {'sat': set of (lo, hi) from explicit saturation, 'plain': n}} over f and its same-file helpers"""
    from .. import absint
    out = {}
    for g in _closure(prog, f):
        cg = cfgm.CFG(g)
        an = None
        for b, i, s_ in cg.positions():
            for n in sx.walk(s_):
                if n[0] == 'assign' and sx.kind(sx.strip(n[1])) in ('idx', 'deref'):
                    root, name = _root_name(n[1])
                    bits = _elem_bits(prog, g, root) if root is not None else None
                    if bits is None:
                        continue
                    if an is None:
                        an = absint.Analyzer(prog, g, call_summary=absint.inline_summary(prog), havoc_fields_on_call=False)
                    st = an.state_before_node(b, i, n) if hasattr(an, 'state_before_node') else an.state_at(b, i)
                    if st is None:
                        continue
                    rhs = n[2]
                    # look through the final narrowing cast: the range BEFORE it says whether the value was saturated
                    r0 = sx.strip_paren(rhs)
                    inner = r0
                    while sx.kind(inner) == 'cast':
                        inner = sx.strip_paren(inner[-2] if isinstance(inner[-1], dict) else inner[-1])
                    v = an.ev(inner, st)
                    full = (-(1 << (bits - 1)), (1 << (bits - 1)) - 1)
                    d = out.setdefault(name, {'sat': set(), 'plain': 0, 'where': []})
                    if v and not absint.is_top(v) and absint.lo(v) >= full[0] and absint.hi(v) <= full[1] and any(sx.kind(x) == 'cond' for x in sx.walk(inner)):
                        d['sat'].add((absint.lo(v), absint.hi(v)))
                        d['where'].append('%s:%s' % (g.file, sx.line(n)))
                    else:
                        d['plain'] += 1
                elif n[0] == 'call' and (sx.callee_name(n) or '').startswith(('_mm_store', '_mm256_store', '_mm_maskstore', '_mm256_maskstore')) and len(n[2]) >= 2:
                    root, name = _root_name(n[2][0])
                    bits = _elem_bits(prog, g, root) if root is not None else None
                    if bits is None:
                        continue
                    r = _vec_range(g, cg, n[2][-1], (b, i))
                    d = out.setdefault(name, {'sat': set(), 'plain': 0, 'where': []})
                    if r is not None and r[0] == bits:
                        d['sat'].add((r[1], r[2]))
                        d['where'].append('%s:%s' % (g.file, sx.line(n)))
                    else:
                        d['plain'] += 1
    return out


def r15_4(rep, prog):
    n = 0
    for name, g in sorted(prog.globals.items()):
        if not (g.get('pointee_func') and g.get('dims') and 'init' in g and g.get('defined')):
            continue
        ents = [e['addr'] for e in flatten(g['init']) if isinstance(e, dict) and e.get('isfunc')]
        ents = list(dict.fromkeys(ents))
        if len(ents) < 2 or not all(prog.has_fn(e) for e in ents):
            continue
        c0 = prog.fn(ents[0])
        base = _narrow_stores(prog, c0)
        for tw in ents[1:]:
            f = prog.fn(tw)
            rep.functions.add(f.name)
            mine = _narrow_stores(prog, f)
            for dest in sorted(set(base) & set(mine)):
                a, b = base[dest], mine[dest]
                if not a['sat'] or not b['sat']:
                    continue
                n += 1
                ra = (min(x[0] for x in a['sat']), max(x[1] for x in a['sat']))
                rb = (min(x[0] for x in b['sat']), max(x[1] for x in b['sat']))
                inst = '%s:%s and %s saturate what they store into %s[] to the same range' % (prog.config, c0.name, f.name, dest)
                where = b['where'][0]
                if len(a['sat']) == 1 and len(b['sat']) == 1 and ra == rb:
                    rep.holds('R15.4', inst, where, 'both clamp to [%d, %d]' % ra)
                elif ra == rb and a['sat'] == b['sat']:
                    rep.holds('R15.4', inst, where, 'same set of clamps %s' % sorted(a['sat']))
                else:
                    rep.violated('R15.4', inst, where, '%s clamps to %s (%s) but %s clamps to %s (%s): on saturating data the two kernels return different values, so they are not bit-identical' % (
                        c0.name, sorted(a['sat']), a['where'][0], f.name, sorted(b['sat']), ', '.join(b['where'][:3])), key='%s:%s:%s' % (name, f.name, dest))
    return n


# ------------------------------------------------------------------ R15.7
import re as _re
_SUFFIX = _re.compile(r'_(c|sse|sse2|sse4_1|avx|avx2|neon|neon_intr|ne10|dotprod|arm|armv4|armv5e|armv6|rvv)$')


def r15_7(rep, prog):
    """one dispatch table, one kernel: every entry of a run-time dispatch table is an implementation of the same
    routine (the names agree once the `_c` / `_sse4_1` / `_avx2` ... suffix is removed).  Tables of neighbouring routines have the
    same function-pointer type, so a slot filled from the wrong family compiles, and each kernel still matches ITS OWN C twin."""
    n = 0
    for name, g in sorted(prog.globals.items()):
        if not (g.get('pointee_func') and g.get('dims') and 'init' in g and g.get('defined')):
            continue
        ents = [e['addr'] for e in flatten(g['init']) if isinstance(e, dict) and e.get('isfunc')]
        if len(ents) < 2:
            continue
        n += 1
        bases = {}
        for i, e in enumerate(ents):
            bases.setdefault(_SUFFIX.sub('', e), []).append((i, e))
        inst = '%s:%s dispatches to implementations of one routine' % (prog.config, name)
        if len(bases) == 1:
            rep.holds('R15.7', inst, g['loc'], 'routine `%s`' % next(iter(bases)))
        else:
            major = max(bases, key=lambda b: len(bases[b]))
            odd = [(i, e) for b, v in bases.items() if b != major for i, e in v]
            rep.violated('R15.7', inst, g['loc'], 'entry %d is `%s`, the other entries implement `%s`: that level runs a different algorithm than the C reference' % (odd[0][0], odd[0][1], major), key='%s:family' % name)
    return n


# ------------------------------------------------------------------ R15.5
# Scalar skeleton of twin kernels.  A SIMD twin vectorises the inner loops but keeps the scalar
# control and bookkeeping of its C counterpart: decision delays, gains, rate terms, shifts, energies
# that are computed once per call or per sub-frame.  For every (C kernel, SIMD twin, scalar local
# name) whose assignment sets agree on the reference tree (frozen in spec/c15_twin_scalars.json; the
# names that legitimately differ - vectorised accumulators, loop counters - are simply not listed),
# the two kernels, with the static helpers of their own files, must still assign that local from the
# same set of intrinsic-free expressions.  This is sibling agreement, not equivalence: it is silent
# when both twins change together and it cannot see the vector arithmetic.
import json as _json
import os as _os
TWIN_SPEC = _os.path.join(_os.path.dirname(_os.path.dirname(_os.path.dirname(_os.path.abspath(__file__)))), 'spec', 'c15_twin_scalars.json')


def scalar_assigns(prog, f):
    out = {}
    for g in _closure(prog, f):
        for n in g.all_nodes():
            if n[0] in ('assign', 'cassign'):
                lv = sx.strip(n[1] if n[0] == 'assign' else n[2])
                rhs = n[2] if n[0] == 'assign' else n[3]
                if sx.kind(lv) != 'local':
                    continue
                l = g.locals.get(lv[2])
                if not l or '__m' in l['type'] or '*' in l['type'] or '[' in l['type']:
                    continue
                if any(sx.kind(x) == 'call' and (sx.callee_name(x) or '').startswith(('_mm', '__builtin_ia32')) for x in sx.walk(rhs)):
                    continue
                op = '=' if n[0] == 'assign' else n[1]
                out.setdefault(lv[1], {})[op + ' ' + sx.show(rhs)] = '%s:%s' % (g.file, sx.line(n))
    return out


def twin_pairs(prog):
    seen = set()
    for name, g in sorted(prog.globals.items()):
        if not (g.get('pointee_func') and g.get('dims') and 'init' in g and g.get('defined')):
            continue
        ents = [e['addr'] for e in flatten(g['init']) if isinstance(e, dict) and e.get('isfunc')]
        ents = list(dict.fromkeys(ents))
        if len(ents) < 2 or not all(prog.has_fn(e) for e in ents):
            continue
        for tw in ents[1:]:
            seen.add((ents[0], tw))
            yield name, prog.fn(ents[0]), prog.fn(tw)
    # kernels selected at compile time (PRESUME_xxx builds call the SIMD twin directly): paired by the naming convention X_c / X_<isa>
    for f in sorted(prog.functions_all, key=lambda f: f.name):
        m = _re.match(r'^(.*)_(sse|sse2|sse4_1|avx|avx2|neon|neon_intr)$', f.name)
        if m and prog.has_fn(m.group(1) + '_c') and (m.group(1) + '_c', f.name) not in seen:
            seen.add((m.group(1) + '_c', f.name))
            yield 'by-name', prog.fn(m.group(1) + '_c'), f


def _floatish(g, e):
    e = sx.strip(e)
    for y in sx.walk(e):
        if sx.kind(y) == 'flt':
            return True
        if sx.kind(y) == 'local':
            l = g.locals.get(y[2])
            if l and 'bits' not in l and '*' not in l['type'] and '[' not in l['type'] and '__m' not in l['type']:
                return True
    return False


def float_conditions(prog, f):
    """NaN-sensitive branch conditions of a kernel: every comparison with a floating-point operand that occurs in a branch
    condition, with the parity of the negations above it.  `!(a > b)` and `a <= b` are different entries: they differ
    exactly for NaN."""
    out = {}

    def visit(g, e, neg, where):
        e = sx.strip(e)
        k = sx.kind(e)
        if k == 'un' and e[1] == '!':
            return visit(g, e[2], not neg, where)
        if k == 'bin' and e[1] in ('&&', '||'):
            visit(g, e[2], neg, where)
            visit(g, e[3], neg, where)
            return
        if k == 'bin' and e[1] in ('<', '<=', '>', '>=', '==', '!='):
            if any(sx.kind(x) == 'call' and (sx.callee_name(x) or '').startswith(('_mm', '__builtin_ia32')) for x in sx.walk(e)):
                return
            if not (_floatish(g, e[2]) or _floatish(g, e[3])):
                return
            op, a, b = e[1], sx.show(e[2]), sx.show(e[3])
            if op in ('>', '>='):
                op, a, b = {'>': '<', '>=': '<='}[op], b, a
            out[('not ' if neg else '') + '%s %s %s' % (a, op, b)] = where
    for g in _closure(prog, f):
        cf = cfgm.CFG(g)
        for b in cf.blocks:
            c = cf.cond(b)
            if c is not None:
                visit(g, c, False, '%s:%s' % (g.file, sx.line(c) or cf.blocks[b].get('term', {}).get('l')))
    return out


def r15_8(rep, prog):
    """twin kernels take the same NaN-sensitive decisions: for every (C kernel, SIMD twin) pair whose sets of scalar
    floating-point branch comparisons agree on the reference tree (frozen in spec/c15_twin_scalars.json), they must keep
    agreeing.  Rewriting `!(x > a && x < b)` as `x <= a || x >= b` in one twin changes what it does with NaN input."""
    try:
        spec = _json.load(open(TWIN_SPEC))
    except (OSError, ValueError):
        raise AnalysisBroken('spec/c15_twin_scalars.json missing')
    want = spec.get('float_conditions', {}).get(prog.config.split('+')[0])
    if want is None:
        return 0
    n = 0
    for tname, c0, tw in twin_pairs(prog):
        if '%s|%s' % (c0.name, tw.name) not in want:
            continue
        n += 1
        rep.functions.add(tw.name)
        a, b = float_conditions(prog, c0), float_conditions(prog, tw)
        inst = '%s:%s and %s branch on the same floating-point comparisons' % (prog.config, c0.name, tw.name)
        if set(a) == set(b):
            rep.holds('R15.8', inst, tw.where(), '%d comparison(s)' % len(a))
        else:
            oa, ob = sorted(set(a) - set(b)), sorted(set(b) - set(a))
            rep.violated('R15.8', inst, b[ob[0]] if ob else a[oa[0]], 'only in %s: %s; only in %s: %s - the two kernels decide differently for NaN (or for the changed bound), so they cannot be bit-identical on every input' % (
                c0.name, oa or '-', tw.name, ob or '-'), key='%s:%s:float-conditions' % (c0.name, tw.name))
    return n


def r15_9(rep, prog):
    """OPUS_CHECK_ASM is the build option under which every SIMD kernel is run next to the C kernel and compared.  It may
    ADD code (the comparison); a conditional block that REPLACES the shipped arithmetic under that option - an `#else`
    branch with code - means the kernel that is checked is not the kernel that ships, i.e. the source itself says the
    shipped kernel is not bit-identical to the C code.  Preprocessor structure is invisible in the AST, so this rule reads
    the conditional-inclusion structure of the kernel sources directly (all of celt/ and silk/, every target)."""
    import re as _r
    import glob as _g
    import os as _o
    from .. import compdb
    if prog.config.split('+')[0] != 'float' and 'float' in CONFIGS['quick']:
        return 0            # source-level rule: once per run is enough
    root = compdb.REPO

    def scan(rel, lines):
        nb, out = 0, []
        stack = []
        for i, l in enumerate(lines, 1):
            t = l.strip()
            if _r.match(r'#\s*if', t):
                pos = 'OPUS_CHECK_ASM' in t and not _r.search(r'ifndef|!\s*defined', t)
                stack.append([i, pos, None])
            elif _r.match(r'#\s*(else|elif)', t) and stack and stack[-1][2] is None:
                stack[-1][2] = i
            elif _r.match(r'#\s*endif', t) and stack:
                st0 = stack.pop()
                if st0[1]:
                    nb += 1
                    if st0[2]:
                        body = [x.strip() for x in lines[st0[2]:i - 1] if x.strip() and not x.strip().startswith(('/*', '*', '//'))]
                        code = [x for x in body if not _r.match(r'(silk_assert|celt_assert|celt_sig_assert)\s*\(', x)]
                        if code:
                            out.append((rel, st0[0], st0[2], code[0]))
        return nb, out
    # the scanner must recognise the construct it looks for (a fixed positive example, checked on every run: the expected
    # count on the tree is zero, and a scanner that matches nothing would pass for ever)
    probe = ['static int f(int a, int b)', '{', '#ifdef OPUS_CHECK_ASM', '   return c_formula(a, b);', '#else', '   t = (long long)a * b;', '   return t >> 16;', '#endif', '}',
             '#ifdef OPUS_CHECK_ASM', '   celt_assert(x == y);', '#endif']
    pn, pbad = scan('probe', probe)
    if pn != 2 or len(pbad) != 1 or pbad[0][2] != 5:
        rep.unresolved('R15.9', 'the conditional-block scanner does not recognise its own positive example (%d blocks, %s)' % (pn, pbad))
        return 0
    nblocks = 0
    bad = []
    for pat in ('celt/**/*.[ch]', 'silk/**/*.[ch]'):
        for path in sorted(_g.glob(_o.path.join(root, pat), recursive=True)):
            rel = _o.path.relpath(path, root)
            try:
                lines = open(path, errors='replace').read().split('\n')
            except OSError:
                continue
            nb, out = scan(rel, lines)
            nblocks += nb
            bad += out
    inst = '%s:the self-check option only adds comparisons, it never replaces shipped kernel arithmetic' % prog.config
    if nblocks < 10:
        rep.unresolved('R15.9', inst + ': only %d OPUS_CHECK_ASM blocks found' % nblocks)
        return 0
    if not bad:
        rep.holds('R15.9', inst, None, '%d conditional blocks on OPUS_CHECK_ASM, none with an #else branch holding code' % nblocks)
    for rel, l0, l1, code in bad:
        rep.violated('R15.9', inst + ' (%s)' % rel, '%s:%d' % (rel, l1), 'the block opened at line %d computes `%s ...` in the shipped build and something else under OPUS_CHECK_ASM: the kernel is admittedly not bit-identical to the C code, and the self-check cannot notice' % (l0, code[:50]),
                     key='%s:check-asm-else' % rel)
    return max(1, len(bad))


def r15_5(rep, prog):
    try:
        spec = _json.load(open(TWIN_SPEC))
    except (OSError, ValueError):
        raise AnalysisBroken('spec/c15_twin_scalars.json missing')
    want = spec.get(prog.config.split('+')[0])
    if want is None:
        return 0
    n = 0
    for tname, c0, tw in twin_pairs(prog):
        names = want.get('%s|%s' % (c0.name, tw.name), [])
        if not names:
            continue
        rep.functions.add(tw.name)
        a, b = scalar_assigns(prog, c0), scalar_assigns(prog, tw)
        for nm in names:
            if nm not in a or nm not in b:
                continue     # renamed or removed on one side: no longer comparable, not a disagreement
            n += 1
            inst = '%s:%s and %s assign the scalar `%s` from the same expressions' % (prog.config, c0.name, tw.name, nm)
            if set(a[nm]) == set(b[nm]):
                rep.holds('R15.5', inst, list(b[nm].values())[0], '%d assignment form(s)' % len(a[nm]))
            else:
                only_c = sorted(set(a[nm]) - set(b[nm]))
                only_t = sorted(set(b[nm]) - set(a[nm]))
                where = b[nm][only_t[0]] if only_t else list(b[nm].values())[0]
                rep.violated('R15.5', inst, where, 'only in %s: %s; only in %s: %s - the twins no longer do the same scalar bookkeeping, so they cannot return identical results' % (
                    c0.name, [x[:90] for x in only_c] or '-', tw.name, [x[:90] for x in only_t] or '-'), key='%s:%s:%s' % (c0.name, tw.name, nm))
    return n


if __name__ == '__main__':
    # regenerate the frozen instance list from the current tree:  python3 -m sa.rules.c15
    from ..facts import Program
    out = {}
    for cfg in ('float', 'fixed'):
        p = Program(cfg)
        d = {}
        for tname, c0, tw in twin_pairs(p):
            a, b = scalar_assigns(p, c0), scalar_assigns(p, tw)
            names = sorted(k for k in set(a) & set(b) if set(a[k]) == set(b[k]) and len(k) > 1)
            if names:
                d['%s|%s' % (c0.name, tw.name)] = names
        out[cfg] = d
        fc = []
        for tname, c0, tw in twin_pairs(p):
            a, b = float_conditions(p, c0), float_conditions(p, tw)
            if a and set(a) == set(b):
                fc.append('%s|%s' % (c0.name, tw.name))
        out.setdefault('float_conditions', {})[cfg] = sorted(set(fc))
    _json.dump(out, open(TWIN_SPEC, 'w'), indent=1, sort_keys=True)
    print({c: sum(len(v) for v in d.values()) for c, d in out.items() if c != 'float_conditions'}, out['float_conditions'])
