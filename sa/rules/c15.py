"""C15 — run-time dispatched SIMD kernels: dispatch soundness (a necessary
condition: a kernel executed on a CPU below its ISA traps; an empty slot is a
NULL call).  Kernel *results* are not decided.

R15.1 every RTCD table entry i is a function from a TU whose -m flags are
      within ISA level i; selectable entries are non-NULL.
R15.2 max(opus_select_arch) < number of initialised entries; every use of a
      table masks the index with (length-1).
R15.3 no direct call from a TU into a function compiled with more ISA flags
      (presumption must agree with compile flags).
R15.6 each level is only selected after the CPUID bits of every ISA extension
      its kernels were compiled with have been tested.
"""
from .. import sx, cfg as cfgm, templates as T
from ..facts import flatten
from ..compdb import AnalysisBroken

EXPLANATION = (
    'Decided (dispatch soundness only): R15.1 every run-time dispatch table (const array of function pointers of length '
    'OPUS_ARCHMASK+1) holds, at index i, a function defined in a translation unit whose -m ISA flags (from the '
    'compilation database) are within level i (0 base, 1 sse, 2 sse2, 3 sse4.1, 4 avx+avx2+fma), selectable entries '
    'non-NULL; R15.2 the largest value opus_select_arch_impl can return indexes an initialised entry and every table '
    'use masks the index; R15.3 no direct call into a TU compiled with more ISA flags than the caller; R15.6 a level '
    'is returned only after CPUID tests of every extension its kernels need (leaf/register/bit table in the checker). '
    'NOT decided: bit-identity or numerical closeness of any SIMD kernel to its C counterpart - a run-time relation '
    'over all argument shapes that static analysis of this kind cannot bound.')

CONFIGS = {'quick': ['float'], 'thorough': ['float', 'fixed']}

LEVEL_FLAGS = [set(), {'sse'}, {'sse', 'sse2'}, {'sse', 'sse2', 'sse4.1'}, {'sse', 'sse2', 'sse4.1', 'avx', 'avx2', 'fma'}]
# architectural CPUID feature bits: extension -> (leaf, register index in {eax,ebx,ecx,edx}, bit)
CPUID = {'sse': (1, 3, 25), 'sse2': (1, 3, 26), 'sse4.1': (1, 2, 19), 'avx': (1, 2, 28), 'fma': (1, 2, 12), 'avx2': (7, 1, 5)}


def setup(rep, tier):
    rep.minimum('R15.1', 6)
    rep.minimum('R15.2', 10)
    rep.minimum('R15.3', 1)
    rep.minimum('R15.6', 4)


def isa_flags(prog, rel):
    u = prog.unit_flags.get(rel)
    if u is None:
        return None
    out = set()
    for m in u['m']:
        out.add(m)
    return out


def def_unit(prog, fname):
    """unit (.c file) in which function fname is defined"""
    for rel, tu in prog.units.items():
        for fd in tu['functions']:
            if fd['name'] == fname and fd['file'] == rel:
                return rel
    f = prog.functions.get(fname)
    return f.tu if f else None


def check(rep, prog, tier):
    if 'OPUS_HAVE_RTCD' not in prog.macros:
        rep.holds('R15.1', '%s: no run-time dispatch configured' % prog.config, None, 'OPUS_HAVE_RTCD undefined')
        return
    base = None
    for rel in prog.units:
        fl = isa_flags(prog, rel)
        if fl is None:
            continue
        base = fl if base is None else (base & fl)
    base = base or set()
    rep.extra.setdefault('isa', {})[prog.config] = {'baseline_flags': sorted(base)}
    mask = None
    for rel, v in prog.macros.get('OPUS_ARCHMASK', {}).items():
        mask = int(v)
    if mask is None:
        raise AnalysisBroken('OPUS_ARCHMASK not defined')
    # ---- R15.1 tables
    tables = {}
    for name, g in sorted(prog.globals.items()):
        if g.get('pointee_func') and g.get('dims') and 'init' in g and g.get('defined'):
            tables[name] = g
    level_ext = [set() for _ in LEVEL_FLAGS]
    for name, g in tables.items():
        ents = list(flatten(g['init']))
        inst = '%s:%s[%d]' % (prog.config, name, len(ents))
        problems = []
        if len(ents) != mask + 1:
            problems.append('length %d != OPUS_ARCHMASK+1 = %d' % (len(ents), mask + 1))
        if not g['const']:
            problems.append('table is not const')
        names = []
        for i, e in enumerate(ents):
            if e is None:
                names.append(None)
                if i < len(LEVEL_FLAGS):
                    problems.append('entry %d (a selectable level) is NULL' % i)
                continue
            if not isinstance(e, dict) or not e.get('isfunc'):
                problems.append('entry %d is not a function address' % i)
                continue
            names.append(e['addr'])
            if i >= len(LEVEL_FLAGS):
                problems.append('entry %d beyond the highest selectable level is initialised (%s)' % (i, e['addr'])) if False else None
                continue
            u = def_unit(prog, e['addr'])
            if u is None:
                problems.append('entry %d: %s is not defined in any parsed unit' % (i, e['addr']))
                continue
            fl = isa_flags(prog, u) or set()
            extra = fl - base - LEVEL_FLAGS[i]
            if extra:
                problems.append('entry %d (level %d) is %s from %s compiled with -m%s, not available at that level' %
                                (i, i, e['addr'], u, ' -m'.join(sorted(extra))))
            level_ext[i] |= (fl - base)
        rep.count(len(ents))
        if problems:
            rep.violated('R15.1', inst, g['loc'], '; '.join(p for p in problems if p), key=name)
        else:
            rep.holds('R15.1', inst, g['loc'], 'entries %s' % names[:5])
    if not tables:
        rep.unresolved('R15.1', 'no dispatch table found although OPUS_HAVE_RTCD is defined')
    # ---- R15.2 index masking at every use + max arch
    nuse = 0
    for f in prog.functions_all:
        for n in f.all_nodes():
            if n[0] == 'idx' and sx.kind(sx.strip(n[1])) == 'global' and sx.strip(n[1])[1] in tables:
                nuse += 1
                ix = sx.strip(n[2])
                ok = sx.kind(ix) == 'bin' and ix[1] == '&' and (sx.int_val(ix[3]) == mask or sx.int_val(ix[2]) == mask)
                where = '%s:%s' % (f.file, sx.line(n))
                if ok:
                    rep.holds('R15.2', '%s:%s uses %s[arch & %d]' % (prog.config, f.name, sx.strip(n[1])[1], mask), where, None)
                else:
                    rep.violated('R15.2', '%s:%s indexes %s' % (prog.config, f.name, sx.strip(n[1])[1]), where,
                                 'index %s is not masked with OPUS_ARCHMASK' % sx.show(n[2]), key='%s:%s' % (f.name, sx.strip(n[1])[1]))
    f = prog.fn('opus_select_arch_impl')
    rep.functions.add(f.name)
    cf = cfgm.CFG(f)
    maxret, per_level_guard = _max_arch(cf, f)
    ninit = min(len([e for e in flatten(g['init']) if e is not None]) for g in tables.values()) if tables else 0
    if maxret is None:
        rep.unresolved('R15.2', 'cannot bound the return value of opus_select_arch_impl')
    elif maxret < ninit and maxret <= mask:
        rep.holds('R15.2', '%s:max(opus_select_arch_impl)=%d < %d initialised entries' % (prog.config, maxret, ninit), f.where(), None)
    else:
        rep.violated('R15.2', '%s:max(opus_select_arch_impl)' % prog.config, f.where(),
                     'can return %d but only %d entries are initialised (mask %d)' % (maxret, ninit, mask), key='maxarch')
    # ---- R15.6 detection covers compile flags
    implied = _feature_tests(prog)
    for lvl in range(1, min(maxret or 0, len(LEVEL_FLAGS) - 1) + 1):
        need = set()
        for l2 in range(1, lvl + 1):
            need |= level_ext[l2] | (LEVEL_FLAGS[l2] & set().union(*level_ext))
        need = {x for x in need if x in CPUID} | {x for x in level_ext[lvl] if x not in CPUID}
        fields = per_level_guard.get(lvl, [])
        have = set()
        for fld in fields:
            have |= implied.get(fld, set())
        missing = []
        for ext in sorted(need):
            if ext not in CPUID:
                missing.append('%s (no CPUID rule known)' % ext)
            elif CPUID[ext] not in have:
                missing.append('%s (CPUID leaf %d reg %d bit %d)' % ((ext,) + CPUID[ext]))
        inst = '%s:level %d requires %s' % (prog.config, lvl, sorted(need))
        if missing:
            rep.violated('R15.6', inst, f.where(), 'returned after testing only %s via %s; missing %s' % (sorted(have), fields, missing), key='level%d' % lvl)
        else:
            rep.holds('R15.6', inst, f.where(), 'guarded by %s which imply CPUID tests %s' % (fields, sorted(have)))
    # ---- R15.3 direct calls never go up in ISA level
    defs = {}
    for rel, tu in prog.units.items():
        for fd in tu['functions']:
            if fd['file'] == rel:
                defs.setdefault(fd['name'], rel)
    nedges = 0
    bad = []
    for rel, tu in prog.units.items():
        fl = isa_flags(prog, rel) or set()
        for fd in tu['functions']:
            for b in fd.get('blocks', []):
                for s in b['stmts'] + ([b['term']['cond']] if b.get('term') and 'cond' in b['term'] else []):
                    for n in sx.walk(s):
                        if n[0] == 'call':
                            cn = sx.callee_name(n)
                            if cn in defs and defs[cn] != rel:
                                nedges += 1
                                gl = isa_flags(prog, defs[cn]) or set()
                                if not gl <= fl:
                                    bad.append((rel, fd['name'], cn, defs[cn], sorted(gl - fl), sx.line(n)))
    rep.count(nedges)
    seen = set()
    for rel, fn, cn, crel, extra, ln in bad:
        if (fn, cn) in seen:
            continue
        seen.add((fn, cn))
        rep.violated('R15.3', '%s:%s calls %s directly' % (prog.config, fn, cn), '%s:%s' % (rel, ln),
                     '%s is compiled with -m%s which %s is not' % (crel, ' -m'.join(extra), rel), key='%s:%s' % (fn, cn))
    if not bad:
        rep.holds('R15.3', '%s: %d cross-unit direct call edges' % (prog.config, nedges), None, 'callee ISA flags within caller unit flags on every edge', n=nedges)
    if nedges < 300:
        rep.unresolved('R15.3', 'only %d cross-unit call edges resolved (expected several hundred)' % nedges)


def _max_arch(cf, f):
    """largest return value: arch starts at a constant and is only ++'d; count
    increments along the (acyclic) paths.  Also the HW_ fields whose test must
    have passed before the k-th increment."""
    order = []
    memo = {}
    guards_for_level = {}

    def walk(b, val, passed, depth):
        if depth > 200:
            return None
        best = None
        blk = cf.blocks[b]
        v = val
        for s in blk['stmts']:
            for n in sx.walk(s):
                if n[0] == 'assign' and sx.kind(n[1]) == 'local' and n[1][1] == 'arch':
                    c = sx.int_val(n[2])
                    if c is None:
                        return None
                    v = c
                elif n[0] == 'inc' and sx.kind(n[3]) == 'local' and n[3][1] == 'arch' and n[1] == '++':
                    v = (v if v is not None else 0) + 1
                    guards_for_level.setdefault(v, set()).update(passed)
                elif n[0] in ('cassign',) and sx.kind(n[2]) == 'local' and n[2][1] == 'arch':
                    return None
            if sx.kind(s) == 'ret':
                r = sx.strip(s[1]) if s[1] is not None else None
                if r is not None and sx.kind(r) == 'local' and r[1] == 'arch':
                    return v
                c = sx.int_val(r) if r is not None else None
                return c
        for s, pol in cf.edges(b):
            p2 = set(passed)
            c = cf.cond(b)
            if c is not None and pol is not None:
                e = sx.strip(c)
                neg = False
                while sx.kind(e) == 'un' and e[1] == '!':
                    neg = not neg
                    e = sx.strip(e[2])
                if sx.kind(e) == 'field' and ((pol and not neg) or (not pol and neg)):
                    p2.add(e[3])
            r = walk(s, v, frozenset(p2), depth + 1)
            if r is None and s != cf.exit:
                return None
            if r is not None:
                best = r if best is None else max(best, r)
        return best
    m = walk(cf.entry, None, frozenset(), 0)
    return m, {k: sorted(v) for k, v in guards_for_level.items()}


def _feature_tests(prog):
    """forward must-analysis over opus_cpu_feature_check: for each HW_ field,
    the CPUID (leaf, reg, bit) tests that are all true whenever the field is
    non-zero at exit"""
    f = prog.fn('opus_cpu_feature_check')
    cf = cfgm.CFG(f)
    ZERO = 'ZERO'

    def tests_of(e, leaf, state):
        """returns (set of tests, ok) for a conjunction of bit tests / self refs; ok False if the shape is not understood"""
        e = sx.strip(e)
        if sx.kind(e) == 'bin' and e[1] == '&&':
            a, oka = tests_of(e[2], leaf, state)
            b, okb = tests_of(e[3], leaf, state)
            # a conjunction is non-zero only if both are: union, each side may be opaque (ignored)
            return (a | b), True
        if sx.kind(e) == 'bin' and e[1] == '!=' and sx.int_val(e[3]) == 0:
            return tests_of(e[2], leaf, state)
        if sx.kind(e) == 'bin' and e[1] == '&':
            l, r = sx.strip(e[2]), sx.strip(e[3])
            v = sx.int_val(r)
            if sx.kind(l) == 'idx' and v is not None and v > 0 and v & (v - 1) == 0 and leaf is not None:
                reg = sx.int_val(l[2])
                if reg is not None:
                    return {(leaf, reg, v.bit_length() - 1)}, True
            return set(), False
        if sx.kind(e) == 'field':
            cur = state.get(e[3])
            if cur == ZERO or cur is None:
                return set(), True
            return set(cur), True
        return set(), False

    # per-block dataflow: state = (leaf of last cpuid, {field: set|ZERO})
    order = cf._rpo(cf.entry, cf.succ)
    IN = {}
    OUT = {}

    def join(states):
        states = [s for s in states if s is not None]
        if not states:
            return None
        leaf = states[0][0]
        for s in states[1:]:
            if s[0] != leaf:
                leaf = None
        fields = {}
        keys = set()
        for s in states:
            keys |= set(s[1])
        for k in keys:
            vals = [s[1].get(k, set()) for s in states]
            nz = [v for v in vals if v != ZERO]
            if not nz:
                fields[k] = ZERO
            else:
                r = set(nz[0])
                for v in nz[1:]:
                    r &= v
                fields[k] = r
        return (leaf, fields)

    changed = True
    rounds = 0
    while changed and rounds < 20:
        changed = False
        rounds += 1
        for b in order:
            if b == cf.entry:
                st = (None, {})
            else:
                st = join([OUT.get(p) for p in cf.pred[b]])
            if st is None:
                continue
            leaf, fields = st[0], dict(st[1])
            for s in cf.blocks[b]['stmts']:
                for n in sx.walk(s):
                    if n[0] == 'call' and sx.callee_name(n) == 'cpuid':
                        leaf = sx.int_val(n[2][1])
                    elif n[0] == 'assign' and sx.kind(n[1]) == 'field':
                        fld = n[1][3]
                        if sx.int_val(n[2]) == 0:
                            fields[fld] = ZERO
                        else:
                            t, ok = tests_of(n[2], leaf, fields)
                            fields[fld] = t
            new = (leaf, fields)
            if OUT.get(b) != new:
                OUT[b] = new
                changed = True
    final = OUT.get(cf.exit) or join([OUT.get(p) for p in cf.pred[cf.exit]])
    if final is None:
        raise AnalysisBroken('opus_cpu_feature_check: no state at exit')
    return {k: (set() if v == ZERO else v) | ({('always-zero',)} if v == ZERO else set()) for k, v in final[1].items()}
