"""Float / fixed-point twins of the SILK encoder (X_FLP in silk/float, X_FIX in silk/fixed) implement one
algorithm twice; which one is built depends on the configuration, so a slip in one of them is a slip in "the
encoder" of that configuration only and no test of the other configuration can see it.  Their signal arithmetic
differs by design, their integer bookkeeping does not: indices, flags, counters, coding modes, seeds, frame counts.

For every (twin pair, integer lvalue) whose sets of float-free assignment expressions agree on the reference tree
(frozen in spec/c02_flpfix_twins.json; `_FLP/_FIX/_Fxx` suffixes are normalised away) the two twins must keep
assigning that lvalue from the same expressions.  Sibling agreement, not equivalence."""
import json, os, re
from .. import sx, cfg as cfgm
from ..compdb import AnalysisBroken

SPEC = os.path.join(os.path.dirname(os.path.dirname(os.path.dirname(os.path.abspath(__file__)))), 'spec', 'c02_flpfix_twins.json')


def norm(s):
    return re.sub(r'_(FLP|FIX|Fxx)\b', '_X', s)


def skeleton(f):
    out = {}
    for n in f.all_nodes():
        if n[0] in ('assign', 'cassign'):
            lv = sx.strip(n[1] if n[0] == 'assign' else n[2])
            rhs = n[2] if n[0] == 'assign' else n[3]
            if sx.kind(lv) not in ('field', 'local'):
                continue
            if any(sx.kind(x) == 'flt' for x in sx.walk(rhs)):
                continue
            out.setdefault(norm(sx.show(lv)), {})[norm(('=' if n[0] == 'assign' else n[1]) + ' ' + sx.show(rhs))] = '%s:%s' % (f.file, sx.line(n))
    return out


def _plain(c):
    return not any(sx.kind(x) in ('flt', 'call') for x in sx.walk(c))


def guarded_skeleton(f):
    """lvalue -> {(expression, guards)}: guards = the float-free, call-free branch conditions (with polarity) the store is control
    dependent on.  Hoisting an assignment out of its branch, or moving it under another one, changes this
    set although the expression stays the same."""
    out = {}
    cf = cfgm.CFG(f)
    loopctl = set()
    for h, latch, body in cf.natural_loops():
        loopctl |= {h, latch}                 # loop-exit tests are not decisions about the store
    for b, i, n in cf.find(lambda n: n[0] in ('assign', 'cassign')):
        lv = sx.strip(n[1] if n[0] == 'assign' else n[2])
        rhs = n[2] if n[0] == 'assign' else n[3]
        if sx.kind(lv) != 'field':
            continue
        if any(sx.kind(x) == 'flt' for x in sx.walk(rhs)):
            continue
        # control dependence: branch edges (p, polarity) such that the store is always reached after taking that edge
        # (it post-dominates the edge's target) but not always after reaching p.  `if (A || B) { store }` depends on A and on B.
        deps = set()
        for pb in cf.blocks:
            c = cf.cond(pb)
            es = cf.edges(pb)
            if c is None or len(es) != 2 or es[0][1] is None or pb in loopctl or not _plain(c):
                continue
            if cf.postdominates(b, pb) and b != pb:
                continue
            for s_, pol in es:
                if s_ == b or cf.postdominates(b, s_):
                    deps.add(('' if pol else '!') + norm(sx.show(c)))
        gs = tuple(sorted(deps))
        out.setdefault(norm(sx.show(lv)), {})[(norm(('=' if n[0] == 'assign' else n[1]) + ' ' + sx.show(rhs)), gs)] = '%s:%s' % (f.file, sx.line(n))
    return out


def pairs(pf, px):
    for f in pf.functions_all:
        if f.name.endswith('_FLP') and f.file.startswith('silk/float/'):
            g = f.name[:-4] + '_FIX'
            if px.has_fn(g):
                yield f, px.fn(g)


def check(rep, rule, pf, px, only=None):
    try:
        spec = json.load(open(SPEC))
    except (OSError, ValueError):
        raise AnalysisBroken('spec/c02_flpfix_twins.json missing')
    n = 0
    for f, g in pairs(pf, px):
        if only is not None and not only(f.name):
            continue
        names = spec.get(f.name[:-4], [])
        if not names or not isinstance(names, list):
            continue
        rep.functions.add(f.name)
        rep.functions.add(g.name)
        a, b = skeleton(f), skeleton(g)
        ga = gb_ = None
        for nm in names:
            if nm not in a or nm not in b:
                continue
            n += 1
            inst = '%s and %s assign `%s` from the same integer expressions' % (f.name, g.name, nm)
            if set(a[nm]) == set(b[nm]):
                rep.holds(rule, inst, list(a[nm].values())[0], '%d form(s)' % len(a[nm]))
                if nm in spec.get('guarded', {}).get(f.name[:-4], []):
                    if ga is None:
                        ga, gb_ = guarded_skeleton(f), guarded_skeleton(g)
                    n += 1
                    inst2 = '%s and %s assign `%s` under the same integer branch conditions' % (f.name, g.name, nm)
                    xa, xb = set(ga.get(nm, {})), set(gb_.get(nm, {}))
                    if xa == xb:
                        rep.holds(rule, inst2, list(a[nm].values())[0], '%d guarded form(s)' % len(xa))
                    else:
                        oa, ob = sorted(xa - xb), sorted(xb - xa)
                        where = ga[nm][oa[0]] if oa else gb_[nm][ob[0]]
                        rep.violated(rule, inst2, where, 'only in the float twin: %s; only in the fixed-point twin: %s - the same store now happens under different conditions in the two builds of the encoder' % (
                            [(e[:50], list(gs)[:3]) for e, gs in oa] or '-', [(e[:50], list(gs)[:3]) for e, gs in ob] or '-'), key='%s:%s:guards' % (f.name[:-4], nm))
            else:
                oa, ob = sorted(set(a[nm]) - set(b[nm])), sorted(set(b[nm]) - set(a[nm]))
                where = a[nm][oa[0]] if oa else b[nm][ob[0]]
                rep.violated(rule, inst, where, 'only in the float twin: %s; only in the fixed-point twin: %s - the two builds of the encoder no longer keep the same bookkeeping' % (
                    [x[:80] for x in oa] or '-', [x[:80] for x in ob] or '-'), key='%s:%s' % (f.name[:-4], nm))
    return n


if __name__ == '__main__':
    from ..facts import Program
    pf, px = Program('float'), Program('fixed')
    out = {}
    for f, g in pairs(pf, px):
        a, b = skeleton(f), skeleton(g)
        names = sorted(k for k in set(a) & set(b) if set(a[k]) == set(b[k]))
        if names:
            out[f.name[:-4]] = names
        ga, gb_ = guarded_skeleton(f), guarded_skeleton(g)
        gn = sorted(k for k in set(ga) & set(gb_) & set(names) if set(ga[k]) == set(gb_[k]))
        if gn:
            out.setdefault('guarded', {})[f.name[:-4]] = gn
    json.dump(out, open(SPEC, 'w'), indent=1, sort_keys=True)
    print(sum(len(v) for k, v in out.items() if k != 'guarded'), sum(len(v) for v in out.get('guarded', {}).values()))
