"""Shared rule: the CELT decoder's per-band energy memories (oldBandE, oldLogE,
oldLogE2, backgroundLogE) always hold two channel slots when the decoder was
created for two channels, whatever the current packet's channel count (and on
a mono decoder too: slot 1 is merged back into slot 0 by the next mono frame).  Every
loop that updates one of them channel by channel (or entry by entry) must
cover all `st->channels` slots, or be followed by the mono copy of slot 0 into
slot 1 -- otherwise a slot keeps stale energies that the next stereo packet
(C03) or the concealment synthesis (C09) then reads.

Decided structurally: the loop bound is evaluated for the three reachable
(stream_channels, channels) pairs (1,1) (1,2) (2,2)."""
from .. import sx, cfg as cfgm, decide

NB = 21  # any positive value works: the bound is compared as a multiple of nbEBands


def energy_arrays(g):
    """locals p, q with  q = p + 2*nbEBands  (transitively): the energy memories laid out one after another"""
    S = {}
    for l in g.locals.values():
        for lv, r in decide.find_assign(g, l['name']):
            rr = sx.strip(r)
            if sx.kind(rr) == 'bin' and rr[1] == '+':
                a, b = sx.strip(rr[2]), sx.strip(rr[3])
                if sx.kind(a) == 'local' and sx.kind(b) == 'bin' and b[1] == '*' and 2 in (sx.int_val(b[2]), sx.int_val(b[3])) and \
                        any(sx.kind(sx.strip(x)) == 'local' and sx.strip(x)[1] == 'nbEBands' for x in (b[2], b[3])):
                    S[l['id']] = l['name']
                    S[a[2]] = a[1]
    return S


def _resolver(g, C, CC):
    def res(e):
        k = sx.kind(e)
        if k in ('field', 'arrow', 'member'):
            nm = [x for x in e if isinstance(x, str)]
            if 'stream_channels' in nm:
                return C
            if 'channels' in nm:
                return CC
            if 'nbEBands' in nm:
                return NB
        if k == 'local':
            defs = decide.find_assign(g, e[1])
            defs = [d for d in defs if d[0] is None or sx.key(sx.strip(d[0])) == sx.key(e)]
            if len(defs) == 1:
                return decide.ev3(defs[0][1], {}, res)
        return None
    return res


def check(rep, rule, prog, fname, slots):
    """slots: 'two' - the memories always hold two channel slots (a mono decoder merges slot 1 back into slot 0
    at the next mono frame, so it matters even there); 'CC' - every channel the decoder outputs"""
    g = prog.fn(fname)
    rep.functions.add(g.name)
    cg = cfgm.CFG(g)
    S = energy_arrays(g)
    if len(S) < 4:
        rep.unresolved(rule, '%s:%s: the energy memories (4 arrays laid out 2*nbEBands apart) were not recognised (%s)' % (prog.config, fname, sorted(S.values())))
        return 0
    loops = cg.natural_loops()
    # copies  OPUS_COPY(&p[nbEBands], p, nbEBands)  (slot 0 -> slot 1)
    copies = []
    for b, i, s in cg.positions():
        for c in sx.walk(s):
            if sx.kind(c) == 'call' and sx.callee_name(c) in ('memcpy', 'memmove') and len(c[2]) >= 2:
                d, srcp = sx.strip(c[2][0]), sx.strip(c[2][1])
                if sx.kind(srcp) == 'local' and srcp[2] in S and sx.kind(d) == 'addr' and sx.kind(sx.strip(d[1])) == 'idx' and \
                        sx.key(sx.strip(sx.strip(d[1])[1])) == sx.key(srcp):
                    copies.append((b, srcp[2]))
    n = 0
    for b in sorted(cg.blocks):
        c = cg.cond(b)
        if c is None:
            continue
        cc = sx.strip(c)
        if sx.kind(cc) != 'bin' or cc[1] != '<':
            continue
        lhs = sx.strip(cc[2])
        if sx.kind(lhs) == 'inc':
            inner = [x for x in sx.walk(lhs) if sx.kind(x) == 'local']
            ctr = inner[0] if inner else None
        elif sx.kind(lhs) == 'local':
            ctr = lhs
        else:
            ctr = None
        if ctr is None:
            continue
        mine = [L for L in loops if b in L[2] and any(s not in L[2] for s in cg.succ[b])]
        if not mine:
            continue
        head, latch, body = min(mine, key=lambda L: len(L[2]))
        # writes to the energy memories indexed by this counter
        hit = {}
        for bb in body:
            for s in cg.blocks[bb]['stmts']:
                for x in sx.walk(s):
                    if x[0] in ('assign', 'cassign') and sx.kind(sx.strip(x[1])) == 'idx':
                        lv = sx.strip(x[1])
                        base, idx = sx.strip(lv[1]), sx.strip(lv[2])
                        if sx.kind(base) == 'local' and base[2] in S:
                            if sx.key(idx) == sx.key(ctr):
                                hit.setdefault(base[2], 'flat')
                            elif any(sx.kind(y) == 'bin' and y[1] == '*' and any(sx.key(sx.strip(z)) == sx.key(ctr) for z in (y[2], y[3])) for y in sx.walk(idx)):
                                hit.setdefault(base[2], 'chan')
        if not hit:
            continue
        for aid, shape in sorted(hit.items()):
            n += 1
            bad = []
            for C, CC in ((1, 1), (1, 2), (2, 2)):
                v = decide.ev3(cc[3], {}, _resolver(g, C, CC))
                nslots = 2 if slots == 'two' else CC
                need = nslots * NB if shape == 'flat' else nslots
                if v is None:
                    bad.append(('?', C, CC, None))
                elif v < need:
                    bad.append(('short', C, CC, v))
            exit_blocks = {s for s in cg.succ[b] if s not in body}
            after = set()
            for e in exit_blocks:
                after |= {e} | cg.reachable_from(e)
            comp = any(cb in after and ca == aid for cb, ca in copies)
            inst = '%s:%s line %s: the loop updating %s[] by %s covers every channel slot of the decoder' % (prog.config, fname, (sx.line(c) or cg.blocks[b].get('term', {}).get('l')), S[aid], 'entry' if shape == 'flat' else 'channel')
            where = '%s:%s' % (g.file, sx.line(c) or cg.blocks[b].get('term', {}).get('l'))
            if any(k == '?' for k, *_ in bad):
                rep.unresolved(rule, inst + ': loop bound `%s` could not be evaluated' % sx.show(cc[3]))
            elif bad and not comp:
                k, C, CC, v = bad[0]
                rep.violated(rule, inst, where, 'with stream_channels=%d on a %d-channel decoder the bound `%s` is %s and no later copy of slot 0 into slot 1 follows: a slot keeps stale energies' % (
                    C, CC, sx.show(cc[3]), v), key='%s:%s:%s' % (fname, S[aid], shape))
            else:
                rep.holds(rule, inst, where, 'bound `%s`%s' % (sx.show(cc[3]), '; short for mono but followed by the slot-0 -> slot-1 copy' if bad else ''))
    return n
