"""C18 — SILK side information dequantises to stable, in-range parameters.

R18.1 clamps on every path, decided by interval abstract interpretation of
      the dequantisers (any index values a bitstream can carry):
      a  silk_NLSF_decode stores only values in [0,32767] and every path to its
         return calls the stabiliser afterwards;
      b  silk_NLSF_stabilize returns either with a verified spacing
         (min_diff >= 0) or after the sort-and-clamp fallback, whose four
         passes are present and ordered;
      c  silk_gains_dequant / silk_gains_quant keep *prev_ind in [0,63] and feed
         silk_log2lin an argument <= 3967 for any index bytes and any chain;
      d  silk_decode_pitch: for each (Fs, nb_subfr) the value left in
         pitch_lags[k] lies in [2*Fs, 18*Fs] for any lag/contour index;
      e  silk_NLSF2A: silk_LPC_fit precedes the inverse-gain loop, the loop can
         only be left when the gain is non-zero or the iteration cap is hit,
         and the cap's last chirp is exactly 0 (all-zero, stable filter);
      f  silk_LPC_fit: the coefficients stored on the give-up path pass
         through a saturation to int16; the unsaturated path is entered only
         after the magnitude test succeeded;
      g  silk_decode_parameters: the prediction filters are written only by
         silk_NLSF2A, a copy of the other half, or a contracting bandwidth
         expansion; the interpolation factor is in [0,4]; NLSFs reach NLSF2A
         only from silk_NLSF_decode (or their interpolation).
R18.3 codebook data preconditions (both NLSF codebooks, pitch and LTP
      codebooks): shapes agree with the selecting iCDFs, deltaMin >= 1 with
      sum <= 2^15, weights are non-zero divisors, ec_sel keeps ec_iCDF reads
      inside 72 bytes, step sizes are reciprocal, cosine table monotone with
      129 entries, contour codebook strides equal the constants used by
      silk_decode_pitch for the same (Fs, nb_subfr) and the selected iCDF.
"""
from .. import sx, cfg as cfgm, guards, templates as T, absint, decide
from ..facts import flatten
from ..compdb import AnalysisBroken

EXPLANATION = (
    'Decided: R18.1 every dequantised parameter passes its clamp on every path, by interval analysis over ALL index '
    'values: NLSF stores in [0,32767] followed by the stabiliser on every path; the stabiliser returns only with '
    'verified spacing or after its sort-and-clamp fallback; gain index accumulates inside [0,63] and the log-gain '
    'argument stays <= 3967 for any delta chain; pitch lags end inside [2*Fs,18*Fs] for each of the six (Fs, '
    'sub-frame count) cases; NLSF2A fits to 16 bit before testing the inverse prediction gain, leaves its loop only '
    'with non-zero gain or at the cap whose last chirp is 0; LPC_fit saturates on its give-up path; prediction '
    'filters have no other writer than NLSF2A / copy / contracting bandwidth expansion and the interpolation factor '
    'is in [0,4]. R18.3 codebook data preconditions (shapes vs selecting iCDFs, deltaMin sums, non-zero weights, '
    'ec_sel ranges, reciprocal step sizes, cosine table, contour strides vs silk_decode_pitch and silk_decoder_set_fs). '
    'Equality of the tables with RFC 6716 is C03. '
    'NOT decided: stability / bounded gain of the LPC for every index vector as a numeric fact (only the mechanism that '
    'enforces it), and equality of encoder-side and decoder-side reconstructed values.')

CONFIGS = {'quick': ['float'], 'thorough': ['float', 'fixed']}


def setup(rep, tier):
    rep.minimum('R18.1a', 2)
    rep.minimum('R18.1b', 6)
    rep.minimum('R18.1c', 2)
    rep.minimum('R18.1d', 6)
    rep.minimum('R18.1e', 3)
    rep.minimum('R18.1f', 2)
    rep.minimum('R18.1g', 4)
    rep.minimum('R18.3', 30)
    rep.minimum('R18.5', 1)
    rep.minimum('R18.6', 1)
    rep.minimum('R18.7', 2)
    rep.minimum('R18.8', 1)
    rep.minimum('R18.9', 2)
    rep.minimum('R18.10', 1)
    rep.minimum('R18.11', 2)
    rep.minimum('R18.12', 1)


def within(v, lo, hi):
    return v is not None and v != absint.BOT and absint.lo(v) >= lo and absint.hi(v) <= hi


def _an(prog, f, **kw):
    return absint.Analyzer(prog, f, call_summary=absint.inline_summary(prog), havoc_fields_on_call=False, **kw)


def _stores_through(cf, f, pidx):
    """assignments whose lvalue is rooted at parameter pidx through idx/deref"""
    out = []
    for b, i, n in cf.find(lambda n: n[0] == 'assign'):
        lv = sx.strip_paren(n[1])
        if sx.kind(lv) in ('idx', 'deref'):
            r, path = sx.lvalue_root(lv)
            if sx.kind(r) == 'param' and r[1] == pidx:
                out.append((b, i, n))
    return out


# ------------------------------------------------------------------ a
def r18_1a(rep, prog):
    f = prog.fn('silk_NLSF_decode')
    rep.functions.add(f.name)
    an = _an(prog, f)
    cf = an.cf
    stores = _stores_through(cf, f, 0)
    if not stores:
        rep.unresolved('R18.1a', 'no store through pNLSF_Q15 in silk_NLSF_decode', f.where())
        return
    for b, i, n in stores:
        st = an.state_before_node(b, i, n)
        rhs = n[2]
        op = rhs[4] if sx.kind(rhs) == 'cast' else rhs
        v = an.ev(op, st) if st is not None else None
        where = '%s:%s' % (f.file, sx.line(n))
        inst = '%s:silk_NLSF_decode stores NLSFs inside [0,32767]' % prog.config
        if v is None or absint.is_top(v):
            rep.violated('R18.1a', inst, where, 'value stored by `%s` is unbounded (no clamp before narrowing to 16 bit)' % sx.show(n)[:60], key='nlsf-store')
        elif within(v, 0, 32767):
            rep.holds('R18.1a', inst, where, 'value before the int16 cast is %s' % absint.show(v))
        else:
            rep.violated('R18.1a', inst, where, 'value before the int16 cast is %s, outside [0,32767]' % absint.show(v), key='nlsf-store')
    calls = T.calls_to(cf, 'silk_NLSF_stabilize')
    inst = '%s:silk_NLSF_decode stabilises the vector on every path after the last store' % prog.config
    ok = False
    detail = 'no call to silk_NLSF_stabilize'
    for b, i, c in calls:
        a = c[2]
        good_args = len(a) == 3 and sx.key(sx.strip(a[0])) == ('param', 0) and \
            sx.kind(sx.strip(a[1])) == 'field' and sx.strip(a[1])[3] == 'deltaMin_Q15' and \
            sx.kind(sx.strip(a[2])) == 'field' and sx.strip(a[2])[3] == 'order'
        every = cf.must_pass_live(cf.entry, {cf.exit}, {b})
        after = all(not ((sb == b and si > i) or (sb != b and sb in cf.reachable_from(b))) for sb, si, sn in stores)
        detail = 'args ok=%s, on every path=%s, no store after=%s' % (good_args, every, after)
        ok = good_args and every and after
    (rep.holds if ok else rep.violated)('R18.1a', inst, f.where(), detail, **({} if ok else {'key': 'nlsf-stabilize-call'}))


# ------------------------------------------------------------------ b
def _nd(e, base, idxpred):
    e = sx.strip(e)
    return sx.kind(e) == 'idx' and sx.key(sx.strip(e[1])) == ('param', base) and idxpred(sx.strip(e[2]))


def r18_1b(rep, prog):
    f = prog.fn('silk_NLSF_stabilize')
    rep.functions.add(f.name)
    an = _an(prog, f)
    cf = an.cf
    N, D, L = 0, 1, 2
    # returns: only under min_diff >= 0, or at the end
    rets = T.returns_of(cf)
    early = [(b, i, s) for b, i, s in rets]
    n_ok = 0
    for b, i, s in early:
        facts = T.stable_facts(cf, b, i)
        loc = [l for l in f.locals.values() if l['name'].startswith('min_diff')]
        ok = any(a[0] == '<=' and a[1] == ('int', 0) and isinstance(a[2], tuple) and a[2][0] == 'local' for a in facts)
        where = '%s:%s' % (f.file, sx.line(s))
        inst = '%s:silk_NLSF_stabilize early return only with verified spacing' % prog.config
        if ok:
            n_ok += 1
            rep.holds('R18.1b', inst, where, 'return under %s' % [T.show_atom(a) for a in facts][:3])
        else:
            rep.violated('R18.1b', inst, where, 'return not guarded by min_diff >= 0 (facts: %s)' % [T.show_atom(a) for a in facts][:4], key='stabilize-early-return')
    # the spacing scan covers every pair: with the order bound to 10 / 16 the
    # scan index has run over 1..L-1 when the last element is examined
    for Lval in (10, 16):
        anL = _an(prog, f, entry_state={('param', L): absint.const(Lval)})
        lids = [l['id'] for l in f.locals.values() if l['name'] == 'i']
        hit = None
        for b, i, s_ in anL.cf.positions():
            if sx.kind(s_) == 'assign' and sx.kind(s_[1]) == 'local' and any(_nd(x, D, lambda q: True) for x in sx.walk(s_[2])) \
                    and any(sx.int_val(x) == 32768 for x in sx.walk(s_[2])) and not any(m[0] == 'call' for m in sx.walk(s_[2])):
                st_ = anL.state_at(b, i)
                hit = (b, i, s_, st_)
                break
        inst = '%s:silk_NLSF_stabilize spacing scan covers coefficients 1..L-1 (order %d)' % (prog.config, Lval)
        if hit is None or hit[3] is None or len(lids) != 1:
            rep.unresolved('R18.1b', 'last-element spacing test not found in silk_NLSF_stabilize', f.where())
            break
        iv = hit[3].get(('local', lids[0]))
        where = '%s:%s' % (f.file, sx.line(hit[2]))
        # the last coefficient is measured against the LAST entry of the spacing table (index L: the distance to 1.0)
        for x in sx.walk(hit[2][2]):
            if _nd(x, D, lambda q: True):
                dv = anL.ev(sx.strip(x)[2], hit[3])
                inst2 = '%s:silk_NLSF_stabilize measures the last coefficient against the last spacing entry (order %d)' % (prog.config, Lval)
                if dv and absint.lo(dv) == absint.hi(dv) == Lval:
                    rep.holds('R18.1b', inst2, where, 'index %s = %d' % (sx.show(sx.strip(x)[2]), Lval))
                else:
                    rep.violated('R18.1b', inst2, where, 'the upper guard band is taken from NDeltaMin[%s] = entry %s instead of entry %d: vectors whose top coefficient sits inside the guard band are declared stable' % (
                        sx.show(sx.strip(x)[2]), absint.show(dv) if dv else '?', Lval), key='stabilize-last-entry')
        # first index examined by the loop
        ds, defs = cfgm.defs_at(anL.cf, lids[0], hit[0], hit[1])
        if iv is not None and absint.lo(iv) == absint.hi(iv) == Lval:
            rep.holds('R18.1b', inst, where, 'scan index = %d when the last element is tested' % Lval)
        else:
            rep.violated('R18.1b', inst, where, 'scan index is %s (expected %d) when the last element is tested: the spacing between the top coefficients is never examined, so the early return can fire on an unordered vector' %
                         (absint.show(iv) if iv is not None else 'unknown', Lval), key='stabilize-scan-range')
    # fallback branch: loops == MAX_LOOPS always true at the loop exit
    fb = None
    for b in cf.blocks:
        c = cf.cond(b)
        if c is not None and cf.blocks[b]['term'].get('kind') == 'IfStmt':
            at = guards.atoms(c, True)
            if len(at) == 1 and at[0][0] == '==' and at[0][1][0] == 'local' and at[0][2][0] == 'int' and \
                    any(sx.callee_name(x) == 'silk_insertion_sort_increasing_all_values_int16' for s_, p_ in cf.edges(b) if p_ for st_ in cf.blocks[s_]['stmts'] for x in sx.walk(st_)):
                fb = b
    if fb is None:
        rep.violated('R18.1b', '%s:silk_NLSF_stabilize has a sort-and-clamp fallback' % prog.config, f.where(),
                     'no branch leading to silk_insertion_sort_increasing_all_values_int16 found', key='stabilize-fallback-missing')
        return
    false_edge = [(fb, s) for s, p in cf.edges(fb) if p is False]
    inf = an.infeasible_edges()
    st = an.state_at(fb, len(cf.blocks[fb]['stmts']))
    tv = an.truth(cf.cond(fb), st) if st is not None else None
    inst = '%s:silk_NLSF_stabilize always runs the fallback when the loop gives up' % prog.config
    if (false_edge and false_edge[0] in inf) or tv is True:
        rep.holds('R18.1b', inst, '%s:%s' % (f.file, cf.blocks[fb]['term'].get('l')), 'the skip edge of `%s` is infeasible (loop counter = cap at the exit)' % sx.show(cf.cond(fb)))
    else:
        rep.violated('R18.1b', inst, '%s:%s' % (f.file, cf.blocks[fb]['term'].get('l')),
                     'the loop can be left with `%s` false: the vector is returned unstabilised' % sx.show(cf.cond(fb)), key='stabilize-fallback-skipped')
    # the four passes
    region = T.controlled_region(cf, fb, True)
    stores = []
    for b in region:
        for i, s in enumerate(cf.blocks[b]['stmts']):
            for n in sx.walk(s):
                if n[0] == 'assign' and _nd(n[1], N, lambda ix: True):
                    stores.append((b, i, n))
    lv_idx = lambda n: sx.strip(sx.strip(n[1])[2])

    def call_args(n, name):
        r = sx.strip(n[2])
        if sx.kind(r) == 'call' and sx.callee_name(r) == name and len(r[2]) == 2:
            return r[2]
        m = T_minmax(r)
        if m and ((m[0] == 'max') == name.startswith('silk_max')):
            return [m[1], m[2]]
        return None

    def has(e, pred):
        return any(pred(x) for x in sx.walk(e))

    def is_iplus(ix, k, var=None):
        ix = sx.strip(ix)
        if k == 0:
            return sx.kind(ix) == 'local'
        return sx.kind(ix) == 'bin' and ix[1] == ('+' if k > 0 else '-') and sx.kind(sx.strip(ix[2])) == 'local' and sx.int_val(ix[3]) == abs(k)

    def is_Lminus1(ix):
        ix = sx.strip(ix)
        return sx.kind(ix) == 'bin' and ix[1] == '-' and sx.key(sx.strip(ix[2])) == ('param', L) and sx.int_val(ix[3]) == 1

    found = {}
    for b, i, n in stores:
        ix = lv_idx(n)
        a = call_args(n, 'silk_max_int')
        if a:
            self_ok = any(sx.key(sx.strip(x)) == sx.key(sx.strip(n[1])) for x in a)
            other = [x for x in a if sx.key(sx.strip(x)) != sx.key(sx.strip(n[1]))]
            if self_ok and len(other) == 1:
                o = other[0]
                if sx.int_val(ix) == 0 and _nd(o, D, lambda q: sx.int_val(q) == 0):
                    found['P1 first >= deltaMin[0]'] = (b, i, n)
                elif sx.kind(ix) == 'local' and has(o, lambda x: _nd(x, N, lambda q: is_iplus(q, -1))) and has(o, lambda x: _nd(x, D, lambda q: sx.key(q) == sx.key(ix))) \
                        and has(o, lambda x: sx.kind(x) == 'bin' and x[1] == '+'):
                    found['P2 forward spacing'] = (b, i, n)
        a = call_args(n, 'silk_min_int')
        if a:
            self_ok = any(sx.key(sx.strip(x)) == sx.key(sx.strip(n[1])) for x in a)
            other = [x for x in a if sx.key(sx.strip(x)) != sx.key(sx.strip(n[1]))]
            if self_ok and len(other) == 1:
                o = sx.strip(other[0])
                if is_Lminus1(ix) and sx.kind(o) == 'bin' and o[1] == '-' and sx.int_val(o[2]) == 32768 and _nd(o[3], D, lambda q: sx.key(q) == ('param', L)):
                    found['P3 last <= 1 - deltaMin[L]'] = (b, i, n)
                elif sx.kind(ix) == 'local' and sx.kind(o) == 'bin' and o[1] == '-' and _nd(o[2], N, lambda q: is_iplus(q, 1)) and _nd(o[3], D, lambda q: is_iplus(q, 1)):
                    found['P4 backward spacing'] = (b, i, n)
    order = ['P1 first >= deltaMin[0]', 'P2 forward spacing', 'P3 last <= 1 - deltaMin[L]', 'P4 backward spacing']
    for k in order:
        inst = '%s:stabiliser fallback pass %s' % (prog.config, k)
        if k in found:
            rep.holds('R18.1b', inst, '%s:%s' % (f.file, sx.line(found[k][2])), sx.show(found[k][2])[:90])
        else:
            rep.violated('R18.1b', inst, f.where(), 'pass not found among the fallback stores: %s' % [sx.show(n)[:60] for b, i, n in stores], key='fallback:' + k[:2])
    if all(k in found for k in order):
        pos = [(found[k][0], found[k][1]) for k in order]
        ok = cf.pos_dominates(pos[0], pos[1]) and cf.pos_dominates(pos[0], pos[2]) and cf.pos_dominates(pos[2], pos[3]) \
            and pos[2][0] in cf.reachable_from(pos[1][0]) and pos[1][0] not in cf.reachable_from(pos[2][0]) \
            and any(sx.callee_name(x) == 'silk_insertion_sort_increasing_all_values_int16' for s_ in cf.blocks[pos[0][0]]['stmts'][:pos[0][1]] for x in sx.walk(s_))
        (rep.holds if ok else rep.violated)('R18.1b', '%s:fallback passes run in the order sort, lower bound, forward, upper bound, backward' % prog.config, f.where(),
                                            None if ok else 'order changed', **({} if ok else {'key': 'fallback-order'}))
    extra = [n for b, i, n in stores if all(n is not v[2] for v in found.values())]
    if extra:
        rep.violated('R18.1b', '%s:fallback stores nothing else into the vector' % prog.config, '%s:%s' % (f.file, sx.line(extra[0])),
                     'unrecognised store `%s`' % sx.show(extra[0])[:80], key='fallback-extra')


def T_minmax(e):
    e = sx.strip(e)
    if sx.kind(e) != 'cond':
        return None
    c = sx.strip(e[1])
    if sx.kind(c) != 'bin' or c[1] not in ('<', '>', '<=', '>='):
        return None
    a, b = sx.key(sx.strip(c[2])), sx.key(sx.strip(c[3]))
    x, y = sx.key(sx.strip(e[2])), sx.key(sx.strip(e[3]))
    if (x, y) == (a, b):
        return ('min' if c[1] in ('<', '<=') else 'max', sx.strip(c[2]), sx.strip(c[3]))
    if (x, y) == (b, a):
        return ('max' if c[1] in ('<', '<=') else 'min', sx.strip(c[2]), sx.strip(c[3]))
    return None


# ------------------------------------------------------------------ c
def r18_1c(rep, prog):
    for fname in ('silk_gains_dequant',):
        f = prog.fn(fname)
        rep.functions.add(fname)
        an = _an(prog, f)
        cf = an.cf
        pp = f.param_index('prev_ind')
        nlog = 0
        for b, i, n in cf.find(lambda n: n[0] == 'call' and sx.callee_name(n) == 'silk_log2lin'):
            nlog += 1
            st = an.state_before_node(b, i, n)
            v = an.ev(n[2][0], st) if st is not None else None
            where = '%s:%s' % (f.file, sx.line(n))
            inst = '%s:%s log-gain argument bounded for every index chain' % (prog.config, fname)
            if within(v, 0, 3967):
                rep.holds('R18.1c', inst, where, 'silk_log2lin argument in %s (<= 3967 = 31 in Q7: gain fits 32 bit)' % absint.show(v))
            else:
                rep.violated('R18.1c', inst, where, 'silk_log2lin argument is %s, not within [0,3967]' % (absint.show(v) if v is not None else 'unreachable'), key=fname + ':log2lin')
            pv = st.get(('deref', ('param', pp))) if st is not None else None
            inst = '%s:%s gain index inside the quantiser range when used' % (prog.config, fname)
            if pv is not None and within(pv, 0, 63):
                rep.holds('R18.1c', inst, where, '*prev_ind in %s for any ind[k] in int8 and any previous index' % absint.show(pv))
            else:
                rep.violated('R18.1c', inst, where, '*prev_ind is %s where the gain is computed (expected [0,63])' % (absint.show(pv) if pv is not None else 'unknown'), key=fname + ':prev_ind')
        if not nlog:
            rep.unresolved('R18.1c', '%s: no silk_log2lin call' % fname, f.where())


def _forwardable(cf, b1, b2):
    """the store in b1 reaches the read in b2 unchanged: b1 dominates b2 and
    every block strictly between them is statement-free (the blocks of a ?:)"""
    if b1 == b2:
        return True
    if not cf.dominates(b1, b2):
        return False
    between = (cf.reachable_from(b1, avoid=(b2,)) & {x for x in cf.blocks if b2 in cf.reachable_from(x)}) - {b1, b2}
    return all(not cf.blocks[x]['stmts'] for x in between)


def _subst(e, key, repl):
    if not isinstance(e, list) or not e:
        return e
    if sx.kind(e) in ('idx', 'deref', 'field') and sx.key(e) == key:
        return repl
    return [_subst(x, key, repl) if isinstance(x, list) else x for x in e]


# ------------------------------------------------------------------ d
def r18_1d(rep, prog):
    f = prog.fn('silk_decode_pitch')
    rep.functions.add(f.name)
    pFs, pnb, ppl = f.param_index('Fs_kHz'), f.param_index('nb_subfr'), f.param_index('pitch_lags')
    if None in (pFs, pnb, ppl):
        raise AnalysisBroken('silk_decode_pitch parameters changed')
    for Fs in (8, 12, 16):
        for nb in (2, 4):
            an = _an(prog, f, entry_state={('param', pFs): absint.const(Fs), ('param', pnb): absint.const(nb)})
            cf = an.cf
            stores = _stores_through(cf, f, ppl)
            inst = '%s:silk_decode_pitch Fs=%d kHz, %d sub-frames: lags end inside [%d,%d]' % (prog.config, Fs, nb, 2 * Fs, 18 * Fs)
            if not stores:
                rep.unresolved('R18.1d', 'no store to pitch_lags', f.where())
                return
            good, bad = [], []
            prev = {}
            for b, i, n in sorted(stores, key=lambda t: (-t[0], t[1])):
                st = an.state_before_node(b, i, n)
                if st is None:
                    continue
                lvk = sx.key(sx.strip(n[1]))
                rhs = n[2]
                # store-to-load forwarding inside one basic block: a read of the element just stored sees that value
                if prev.get('key') == lvk and _forwardable(cf, prev['block'], b):
                    st = dict(st)
                    st[('local', -99)] = prev['val']
                    rhs = _subst(rhs, lvk, ['local', '__fwd', -99])
                v = an.ev(rhs, st)
                prev = {'block': b, 'key': lvk, 'val': v}
                (good if within(v, 2 * Fs, 18 * Fs) else bad).append((b, i, n, v))
            # every unclamped store is followed by a clamped store of the same element before the loop continues / function exits
            viol = None
            for b, i, n, v in bad:
                later_same_block = [g for g in good if g[0] == b and g[1] > i and sx.key(sx.strip(g[2][1])) == sx.key(sx.strip(n[1]))]
                through = {g[0] for g in good if sx.key(sx.strip(g[2][1])) == sx.key(sx.strip(n[1])) and g[0] != b}
                back = {p for p in cf.pred[b] if False}
                targets = {cf.exit} | {h for h in cf.blocks if cf.dominates(h, b) and h in cf.reachable_from(b) and h != b and cf.cond(h) is not None and cf.blocks[h]['term'].get('kind') in ('ForStmt', 'WhileStmt', 'DoStmt')}
                if not later_same_block and not (through and cf.must_pass(b, targets, through)):
                    viol = (n, v)
            if viol:
                rep.violated('R18.1d', inst, '%s:%s' % (f.file, sx.line(viol[0])),
                             '`%s` leaves %s in the output and no clamp to [min_lag,max_lag] follows on every path' % (sx.show(viol[0])[:60], absint.show(viol[1])),
                             key='pitch-clamp:%d:%d' % (Fs, nb))
            elif not good:
                rep.violated('R18.1d', inst, f.where(), 'no store of a value inside the legal lag range', key='pitch-clamp:%d:%d' % (Fs, nb))
            else:
                rep.holds('R18.1d', inst, '%s:%s' % (f.file, sx.line(good[-1][2])), 'final store value %s for any lagIndex (int16) and contourIndex (int8)' % absint.show(good[-1][3]))


# ------------------------------------------------------------------ e
def r18_1e(rep, prog):
    f = prog.fn('silk_NLSF2A')
    rep.functions.add(f.name)
    an = _an(prog, f)
    cf = an.cf
    fit = T.calls_to(cf, 'silk_LPC_fit')
    gain = T.calls_to(cf, 'silk_LPC_inverse_pred_gain') or T.calls_to(cf, ('silk_LPC_inverse_pred_gain_c',))
    if not gain:
        # RTCD macro: indirect call through the dispatch table
        gain = [(b, i, n) for b, i, n in cf.find(lambda n: n[0] == 'call' and any(sx.kind(x) == 'global' and 'LPC_INVERSE_PRED_GAIN' in x[1].upper() for x in sx.walk(n[1])))]
    inst = '%s:silk_NLSF2A fits the coefficients to 16 bit before measuring the prediction gain' % prog.config
    if len(fit) != 1 or not gain:
        rep.violated('R18.1e', inst, f.where(), 'silk_LPC_fit calls: %d, inverse prediction gain tests: %d' % (len(fit), len(gain)), key='nlsf2a-fit')
        return
    fb, fi, fn_ = fit[0]
    ok = sx.key(sx.strip(fn_[2][0])) == ('param', 0) and all(cf.pos_dominates((fb, fi), (b, i)) for b, i, n in gain) and cf.must_pass_live(cf.entry, {cf.exit}, {fb})
    (rep.holds if ok else rep.violated)('R18.1e', inst, '%s:%s' % (f.file, sx.line(fn_)), 'silk_LPC_fit(a_Q12, ...) dominates the gain test and lies on every path', **({} if ok else {'key': 'nlsf2a-fit'}))
    # loop: the exit is reached only through the false edge of the gain/cap test
    gb = gain[0][0]
    heads = set()
    b = gb
    # the `a && b` condition spans two blocks: collect blocks whose condition mentions the gain call or the iteration counter
    cap = None
    for blk in cf.blocks:
        c = cf.cond(blk)
        if c is None:
            continue
        if any(n is gain[0][2] for n in sx.walk(c)):
            heads.add(blk)
        at = guards.atoms(c, True)
        if len(at) == 1 and at[0][0] == '<' and at[0][1][0] == 'local' and at[0][2][0] == 'int' and blk in cf.reachable_from(gb):
            heads.add(blk)
            cap = at[0][2][1]
    inst = '%s:silk_NLSF2A returns only after the gain test succeeded or the iteration cap was reached' % prog.config
    ok = bool(heads) and cf.must_pass_live(fb, {cf.exit}, heads) and cap is not None
    gcond = [cf.cond(h) for h in heads if any(n is gain[0][2] for n in sx.walk(cf.cond(h)))]
    at = guards.atoms(gcond[0], True) if gcond else []
    ok = ok and len(at) == 1 and at[0][0] == '==' and at[0][2] == ('int', 0)
    (rep.holds if ok else rep.violated)('R18.1e', inst, '%s:%s' % (f.file, sx.line(gain[0][2])),
                                        'loop continues while gain == 0 and i < %s' % cap if ok else 'loop condition is not `gain == 0 && i < cap` (atoms %s)' % [T.show_atom(a) for a in at],
                                        **({} if ok else {'key': 'nlsf2a-loop'}))
    bw = T.calls_to(cf, 'silk_bwexpander_32')
    inst = '%s:silk_NLSF2A bandwidth expansion reaches chirp 0 at the cap (all-zero, stable filter)' % prog.config
    if len(bw) != 1:
        rep.violated('R18.1e', inst, f.where(), '%d bandwidth-expansion calls in the loop' % len(bw), key='nlsf2a-chirp')
        return
    b, i, n = bw[0]
    st = an.state_before_node(b, i, n)
    v = an.ev(n[2][2], st) if st is not None else None
    ok = v is not None and absint.lo(v) == 0 and absint.hi(v) < 65536
    stores_after = [s for s in _stores_through(cf, f, 0) if s[0] in cf.reachable_from(b) or s[0] == b]
    ok2 = bool(stores_after)
    (rep.holds if ok and ok2 else rep.violated)('R18.1e', inst, '%s:%s' % (f.file, sx.line(n)),
                                                'chirp `%s` ranges over %s; a_Q12 re-derived after each expansion: %s' % (sx.show(n[2][2]), absint.show(v) if v is not None else None, ok2),
                                                **({} if ok and ok2 else {'key': 'nlsf2a-chirp'}))


# ------------------------------------------------------------------ f
def r18_1f(rep, prog):
    f = prog.fn('silk_LPC_fit')
    rep.functions.add(f.name)
    an = _an(prog, f)
    cf = an.cf
    stores = _stores_through(cf, f, 0)
    if len(stores) < 2:
        rep.unresolved('R18.1f', 'silk_LPC_fit: expected two stores into the output', f.where())
        return
    sat, plain = [], []
    for b, i, n in stores:
        st = an.state_before_node(b, i, n)
        rhs = n[2]
        op = rhs[4] if sx.kind(rhs) == 'cast' else rhs
        v = an.ev(op, st) if st is not None else None
        (sat if within(v, -32768, 32767) else plain).append((b, i, n, v))
    inst = '%s:silk_LPC_fit give-up path saturates to 16 bit' % prog.config
    giveup = [s for s in sat if any(a[0] == '==' and a[2][0] == 'int' for a in T.stable_facts(cf, s[0], s[1]))]
    if giveup:
        rep.holds('R18.1f', inst, '%s:%s' % (f.file, sx.line(giveup[0][2])), 'value before the cast in %s under %s' %
                  (absint.show(giveup[0][3]), [T.show_atom(a) for a in T.stable_facts(cf, giveup[0][0], giveup[0][1])][:2]))
    else:
        rep.violated('R18.1f', inst, f.where(), 'no store on the iteration-cap path is proved inside int16 before narrowing: %s' %
                     [(sx.show(n)[:50], absint.show(v) if v else None) for b, i, n, v in sat + plain], key='lpcfit-sat')
    # unsaturated store: reachable only if the loop was left through the break whose guard is maxabs <= int16 max
    inst = '%s:silk_LPC_fit unsaturated path only after the magnitude test succeeded' % prog.config
    for b, i, n, v in plain:
        # break edge: a block with fact  maxabs <= 32767  (i.e. not maxabs > 32767) leading out of the loop
        brk = []
        for blk in cf.blocks:
            fs_ = [a for a, gb in guards.facts_at(cf, blk)]
            if any(a[0] == '<=' and a[2] == ('int', 32767) and a[1][0] == 'local' for a in fs_) and not cf.blocks[blk]['stmts'] and len(cf.succ[blk]) == 1:
                brk.append(blk)
        # the loop-exhausted exit has i == cap, contradicting the facts at the plain store (i != cap)
        facts = T.stable_facts(cf, b, i)
        ne = [a for a in facts if a[0] == '!=' and a[2][0] == 'int']
        head_exit_ok = False
        for h in cf.blocks:
            c = cf.cond(h)
            if c is None or cf.blocks[h]['term'].get('kind') != 'ForStmt':
                continue
            at = guards.atoms(c, True)
            if len(at) == 1 and at[0][0] == '<' and ne and at[0][1] == ne[0][1] and at[0][2] == ne[0][2]:
                # exit of `i < cap` has i >= cap; with i's analysed range the exit value is exactly cap
                for s_, pol in cf.edges(h):
                    if pol is False:
                        est = an.edge_out.get((h, s_))
                        if est is not None:
                            iv = est.get(ne[0][1])
                            if iv is not None and absint.lo(iv) == absint.hi(iv) == ne[0][2][1]:
                                head_exit_ok = True
        ok = bool(brk) and bool(ne) and head_exit_ok
        (rep.holds if ok else rep.violated)('R18.1f', inst, '%s:%s' % (f.file, sx.line(n)),
                                            'reached only with i != cap, the counting exit has i == cap, so the loop was left by the break guarded by maxabs <= 32767' if ok else
                                            'cannot establish that `%s` runs only after maxabs <= 32767 (break blocks %s, facts %s)' % (sx.show(n)[:50], brk, [T.show_atom(a) for a in facts]),
                                            **({} if ok else {'key': 'lpcfit-plain'}))


# ------------------------------------------------------------------ g
def r18_1g(rep, prog, pt=None):
    f = prog.fn('silk_decode_parameters')
    rep.functions.add(f.name)
    cf = cfgm.CFG(f)

    def is_pred(e):
        return any(sx.kind(x) == 'field' and x[3] == 'PredCoef_Q12' and x[2] == 'silk_decoder_control' for x in sx.walk(e))
    # direct stores
    direct = [n for b, i, n in cf.find(lambda n: n[0] in ('assign', 'cassign', 'inc')) if is_pred(sx.strip_paren(n[1] if n[0] == 'assign' else (n[2] if n[0] == 'cassign' else n[3])))]
    bad = ['direct store `%s`' % sx.show(n)[:50] for n in direct]
    nw = 0
    for b, i, c in cf.find(lambda n: n[0] == 'call'):
        name = sx.callee_name(c) or '?'
        for j, a in enumerate(c[2]):
            if not is_pred(a):
                continue
            if name == 'silk_NLSF2A' and j == 0:
                nw += 1
            elif name in ('memcpy', '__builtin_memcpy', '__builtin___memcpy_chk', '__memcpy_chk') and j == 0:
                nw += 1
                if not is_pred(c[2][1]):
                    bad.append('copy into PredCoef_Q12 from `%s`' % sx.show(c[2][1])[:40])
            elif name in ('memcpy', '__builtin_memcpy', '__builtin___memcpy_chk', '__memcpy_chk') and j == 1:
                pass
            elif name == 'silk_bwexpander' and j == 0:
                nw += 1
                ch = sx.int_val(c[2][2])
                if ch is None or not (0 <= ch < 65536):
                    bad.append('bandwidth expansion with chirp `%s` (must be a constant below 1.0 in Q16)' % sx.show(c[2][2]))
            elif name.startswith('silk_') or True:
                if name in ('silk_NLSF2A',):
                    continue
                bad.append('%s(arg %d) receives PredCoef_Q12' % (name, j))
    inst = '%s:decoder prediction filters come only from silk_NLSF2A, a copy of the other half, or a contracting bandwidth expansion' % prog.config
    if bad or nw < 3:
        rep.violated('R18.1g', inst, f.where(), '; '.join(bad) or 'only %d writers found' % nw, key='predcoef-writers')
    else:
        rep.holds('R18.1g', inst, f.where(), '%d writer sites' % nw)
    # other functions writing the decoder control's filters
    others = []
    for g in prog.functions_all:
        if g.name == f.name:
            continue
        for n in g.all_nodes():
            if n[0] in ('assign', 'cassign') and is_pred(sx.strip_paren(n[1] if n[0] == 'assign' else n[2])):
                others.append((g, n))
    inst = '%s:no other function stores into silk_decoder_control.PredCoef_Q12' % prog.config
    if others:
        rep.violated('R18.1g', inst, '%s:%s' % (others[0][0].file, sx.line(others[0][1])), '%s: `%s`' % (others[0][0].name, sx.show(others[0][1])[:60]), key='predcoef-other:' + others[0][0].name)
    else:
        rep.holds('R18.1g', inst, None, None)
    # NLSF2A inputs: local arrays written only by silk_NLSF_decode or by the interpolation
    for b, i, c in T.calls_to(cf, 'silk_NLSF2A'):
        src = sx.strip(c[2][1])
        where = '%s:%s' % (f.file, sx.line(c))
        inst = '%s:silk_NLSF2A input `%s` is a decoded (stabilised) or interpolated NLSF vector' % (prog.config, sx.show(src))
        if sx.kind(src) != 'local':
            rep.unresolved('R18.1g', 'silk_NLSF2A input is not a local array', where)
            continue
        lid = src[2]
        ws = []
        for b2, i2, n in cf.find(lambda n: n[0] == 'call' and any(sx.kind(sx.strip(a)) == 'local' and sx.strip(a)[2] == lid for a in n[2])):
            cn = sx.callee_name(n)
            pos = [j for j, a in enumerate(n[2]) if sx.kind(sx.strip(a)) == 'local' and sx.strip(a)[2] == lid]
            if cn == 'silk_NLSF_decode' and pos == [0]:
                ws.append('silk_NLSF_decode')
            elif cn == 'silk_NLSF2A' and pos == [1]:
                pass
            elif cn in ('memcpy', '__builtin_memcpy', '__builtin___memcpy_chk', '__memcpy_chk') and pos == [1]:
                pass
            else:
                ws.append('!%s' % cn)
        for b2, i2, n in cf.find(lambda n: n[0] == 'assign' and sx.kind(sx.strip_paren(n[1])) == 'idx' and sx.kind(sx.strip(sx.strip_paren(n[1])[1])) == 'local' and sx.strip(sx.strip_paren(n[1])[1])[2] == lid):
            # interpolation: prev + ((factor * (cur - prev)) >> 2)
            r = n[2]
            flds = {x[3] for x in sx.walk(r) if sx.kind(x) == 'field'}
            if {'prevNLSF_Q15', 'NLSFInterpCoef_Q2'} <= flds and any(sx.kind(x) == 'bin' and x[1] == '>>' and sx.int_val(x[3]) == 2 for x in sx.walk(r)):
                ws.append('interpolation')
            else:
                ws.append('!store `%s`' % sx.show(n)[:40])
        badw = [w for w in ws if w.startswith('!')]
        if badw or not ws:
            rep.violated('R18.1g', inst, where, 'writers: %s' % ws, key='nlsf2a-input:%s' % src[1])
        else:
            rep.holds('R18.1g', inst, where, 'writers: %s' % sorted(set(ws)))
    # interpolation factor in [0,4] wherever it is stored in the decoder
    nst = 0
    for g in prog.functions_all:
        if not g.file.startswith('silk/') or 'enc' in g.name.lower() or g.file.startswith(('silk/float', 'silk/fixed')):
            continue
        for n in g.all_nodes():
            if n[0] == 'assign' and sx.kind(sx.strip_paren(n[1])) == 'field' and sx.strip_paren(n[1])[3] == 'NLSFInterpCoef_Q2':
                root = sx.lvalue_root(n[1])[0]
                r = sx.strip(n[2])
                where = '%s:%s' % (g.file, sx.line(n))
                inst = '%s:%s stores an interpolation factor in [0,4]' % (prog.config, g.name)
                iv = sx.int_val(r)
                okv = iv is not None and 0 <= iv <= 4
                if sx.kind(r) == 'call' and sx.callee_name(r) == 'ec_dec_icdf':
                    t = sx.strip(r[2][1])
                    if sx.kind(t) == 'global':
                        vals = [x for x in flatten(prog.table(t[1]))]
                        ns = next((k for k, x in enumerate(vals) if x == 0), len(vals))
                        okv = ns <= 4
                        iv = '[0,%d] from %s' % (ns, t[1])
                if okv:
                    nst += 1
                    rep.holds('R18.1g', inst, where, 'value %s' % iv)
                elif 'psEncC' in sx.show(n) or g.name.startswith('silk_process_NLSFs') or g.name.startswith('silk_find_LPC') or g.name.startswith('silk_encode') or g.name.startswith('silk_control') or g.name.startswith('silk_init_enc') or g.name.startswith('silk_Encode'):
                    continue
                else:
                    rep.violated('R18.1g', inst, where, '`%s` may leave a factor outside [0,4]: the interpolated NLSFs would leave the convex hull of two stabilised vectors' % sx.show(n)[:60], key='interp:%s' % g.name)
    if nst < 2:
        rep.unresolved('R18.1g', 'fewer than two decoder-side stores of NLSFInterpCoef_Q2 found')


# ------------------------------------------------------------------ R18.3 data
def _ints(prog, name):
    v = [x for x in flatten(prog.table(name))]
    if any(not isinstance(x, int) for x in v):
        raise AnalysisBroken('%s is not integer data' % name)
    return v


def nsym(vals, off=0):
    n = 0
    while off + n < len(vals) and vals[off + n] != 0:
        n += 1
    return n + 1


def r18_3(rep, prog):
    def chk(ok, what, where, detail, key):
        inst = '%s:%s' % (prog.config, what)
        if ok:
            rep.holds('R18.3', inst, where, detail)
        else:
            rep.violated('R18.3', inst, where, detail, key=key)
    for cbname in ('silk_NLSF_CB_NB_MB', 'silk_NLSF_CB_WB'):
        g = prog.glob(cbname)
        cb = g.get('init')
        if not isinstance(cb, dict):
            raise AnalysisBroken('%s has no evaluated initialiser' % cbname)
        loc = g['loc']
        nv, order = cb['nVectors'], cb['order']
        T_ = lambda fld: _ints(prog, cb[fld]['addr'])
        cb1, w, icdf, pred, sel, eic, dmin = T_('CB1_NLSF_Q8'), T_('CB1_Wght_Q9'), T_('CB1_iCDF'), T_('pred_Q8'), T_('ec_sel'), T_('ec_iCDF'), T_('deltaMin_Q15')
        chk(order in (10, 16) and nv == 32, '%s order/nVectors' % cbname, loc, 'order %d nVectors %d' % (order, nv), cbname + ':dims')
        chk(len(cb1) == nv * order and len(w) == nv * order, '%s stage-1 codebook and weights have nVectors*order entries' % cbname, loc, '%d, %d' % (len(cb1), len(w)), cbname + ':cb1len')
        chk(len(icdf) == 2 * nv and nsym(icdf, 0) == nv and nsym(icdf, nv) == nv, '%s stage-1 iCDFs have nVectors symbols for both signal classes' % cbname, loc,
            'symbols %d / %d' % (nsym(icdf, 0), nsym(icdf, nv) if len(icdf) > nv else -1), cbname + ':cb1icdf')
        chk(len(pred) == 2 * (order - 1), '%s pred_Q8 has 2*(order-1) entries' % cbname, loc, str(len(pred)), cbname + ':pred')
        chk(len(sel) == nv * order // 2, '%s ec_sel has nVectors*order/2 entries' % cbname, loc, str(len(sel)), cbname + ':sel')
        mx = max(max((e >> 1) & 7, (e >> 5) & 7) for e in sel) * 9
        chk(len(eic) == 72 and mx + 9 <= len(eic) and all(nsym(eic, 9 * k) == 9 for k in range(8)), '%s ec_sel keeps ec_iCDF reads inside the 8x9 table' % cbname, loc,
            'largest ec_ix %d, table %d bytes, 9 symbols per sub-table' % (mx, len(eic)), cbname + ':ecix')
        chk(len(dmin) == order + 1 and all(d >= 1 for d in dmin) and sum(dmin) <= 32768, '%s deltaMin: order+1 entries, each >= 1, sum <= 2^15' % cbname, loc,
            'sum %d (a vector satisfying all spacings exists)' % sum(dmin), cbname + ':dmin')
        chk(all(x > 0 for x in w), '%s CB1_Wght_Q9 entries are positive divisors' % cbname, loc, 'min %d' % min(w), cbname + ':wght')
        chk(all(all(cb1[r * order + k] < cb1[r * order + k + 1] for k in range(order - 1)) for r in range(nv)), '%s stage-1 vectors strictly increasing' % cbname, loc, '%d vectors' % nv, cbname + ':cb1mono')
        q, iq = cb['quantStepSize_Q16'], cb['invQuantStepSize_Q6']
        chk(q > 0 and abs(iq - (1 << 22) / q) < 1, '%s step sizes are reciprocal' % cbname, loc, 'Q16 %d, inverse Q6 %d, exact %.2f' % (q, iq, (1 << 22) / q), cbname + ':step')
        # residual magnitude: |index| <= 10 (NLSF_QUANT_MAX_AMPLITUDE_EXT), res_Q10 bounded -> NLSF_Q15_tmp fits 32 bit
        chk((10 * 1024 * q >> 16) * 4 < (1 << 17), '%s residual after dequantisation fits its 16-bit slot' % cbname, loc,
            'bound %d' % ((10 * 1024 * q >> 16) * 4), cbname + ':resfit')
    cos = _ints(prog, 'silk_LSFCosTab_FIX_Q12')
    chk(len(cos) == 129 and cos[0] == 8192 and cos[-1] == -8192 and all(cos[k] > cos[k + 1] for k in range(128)), 'cosine table: 129 strictly decreasing entries from 2.0 to -2.0 (Q12)',
        prog.glob('silk_LSFCosTab_FIX_Q12')['loc'], '%d entries' % len(cos), 'costab')
    # LTP codebooks
    for k in range(3):
        ic = _ints(prog, 'silk_LTP_gain_iCDF_%d' % k)
        vq = prog.glob('silk_LTP_gain_vq_%d' % k)
        sizes = _ints(prog, 'silk_LTP_vq_sizes')
        chk(vq['dims'] == [nsym(ic), 5] and sizes[k] == nsym(ic), 'LTP codebook %d has one 5-tap row per iCDF symbol' % k, vq['loc'], 'dims %s, symbols %d, vq_sizes %d' % (vq['dims'], nsym(ic), sizes[k]), 'ltp:%d' % k)
    ptrs = [x['addr'] for x in prog.table('silk_LTP_vq_ptrs_Q7')]
    iptrs = [x['addr'] for x in prog.table('silk_LTP_gain_iCDF_ptrs')]
    chk(ptrs == ['silk_LTP_gain_vq_%d' % k for k in range(3)] and iptrs == ['silk_LTP_gain_iCDF_%d' % k for k in range(3)] and nsym(_ints(prog, 'silk_LTP_per_index_iCDF')) == 3,
        'LTP pointer tables pair codebook k with iCDF k for the 3 periodicity indices', prog.glob('silk_LTP_vq_ptrs_Q7')['loc'], '%s / %s' % (ptrs, iptrs), 'ltp-ptrs')
    chk(len(_ints(prog, 'silk_LTPScales_table_Q14')) == nsym(_ints(prog, 'silk_LTPscale_iCDF')), 'LTP scaling table has one entry per iCDF symbol', prog.glob('silk_LTPScales_table_Q14')['loc'], None, 'ltpscale')
    # gain index composition: MSB symbols x LSB symbols = quantiser levels
    gi = _ints(prog, 'silk_gain_iCDF')
    u8 = _ints(prog, 'silk_uniform8_iCDF')
    chk(all(nsym(gi, 8 * r) == 8 for r in range(3)) and nsym(u8) == 8, 'gain index = 8 MSB symbols x 8 LSB symbols = 64 levels', prog.glob('silk_gain_iCDF')['loc'], None, 'gain-levels')
    chk(nsym(_ints(prog, 'silk_delta_gain_iCDF')) == 41, 'delta gain has MAX_DELTA-MIN_DELTA+1 = 41 symbols', prog.glob('silk_delta_gain_iCDF')['loc'], None, 'delta-gain')
    # pitch contour codebooks vs decode_pitch constants vs set_fs selection
    f = prog.fn('silk_decode_pitch')
    g = prog.fn('silk_decoder_set_fs')
    pFs, pnb = f.param_index('Fs_kHz'), f.param_index('nb_subfr')
    gfs = g.param_index('fs_kHz')
    cfp = cfgm.CFG(f)
    for Fs in (8, 12, 16):
        for nb in (2, 4):
            val = {('param', pFs): Fs, ('param', pnb): nb}
            # Lag_CB_ptr and cbk_size stores enabled under val
            cbs, sizes = set(), set()
            for b, i, n in cfp.find(lambda n: n[0] == 'assign' and sx.kind(n[1]) == 'local'):
                if decide.enabled(cfp, b, val) is False:
                    continue
                if n[1][1] == 'Lag_CB_ptr':
                    cbs.add(decide.rhs_object(n[2])[0])
                if n[1][1] == 'cbk_size':
                    sizes.add(sx.int_val(n[2]))
            res, _ = decide.selector_table(g, 'pitch_contour_iCDF', [{('param', gfs): Fs, ('field', ('param', 0), 'nb_subfr'): nb}])
            tabs = res[0][1]
            inst_ok = len(cbs) == 1 and len(sizes) == 1 and None not in cbs and None not in sizes and len(tabs) == 1 and tabs[0] in prog.globals
            if not inst_ok:
                rep.unresolved('R18.3', 'contour selection for Fs=%d nb_subfr=%d not resolved: codebooks %s sizes %s iCDF %s' % (Fs, nb, cbs, sizes, tabs))
                continue
            cbn, size, ic = list(cbs)[0], list(sizes)[0], _ints(prog, tabs[0])
            dims = prog.glob(cbn)['dims']
            ok = dims[1] == size and dims[0] >= nb and nsym(ic) == size
            chk(ok, 'pitch contour Fs=%d kHz %d sub-frames: codebook stride = cbk_size = iCDF symbols, rows >= sub-frames' % (Fs, nb), prog.glob(cbn)['loc'],
                '%s%s, cbk_size %d, %s has %d symbols' % (cbn, dims, size, tabs[0], nsym(ic)), 'contour:%d:%d' % (Fs, nb))
            vals = _ints(prog, cbn)
            # lag + contour cannot overflow before the clamp: |contour| small
            chk(max(abs(x) for x in vals) <= 64, 'contour offsets of %s are small (no overflow before the clamp)' % cbn, prog.glob(cbn)['loc'], 'max |offset| %d' % max(abs(x) for x in vals), 'contour-mag:' + cbn)


# ------------------------------------------------------------------ R18.6
def r18_6(rep, prog):
    """bounded prediction gain: the inverse-gain routine hands back its running inverse gain only when the last
    update of it was followed by the `below 1/MAX_PREDICTION_POWER_GAIN -> return 0` test: at every return of
    that local a lower bound  LIMIT <= invGain  with LIMIT > 0 holds and has not been invalidated since."""
    n = 0
    for f in prog.functions_all:
        if not f.file.endswith('LPC_inv_pred_gain.c'):
            continue
        cf = cfgm.CFG(f)
        rets = [(b, i, s_) for b, i, s_ in T.returns_of(cf) if len(s_) > 1 and sx.kind(sx.strip(s_[1])) == 'local']
        if not rets:
            continue
        rep.functions.add(f.name)
        for b, i, s_ in rets:
            loc = sx.strip(s_[1])
            # only running values: the local is re-assigned from itself somewhere
            if not any(x[0] == 'assign' and sx.key(sx.strip(x[1])) == sx.key(loc) and any(sx.key(y) == sx.key(loc) for y in sx.walk(x[2])) for x in f.all_nodes()):
                continue
            n += 1
            facts = T.stable_facts(cf, b, i)
            lows = [a for a in facts if a[0] in ('<=', '<') and isinstance(a[1], tuple) and a[1][0] == 'int' and a[1][1] > 0 and a[2] == sx.key(loc)]
            inst = '%s:%s returns `%s` only after the bounded-gain test' % (prog.config, f.name, loc[1])
            where = '%s:%s' % (f.file, sx.line(s_))
            if lows:
                rep.holds('R18.6', inst, where, 'lower bound %s holds at the return' % T.show_atom(lows[0]))
            else:
                rep.violated('R18.6', inst, where, 'no test `%s < limit -> return 0` separates the last update of `%s` from this return: filters with a prediction gain above the limit are reported stable (facts here: %s)' % (
                    loc[1], loc[1], [T.show_atom(a) for a in facts][:3]), key=f.name + ':gain-limit')
    return n


# ------------------------------------------------------------------ R18.7 / R18.8 / R18.9
def r18_7(rep, prog):
    """bandwidth expansion chirps EVERY coefficient: the siblings silk_bwexpander / silk_bwexpander_32 scale
    ar[0 .. d-2] in a loop and ar[d-1] in a tail statement; each must store both index forms (the loop index
    and the last element), otherwise the highest-order coefficient is never expanded and the stabilising loop of
    NLSF2A cannot pull a pole on the unit circle back inside."""
    n = 0
    for fname in ('silk_bwexpander', 'silk_bwexpander_32'):
        if not prog.has_fn(fname):
            continue
        f = prog.fn(fname)
        rep.functions.add(fname)
        pa = f.param_index('ar')
        pd = f.param_index('d')
        forms = set()
        for x in f.all_nodes():
            if x[0] == 'assign' and sx.kind(sx.strip_paren(x[1])) == 'idx' and sx.key(sx.strip(sx.strip_paren(x[1])[1])) == ('param', pa):
                ix = sx.strip(sx.strip_paren(x[1])[2])
                if sx.kind(ix) == 'local':
                    forms.add('loop')
                elif sx.kind(ix) == 'bin' and ix[1] == '-' and sx.key(sx.strip(ix[2])) == ('param', pd) and sx.int_val(ix[3]) == 1:
                    forms.add('last')
                else:
                    forms.add(sx.show(ix))
        n += 1
        inst = '%s:%s scales every coefficient, the last one included' % (prog.config, fname)
        if {'loop', 'last'} <= forms:
            rep.holds('R18.7', inst, f.where(), 'stores at the loop index and at d-1')
        else:
            rep.violated('R18.7', inst, f.where(), 'stores only at %s: ar[d-1] is never bandwidth-expanded' % sorted(forms), key=fname + ':tail')
    return n


def r18_8(rep, prog):
    """the sort-and-clamp fallback of the stabiliser keeps its 16-bit cells inside the 16-bit range: in every store
    NLSF[i] = max(NLSF[i], X) the candidate X is bounded by the int16 range before narrowing (a saturating add).  A plain
    sum of two 16-bit values wraps when the lower neighbours were clamped at 32767."""
    f = prog.fn('silk_NLSF_stabilize')
    rep.functions.add(f.name)
    an = _an(prog, f)
    cf = an.cf
    n = 0
    for b, i, x in cf.find(lambda x: x[0] == 'assign' and sx.kind(sx.strip_paren(x[1])) == 'idx' and sx.key(sx.strip(sx.strip_paren(x[1])[1])) == ('param', 0)):
        rhs = sx.strip_paren(x[2])
        while sx.kind(rhs) == 'cast':
            rhs = sx.strip_paren(rhs[4])
        if not (sx.kind(rhs) == 'call' and sx.callee_name(rhs) in ('silk_max_int', 'silk_max_16', 'silk_max_32')):
            mm = None
            if sx.kind(rhs) == 'cond':
                c = sx.strip(rhs[1])
                mm = sx.kind(c) == 'bin' and c[1] in ('>', '>=')
            if not mm:
                continue
        st = an.state_before_node(b, i, x)
        if st is None:
            continue
        args = rhs[2] if sx.kind(rhs) == 'call' else [rhs[2], rhs[3]]
        for a in args:
            if any(sx.kind(y) == 'bin' and y[1] == '+' for y in sx.walk(a)):
                n += 1
                a0 = sx.strip_paren(a)
                while sx.kind(a0) == 'cast':
                    a0 = sx.strip_paren(a0[4])
                v = an.ev(a0, st)
                inst = '%s:silk_NLSF_stabilize keeps the fallback\'s forward pass inside the 16-bit range' % prog.config
                where = '%s:%s' % (f.file, sx.line(x))
                if v is not None and absint.lo(v) >= -32768 and absint.hi(v) <= 32767:
                    rep.holds('R18.8', inst, where, 'candidate in %s' % absint.show(v))
                else:
                    rep.violated('R18.8', inst, where, 'the candidate `%s` can be %s before it is stored into a 16-bit cell: it wraps negative when the lower neighbours sit at 32767, and the output is unordered' % (
                        sx.show(a0)[:60], absint.show(v) if v is not None else 'unbounded'), key='stabilize-forward-wrap')
    return n


def r18_9(rep, prog):
    """encoder and decoder keep the running gain index inside the table after a double-step update: in both quantiser and
    dequantiser every `*prev_ind += (x << 1) - threshold` is followed, before the index is turned into a gain, by an
    upper clamp of *prev_ind.  Without it the encoder carries 64 where the decoder carries 63."""
    n = 0
    bounds = {}
    for fname in ('silk_gains_quant', 'silk_gains_dequant'):
        if not prog.has_fn(fname):
            continue
        f = prog.fn(fname)
        rep.functions.add(fname)
        cf = cfgm.CFG(f)
        pp = f.param_index('prev_ind')
        def is_prev(e):
            e = sx.strip_paren(e)
            return sx.kind(e) == 'deref' and sx.key(sx.strip(e[1])) == ('param', pp)
        dbl = [(b, i, x) for b, i, x in cf.find(lambda x: x[0] == 'cassign' and x[1].startswith('+') and is_prev(x[2]) and any(sx.kind(y) == 'bin' and y[1] == '<<' for y in sx.walk(x[3])))]
        clamps = set()
        for b, i, x in cf.find(lambda x: x[0] == 'assign' and is_prev(x[1])):
            if any(sx.kind(y) == 'cond' for y in sx.walk(x[2])) or (sx.kind(sx.strip(x[2])) == 'call' and 'min' in (sx.callee_name(sx.strip(x[2])) or '')):
                clamps.add(b)
        uses = {b for b, i, x in cf.find(lambda x: x[0] == 'call' and sx.callee_name(x) == 'silk_log2lin')}
        # the upper bound each side clamps the running index to (largest integer constant of its clamp expressions)
        ub = [max([sx.int_val(y) for y in sx.walk(x[2]) if sx.int_val(y) is not None] or [None]) for b, i, x in cf.find(lambda x: x[0] == 'assign' and is_prev(x[1]))
              if any(sx.kind(y) == 'cond' for y in sx.walk(x[2])) or (sx.kind(sx.strip(x[2])) == 'call' and any(t in (sx.callee_name(sx.strip(x[2])) or '') for t in ('min', 'LIMIT', 'limit')))]
        ub = [u for u in ub if u is not None]
        if ub:
            bounds[fname] = (max(ub), '%s:%s' % (f.file, f.line))
        for b, i, x in dbl:
            n += 1
            inst = '%s:%s clamps the running gain index after a double-step update' % (prog.config, fname)
            where = '%s:%s' % (f.file, sx.line(x))
            ok = bool(clamps) and bool(uses) and (b in clamps or cf.must_pass_live(b, uses, clamps))
            if ok:
                rep.holds('R18.9', inst, where, 'an upper clamp lies between the update and the gain look-up')
            else:
                rep.violated('R18.9', inst, where, 'no clamp of *prev_ind lies on every path from `%s` to the gain look-up: the index can leave the table (64) on this side only' % sx.show(x)[:60], key=fname + ':double-step-clamp')
    if len(bounds) == 2:
        n += 1
        (qa, qw), (da, dw) = bounds['silk_gains_quant'], bounds['silk_gains_dequant']
        inst = '%s:quantiser and dequantiser clamp the running gain index to the same top level' % prog.config
        if qa == da:
            rep.holds('R18.9', inst, qw, 'both %d' % qa)
        else:
            rep.violated('R18.9', inst, qw, 'the quantiser lets the index reach %d, the dequantiser %d: after a large upward jump the encoder carries an index the decoder does not, and every later delta-coded gain differs' % (qa, da),
                         key='gain-index-top-level')
    return n


# ------------------------------------------------------------------ R18.10
def _addr_field_arg(call, k):
    """field name F when argument k of the call is `&x->F` / `&x.F`"""
    if k >= len(call[2]):
        return None
    a = sx.strip(call[2][k])
    if sx.kind(a) == 'addr' and sx.kind(sx.strip(a[1])) == 'field':
        return sx.strip(a[1])[3]
    return None


def r18_10(rep, prog):
    """"quantising on the encoder side and dequantising gives the values the decoder will reconstruct" for the gains of
    the redundant (LBRR) frames: the decoder that plays an LBRR frame has not seen the regular frame it replaces, so the
    previous-index its dequantiser starts from is the index at the START of that frame.  The regular quantiser advances a
    running index (passed by address to silk_gains_quant) and takes a snapshot of it first; the LBRR re-quantisation, which
    runs after the regular quantiser in the frame encoder, must start from the snapshot, not from the running index."""
    n = 0
    qname, dname = 'silk_gains_quant', 'silk_gains_dequant'
    if not (prog.has_fn(qname) and prog.has_fn(dname)):
        return 0
    kq = prog.fn(qname).param_index('prev_ind')
    kd = prog.fn(dname).param_index('prev_ind')
    if kq is None or kd is None:
        rep.unresolved('R18.10', '%s: prev_ind parameter not found' % prog.config)
        return 0
    # the regular quantiser's running index and its snapshot(s)
    running, snaps, advancers = set(), set(), set()
    for g in prog.functions_all:
        if not g.file.startswith('silk/'):
            continue
        cf = None
        for c in g.calls():
            if sx.callee_name(c) == qname:
                fld = _addr_field_arg(c, kq)
                if fld is None:
                    continue
                running.add(fld)
                advancers.add(g.name)
                cf = cf or cfgm.CFG(g)
                pos = [(b, i) for b, i, s_ in cf.positions() if any(x is c for x in sx.walk(s_))]
                for b2, i2, x in cf.find(lambda x: x[0] == 'assign' and sx.kind(sx.strip(x[2])) == 'field' and sx.strip(x[2])[3] == fld and sx.kind(sx.strip_paren(x[1])) == 'field'):
                    if pos and (cf.dominates(b2, pos[0][0]) and (b2 != pos[0][0] or i2 < pos[0][1])):
                        snaps.add(sx.strip_paren(x[1])[3])
    if not running or not snaps:
        rep.unresolved('R18.10', '%s: running gain index / snapshot not identified (%s / %s)' % (prog.config, sorted(running), sorted(snaps)))
        return 0
    for f in prog.functions_all:
        if not f.file.startswith('silk/') or 'LBRR' not in f.name:
            continue
        lbrr_idx = {_addr_field_arg(c, kd) for c in f.calls() if sx.callee_name(c) == dname} - {None} - running
        if not lbrr_idx:
            continue
        # does the regular quantiser run before this function in the frame encoder?
        after = False
        for e in prog.functions_all:
            names = [sx.callee_name(c) for c in e.calls()]
            if f.name in names and any(a in names for a in advancers):
                ce = cfgm.CFG(e)
                pa = [b for b, i, s_ in ce.positions() for x in sx.walk(s_) if sx.kind(x) == 'call' and sx.callee_name(x) in advancers]
                pl = [b for b, i, s_ in ce.positions() for x in sx.walk(s_) if sx.kind(x) == 'call' and sx.callee_name(x) == f.name]
                if pa and pl and all(any(ce.dominates(a, l) for a in pa) for l in pl):
                    after = True
        for x in f.all_nodes():
            if x[0] == 'assign' and sx.kind(sx.strip_paren(x[1])) == 'field' and sx.strip_paren(x[1])[3] in lbrr_idx:
                n += 1
                rep.functions.add(f.name)
                reads = {y[3] for y in sx.walk(x[2]) if sx.kind(y) == 'field'}
                inst = '%s:%s starts the LBRR gain re-quantisation from the index the decoder will hold (`%s`)' % (prog.config, f.name, sx.show(x)[:60])
                where = '%s:%s' % (f.file, sx.line(x))
                if reads & running and after:
                    rep.violated('R18.10', inst, where, 'the previous-index is taken from the running index `%s` after the regular quantiser (%s) has advanced it to the END of this frame; the decoder that plays the LBRR frame starts from the index at the START of the frame (snapshot `%s`): when the gain rises by more than 16 steps inside the frame the two dequantise the same indices to different gains' % (
                        sorted(reads & running)[0], sorted(advancers)[0], sorted(snaps)[0]), key='%s:lbrr-prev-index' % re_norm(f.name))
                elif reads & snaps or not after:
                    rep.holds('R18.10', inst, where, 'reads the snapshot %s' % sorted(reads & snaps) if reads & snaps else 'the regular quantiser has not run yet')
                else:
                    rep.unresolved('R18.10', inst + ': source of the previous index not recognised', where)
    return n


def re_norm(name):
    import re
    return re.sub(r'_(FLP|FIX)$', '', name)


# ------------------------------------------------------------------ R18.11
def r18_11(rep, prog):
    """step-down recursion of the inverse prediction gain: every reflection coefficient is formed by shifting an AR
    coefficient left by 31-QA bits, which only means what it should while the coefficient is within +-A_LIMIT.  So each
    such formation is preceded, in the same loop iteration (or, for the last one, after the loop), by the limit test that
    returns 0 - a test inside the loop does not cover the coefficient read after it."""
    n = 0
    for f in prog.functions_all:
        if not f.file.startswith('silk/') or 'inverse_pred_gain' not in f.name or f.file.startswith('silk/x86') or f.file.startswith('silk/arm'):
            continue
        arr = [k for k, q in enumerate(f.params) if '*' in q.get('type', '') and 'int32' in q.get('type', '')]
        if not arr:
            continue
        pk = ('param', arr[0])
        cf = cfgm.CFG(f)
        loops = cf.natural_loops()

        def inner(b):
            best = None
            for h, latch, body in loops:
                if b in body and (best is None or len(body) < len(best[1])):
                    best = (h, body)
            return best[0] if best else None
        # limit guards: conditions comparing an element of the array with a constant, whose failing edge returns 0
        gblocks = []
        for b in cf.blocks:
            c = cf.cond(b)
            if c is None:
                continue
            if any(sx.kind(y) == 'bin' and y[1] in ('>', '<', '>=', '<=') and sx.kind(sx.strip(y[2])) == 'idx' and sx.key(sx.strip(sx.strip(y[2])[1])) == pk and sx.int_val(sx.strip(y[3])) is not None for y in sx.walk(c)):
                gblocks.append(b)
        for b, i, x in cf.find(lambda x: x[0] == 'assign' and sx.kind(sx.strip(x[1])) == 'local' and
                               any(sx.kind(y) == 'bin' and y[1] == '<<' and any(sx.kind(z) == 'idx' and sx.key(sx.strip(z[1])) == pk for z in sx.walk(y[2])) for y in sx.walk(x[2]))):
            n += 1
            rep.functions.add(f.name)
            inst = '%s:%s tests the coefficient against the limit before forming the reflection coefficient (line %s)' % (prog.config, f.name, sx.line(x))
            where = '%s:%s' % (f.file, sx.line(x))
            ok = any(cf.dominates(g, b) and g != b and inner(g) == inner(b) for g in gblocks)
            if ok:
                rep.holds('R18.11', inst, where, 'a limit test of the same iteration / after the loop dominates it')
            else:
                rep.violated('R18.11', inst, where, 'no limit test of an array element at the same loop level dominates `%s`: a coefficient of magnitude 1 or more wraps in the shift and an unstable filter is reported with a positive inverse gain' % sx.show(x)[:60],
                             key='%s:rc-limit:%s' % (f.name, 'loop' if inner(b) is not None else 'tail'))
    return n


# ------------------------------------------------------------------ R18.12
def r18_12(rep, prog):
    """the decoder's first-frame flag is dropped only once a frame's parameters have been decoded.  While
    `first_frame_after_reset` is set, `silk_decode_parameters` does not interpolate with the previous NLSF vector and the
    pitch lag is not coded relative to the previous one - that history does not exist yet.  The function that establishes
    the history is found by what it does (it stores `prevNLSF_Q15`); every path from the entry of a decoder function to a
    store of 0 into the flag must pass through a call to it (must-pass-through on the CFG).  A clear that is also reached
    on the concealment path lets the next real frame interpolate with, and predict from, parameters that were never decoded."""
    hist = set()
    for f in prog.functions_all:
        if not f.file.startswith('silk/') or 'enc' in f.file.split('/')[-1].lower():
            continue
        for x in f.all_nodes():
            tgt = None
            if x[0] == 'assign':
                tgt = x[1]
            elif x[0] == 'call' and sx.callee_name(x) in ('memcpy', 'memmove') and x[2]:
                tgt = x[2][0]
            if tgt is not None and any(sx.kind(y) == 'field' and y[3] == 'prevNLSF_Q15' for y in sx.walk(tgt)):
                hist.add(f.name)
    n = 0
    for f in prog.functions_all:
        if not f.file.startswith('silk/') or f.name in hist or 'enc' in f.file.split('/')[-1].lower() or '/float/' in f.file or '/fixed/' in f.file:
            continue        # the encoder keeps a flag of the same name in its own state
        cf = None
        for bid, st in f.stmts():
            if sx.kind(st) == 'assign' and sx.kind(sx.strip(st[1])) == 'field' and sx.strip(st[1])[3] == 'first_frame_after_reset' and sx.int_val(sx.strip(st[2])) == 0:
                root = sx.strip(st[1])[1]
                cf = cf or cfgm.CFG(f)
                through = set(b for b, i, c in cf.find(lambda y: y[0] == 'call' and sx.callee_name(y) in hist))
                n += 1
                inst = '%s:%s clears first_frame_after_reset only after a frame\'s parameters were decoded' % (prog.config, f.name)
                where = '%s:%s' % (f.file, sx.line(st))
                rep.functions.add(f.name)
                if not hist:
                    rep.unresolved('R18.12', inst + ': no function storing prevNLSF_Q15 found')
                elif through and (bid in through or cf.must_pass(cf.entry, {bid}, through)):
                    rep.holds('R18.12', inst, where, 'every path to the store passes a call to %s' % ', '.join(sorted(hist)))
                else:
                    rep.violated('R18.12', inst, where, 'some path reaches this store without a call to %s (the function that stores prevNLSF_Q15): after a reset followed by a lost frame the flag is already down, and the first decoded frame interpolates its NLSFs with, and predicts its lag from, history that was never decoded' % ', '.join(sorted(hist)),
                                 key='%s:first-frame-flag' % f.name)
    return n


def check(rep, prog, tier):
    r18_12(rep, prog)
    r18_11(rep, prog)
    r18_10(rep, prog)
    r18_7(rep, prog)
    r18_8(rep, prog)
    r18_9(rep, prog)
    r18_6(rep, prog)
    from . import stalehoist
    n5 = stalehoist.check(rep, 'R18.5', prog, lambda f: f.file.startswith('silk/') and '/x86/' not in f.file and any(t in f.file for t in ('gain_quant', 'decode_', 'NLSF_', 'dec_API', 'stereo_decode', 'NLSF2A', 'LPC_fit', 'bwexpander')), 'SILK dequantisers')
    if n5 < 6:
        rep.unresolved('R18.5', 'only %d loops examined' % n5)
    r18_1a(rep, prog)
    r18_1b(rep, prog)
    r18_1c(rep, prog)
    r18_1d(rep, prog)
    r18_1e(rep, prog)
    r18_1f(rep, prog)
    r18_1g(rep, prog)
    r18_3(rep, prog)
