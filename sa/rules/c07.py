"""C07 — repacketizer, pad, unpad.

R07.1 commit after validate: in opus_repacketizer_cat_impl no failure return is
      reachable after the first change of rp->nb_frames; earlier stores into
      *rp touch only (toc, framesize) under nb_frames==0 or slots >= nb_frames.
      The frame arrays are indexed below their 48 entries.
R07.2 every output store of opus_repacketizer_out_range_impl is dominated by a
      maxlen budget check whose failing edge returns OPUS_BUFFER_TOO_SMALL, and
      every growth of tot_size is re-checked before the next store; the range
      guard dominates every read of len[]/frames[].
R07.3 pad/unpad wrappers: length guards, copy-before-cat (in-place safety).
R07.4 errors of the repacketizer / parser / extension callees are not dropped.
"""
from .. import sx, cfg as cfgm, guards, templates as T, absint, decide
from ..guards import I
from ..compdb import AnalysisBroken

EXPLANATION = (
    'Decided: R07.1 a rejected opus_repacketizer_cat leaves the observable contents unchanged (no failure return after '
    'the frame count changes; earlier stores hit only uncommitted slots or (toc, framesize) of an empty repacketizer) and '
    'the 120 ms check bounds the slot index below 48; R07.2 every byte store / encode_size / OPUS_MOVE / extension '
    'generation into the output of opus_repacketizer_out_range_impl is dominated by a tot_size-vs-maxlen check that '
    'returns OPUS_BUFFER_TOO_SMALL and each growth of tot_size is re-checked before the next store (one frozen, '
    'reasoned exception), the begin/end guard dominates all frame reads; R07.3 pad/unpad length guards and the '
    'copy-then-cat order; R07.4 no error of the repacketizer/parser/extension callees is dropped. '
    'NOT decided: byte-for-byte preservation of frames, canonical/idempotent unpad, sufficiency of 1277*n bytes.')

CONFIGS = {'quick': ['float'], 'thorough': ['float', 'fixed']}


def setup(rep, tier):
    rep.minimum('R07.1', 6)
    rep.minimum('R07.2', 20)
    rep.minimum('R07.3', 6)
    rep.minimum('R07.4', 12)
    rep.minimum('R07.5', 2)
    rep.minimum('R07.6', 2)
    rep.minimum('R07.7', 2)
    rep.minimum('R07.8', 2)
    rep.minimum('R07.9', 1)
    rep.minimum('R07.10', 1)
    rep.minimum('R07.11', 1)


def rooted_at_param(f, lv, pidx):
    r, path = sx.lvalue_root(lv)
    return sx.kind(r) == 'param' and r[1] == pidx and bool(path)


def r07_1(rep, prog):
    f = prog.fn('opus_repacketizer_cat_impl')
    rep.functions.add(f.name)
    cf = cfgm.CFG(f)
    rp = f.param_index('rp')
    # commit points: stores to rp->nb_frames
    commits = T.stores_where(cf, lambda lv, n: sx.kind(lv) == 'field' and lv[3] == 'nb_frames' and rooted_at_param(f, lv, rp))
    if not commits:
        rep.unresolved('R07.1', 'no store to rp->nb_frames in opus_repacketizer_cat_impl')
        return
    rets = T.returns_of(cf)
    fail = [(b, i, r) for b, i, r in rets if T.const_ret(r) != 0]
    for b, i, n in commits:
        after = cf.reachable_from(b) | {b}
        bad = [(rb, r) for rb, ri, r in fail if rb in after and not (rb == b and ri < i)]
        inst = '%s:cat_impl commit `%s`' % (prog.config, sx.show(n))
        where = '%s:%s' % (f.file, sx.line(n))
        if bad:
            rep.violated('R07.1', inst, where, 'failure return `%s` (line %s) reachable after the frame count changed' % (sx.show(bad[0][1]), sx.line(bad[0][1])), key='commit-then-fail')
        else:
            rep.holds('R07.1', inst, where, 'only `return OPUS_OK` is reachable afterwards')
    # earlier stores into *rp that can be followed by a failure return
    first_commit_blocks = {b for b, i, n in commits}
    for b, i, n in T.stores_where(cf, lambda lv, n: rooted_at_param(f, lv, rp)):
        lv = sx.strip_paren(n[1] if n[0] == 'assign' else (n[2] if n[0] == 'cassign' else n[3]))
        if sx.kind(lv) == 'field' and lv[3] == 'nb_frames':
            continue
        after = cf.reachable_from(b) | {b}
        can_fail = any(rb in after for rb, ri, r in fail)
        inst = '%s:cat_impl pre-commit store `%s`' % (prog.config, sx.show(n)[:50])
        where = '%s:%s' % (f.file, sx.line(n))
        if not can_fail:
            rep.holds('R07.1', inst, where, 'no failure return reachable afterwards')
            continue
        known = T.stable_facts(cf, b, i)
        empty = any(a[0] == '==' and a[2] == I(0) and a[1][0] == 'field' and a[1][2] == 'nb_frames' for a in known)
        slot = sx.kind(lv) == 'idx' and sx.kind(sx.strip(lv[2])) == 'field' and sx.strip(lv[2])[3] == 'nb_frames'
        if (sx.kind(lv) == 'field' and lv[3] in ('toc', 'framesize') and empty) or slot:
            rep.holds('R07.1', inst, where, 'unobservable on rejection: %s' % ('repacketizer is empty (nb_frames==0)' if empty else 'slot index is nb_frames (not yet committed)'))
        else:
            rep.violated('R07.1', inst, where, 'a later failure return leaves this store behind (known: %s)' % [T.show_atom(a) for a in known][:4], key='precommit:' + sx.show(lv))
    # slot bound: (curr_nb_frames + rp->nb_frames)*rp->framesize > 960 -> INVALID, framesize >= 20 at 8 kHz
    parse = T.calls_to(cf, 'opus_packet_parse_impl')
    an = absint.Analyzer(prog, f, field_summary={('OpusRepacketizer', 'framesize'): absint.from_values([20, 40, 80, 160, 320, 480])},
                         call_summary=lambda a, e, st: absint.mk(-4, 48) if sx.callee_name(e) == 'opus_packet_get_nb_frames' else None)
    for b, i, n in parse:
        st = an.state_before_node(b, i, n)
        # the check is on the sum; accept the structural form: known fact (curr+nb)*framesize <= 960
        known = T.stable_facts(cf, b, i)
        ok = any(a[0] == '<=' and a[2] == I(960) and a[1][0] == 'bin' and a[1][1] == '*' for a in known)
        inst = '%s:cat_impl 120 ms check bounds the slot index' % prog.config
        where = '%s:%s' % (f.file, sx.line(n))
        if ok:
            rep.holds('R07.1', inst, where, '(curr_nb_frames+nb_frames)*framesize <= 960 with framesize >= 20 (2.5 ms at 8 kHz) => at most 48 slots')
        else:
            rep.violated('R07.1', inst, where, 'parse into rp->frames[nb_frames..] is not dominated by the 120 ms (960 samples at 8 kHz) check', key='slot-bound')
    # framesize is computed at 8000 Hz by the helper (the 960 constant depends on it)
    fs = [n for n in f.calls() if sx.callee_name(n) == 'opus_packet_get_samples_per_frame']
    ok = len(fs) == 1 and sx.int_val(fs[0][2][1]) == 8000
    (rep.holds if ok else rep.violated)('R07.1', '%s:cat_impl framesize measured at 8 kHz' % prog.config, f.where(),
                                        'opus_packet_get_samples_per_frame(data, %s)' % [sx.show(c[2][1]) for c in fs], **({} if ok else {'key': 'framesize-rate'}))
    dims = {fl['name']: fl['dims'] for fl in prog.record('OpusRepacketizer')['fields']}
    ok = dims.get('frames') == [48] and dims.get('len') == [48]
    (rep.holds if ok else rep.violated)('R07.1', '%s:OpusRepacketizer arrays hold 48 frames' % prog.config, None, str({k: dims[k] for k in ('frames', 'len') if k in dims}), **({} if ok else {'key': 'dims'}))


FROZEN_GROWTH = {
    'tot_size += pad_amount': 'anticipated by the immediately dominating check tot_size + ext_len + nb_255s + 1 <= maxlen (pad_amount = ext_len + length bytes, or exactly maxlen - tot_size when padding)',
}


def r07_2(rep, prog):
    f = prog.fn('opus_repacketizer_out_range_impl')
    rep.functions.add(f.name)
    cf = cfgm.CFG(f)
    pdata = f.param_index('data')
    pmax = f.param_index('maxlen')
    ptr_ids = set()
    for n in f.all_nodes():
        if n[0] == 'assign' and sx.kind(n[1]) == 'local' and sx.kind(sx.strip(n[2])) == 'param' and sx.strip(n[2])[1] == pdata:
            ptr_ids.add(n[1][2])

    def is_out(e):
        r, path = sx.lvalue_root(e)
        return (sx.kind(r) == 'param' and r[1] == pdata) or (sx.kind(r) == 'local' and r[2] in ptr_ids)
    sinks = []
    for b, i, n in cf.find(lambda n: n[0] in ('assign', 'cassign', 'inc', 'call')):
        if n[0] == 'call':
            cn = sx.callee_name(n)
            if cn in ('encode_size',) and is_out(n[2][1]):
                sinks.append((b, i, n, 'encode_size'))
            elif cn in ('memmove', '__builtin_memmove', '__memmove_chk', 'memcpy', '__builtin___memmove_chk') and is_out(n[2][0]):
                sinks.append((b, i, n, 'OPUS_MOVE'))
            elif cn == 'opus_packet_extensions_generate' and sx.int_val(n[2][0]) != 0 and is_out(n[2][0]):
                sinks.append((b, i, n, 'extensions_generate'))
            continue
        lv = sx.strip_paren(n[1] if n[0] == 'assign' else (n[2] if n[0] == 'cassign' else n[3]))
        if sx.kind(lv) in ('deref', 'idx') and is_out(lv):
            sinks.append((b, i, n, 'store'))
    if len(sinks) < 12:
        rep.unresolved('R07.2', 'only %d output sinks found in out_range_impl' % len(sinks))
    # budget guards: branch on an expression containing tot_size vs maxlen, failing edge returns -2
    tot = [l['id'] for l in f.locals.values() if l['name'] == 'tot_size']
    if len(tot) != 1:
        raise AnalysisBroken('local tot_size not found')
    tot = tot[0]

    def budget_guards(b):
        out = []
        for cond, pol, gb in cfgm.guards_of(cf, b):
            for a in guards.atoms(cond, pol):
                if a[0] in ('<=', '<') and a[2] == ('param', pmax) and _has_local(a[1], tot):
                    act = T.failing_edge_action(cf, gb, pol)
                    if act == ('return', -2):
                        out.append(gb)
        return out
    # budget guards: blocks branching on (expr containing tot_size) vs maxlen whose failing edge returns -2;
    # their passing edges are the only way to an output store
    pass_edges = set()
    all_guards = set()
    for b in cf.blocks:
        c = cf.cond(b)
        if c is None:
            continue
        for pol in (True, False):
            for a in guards.atoms(c, pol):
                if a[0] in ('<=', '<') and a[2] == ('param', pmax) and _has_local(a[1], tot):
                    if T.failing_edge_action(cf, b, pol) == ('return', -2):
                        all_guards.add(b)
                        for s_, p_ in cf.edges(b):
                            if p_ == pol:
                                pass_edges.add((b, s_))
    if len(all_guards) < 5:
        rep.unresolved('R07.2', 'only %d maxlen budget checks found in out_range_impl' % len(all_guards))
    # Typestate product: q=1 "budget checked since the last growth of tot_size", q=0 otherwise.
    # Passing a budget check sets q=1; leaving a block that grows tot_size resets q=0.  The abstract
    # interpreter runs on the product CFG, so value facts stay correlated with q (count>=1 from
    # begin<end; count not in {1,2} => count>2) and infeasible combinations are pruned.
    growth_blocks = {}
    frozen_ok = []
    for b, i, n in T.stores_where(cf, lambda lv, n: sx.kind(lv) == 'local' and lv[2] == tot):
        if n[0] == 'assign' and sx.int_val(n[2]) is not None:
            continue
        if sx.show(n) in FROZEN_GROWTH:
            frozen_ok.append((b, i, n))
            continue
        growth_blocks.setdefault(b, []).append((i, n))

    def transition(b, s_, q):
        if (b, s_) in pass_edges:
            return 1
        if b in growth_blocks:
            return 0
        return q
    an, feasible = absint.product_analysis(prog, f, 2, transition, 0)
    sink_blocks = {b for b, i, n, k in sinks}
    for b, i, n, kind_ in sinks:
        inst = '%s:out_range_impl %s `%s`' % (prog.config, kind_, sx.show(n)[:46])
        where = '%s:%s' % (f.file, sx.line(n))
        same_block_growth = [g for g in growth_blocks.get(b, []) if g[0] < i]
        if same_block_growth:
            rep.violated('R07.2', inst, where, 'tot_size grows (`%s`) in the same block before this store without a new maxlen check' % sx.show(same_block_growth[0][1]), key='sink:%s:%s' % (kind_, sx.show(n)[:40]))
        elif not feasible(b, 0):
            rep.holds('R07.2', inst, where, 'every feasible path passes a tot_size-vs-maxlen check returning OPUS_BUFFER_TOO_SMALL after the last growth of tot_size (%d checks, typestate product)' % len(all_guards))
        else:
            rep.violated('R07.2', inst, where, 'reachable with tot_size grown but not re-checked against maxlen (no OPUS_BUFFER_TOO_SMALL check on some feasible path)', key='sink:%s:%s' % (kind_, sx.show(n)[:40]))
    for b, i, n in frozen_ok:
        inst = '%s:out_range_impl growth `%s` (frozen exception)' % (prog.config, sx.show(n))
        where = '%s:%s' % (f.file, sx.line(n))
        # the anticipating check must dominate it: a budget guard on an expression with tot_size and pad/ext terms
        doms = [g for g in all_guards if cf.dominates(g, b) and any((g, s_) in pass_edges and cf.edge_dominates(g, s_, b) for s_ in cf.succ[g])]
        near = [g for g in doms if not any(cf.dominates(g, g2) and g2 != g for g2 in doms)]
        if near:
            rep.holds('R07.2', inst, where, FROZEN_GROWTH[sx.show(n)])
        else:
            rep.violated('R07.2', inst, where, 'the anticipating maxlen check no longer dominates this update', key='growth:' + sx.show(n))
    # range guard dominates reads of rp->len / rp->frames
    rp = f.param_index('rp')
    first = None
    for b, i, n in cf.find(lambda n: n[0] == 'field' and n[3] in ('len', 'frames', 'paddings', 'padding_len', 'padding_nb_frames')):
        r, _ = sx.lvalue_root(n)
        if sx.kind(r) == 'param' and r[1] == rp:
            first = (b, i, n) if first is None or cf.dominates(b, first[0]) else first
    if first is None:
        rep.unresolved('R07.2', 'no read of rp->len / rp->frames found')
    else:
        beg, end = ('param', f.param_index('begin')), ('param', f.param_index('end'))
        nbf = None
        known = T.stable_facts(cf, first[0], first[1])
        T.t_guard(rep, 'R07.2', f, cf, [first], [('begin>=0', ('<=', I(0), beg)), ('begin<end', ('<', beg, end)),
                                                 ('end<=nb_frames', [a for a in known if a[0] == '<=' and a[1] == end and a[2][0] == 'field' and a[2][2] == 'nb_frames'] or [('<=', end, ('field', ('param', rp), 'nb_frames'))])],
                  'first read of rp->len/frames')
    # zero fill bounded by data+maxlen
    fills = [(b, i, n) for b, i, n, k in sinks if k == 'store' and n[0] == 'assign' and sx.int_val(n[2]) == 0]
    for b, i, n in fills:
        known = T.stable_facts(cf, b, i)
        ok = any(a[0] == '<' and a[1][0] == 'local' and a[2][0] == 'bin' and a[2][1] == '+' for a in known)
        (rep.holds if ok else rep.violated)('R07.2', '%s:out_range_impl zero fill bounded by data+maxlen' % prog.config, '%s:%s' % (f.file, sx.line(n)),
                                            'loop condition %s' % [T.show_atom(a) for a in known if a[0] == '<'][:2], **({} if ok else {'key': 'zerofill'}))


def _has_local(key, lid):
    if not isinstance(key, tuple):
        return False
    if key[:2] == ('local', lid):
        return True
    return any(_has_local(k, lid) for k in key if isinstance(k, tuple))


def r07_3(rep, prog):
    f = prog.fn('opus_packet_pad_impl')
    rep.functions.add(f.name)
    cf = cfgm.CFG(f)
    ln, nl = ('param', f.param_index('len')), ('param', f.param_index('new_len'))
    sinks = T.calls_to(cf, ('opus_repacketizer_cat', 'opus_repacketizer_out_range_impl'))
    T.t_guard(rep, 'R07.3', f, cf, sinks[:1], [('len>=1', ('<=', I(1), ln)), ('len<=new_len', [('<=', ln, nl), ('<', ln, nl)])], 'repacketizer use')
    # copy-then-cat: cat reads the copy, and the copy of data dominates it
    cats = T.calls_to(cf, 'opus_repacketizer_cat')
    copies = [c for c in cf.find(lambda n: n[0] == 'call' and sx.callee_name(n) in ('memcpy', '__builtin_memcpy', '__memcpy_chk', '__builtin___memcpy_chk'))]
    ok = False
    detail = 'no copy found'
    for b, i, n in cats:
        src = sx.strip(n[2][1])
        for cb, ci, c in copies:
            if sx.key(sx.strip(c[2][0])) == sx.key(src) and sx.kind(sx.strip(c[2][1])) == 'param' and sx.strip(c[2][1])[1] == f.param_index('data') \
                    and cf.pos_dominates((cb, ci), (b, i)):
                ok = True
                detail = 'cat(%s) after copy of data into %s' % (sx.show(src), sx.show(src))
        if sx.kind(src) == 'param':
            detail = 'cat reads the caller buffer that out_range_impl overwrites'
    (rep.holds if ok else rep.violated)('R07.3', '%s:pad_impl copies the packet before re-emitting it in place' % prog.config, f.where(), detail, **({} if ok else {'key': 'copy-then-cat'}))
    # output budget is new_len
    outs = T.calls_to(cf, 'opus_repacketizer_out_range_impl')
    ok = len(outs) == 1 and sx.key(sx.strip(outs[0][2][2][4])) == nl and sx.key(sx.strip(outs[0][2][2][3])) == ('param', f.param_index('data'))
    (rep.holds if ok else rep.violated)('R07.3', '%s:pad_impl emits into data with maxlen=new_len' % prog.config, f.where(), None if ok else 'unexpected arguments', **({} if ok else {'key': 'pad-maxlen'}))
    f = prog.fn('opus_packet_unpad')
    rep.functions.add(f.name)
    cf = cfgm.CFG(f)
    ln = ('param', f.param_index('len'))
    sinks = T.calls_to(cf, ('opus_repacketizer_cat',))
    T.t_guard(rep, 'R07.3', f, cf, sinks[:1], [('len>=1', ('<=', I(1), ln))], 'repacketizer use')
    outs = T.calls_to(cf, 'opus_repacketizer_out_range_impl')
    ok = len(outs) == 1 and sx.key(sx.strip(outs[0][2][2][4])) == ln and sx.int_val(outs[0][2][2][6]) == 0
    (rep.holds if ok else rep.violated)('R07.3', '%s:unpad emits with maxlen=len and pad=0' % prog.config, f.where(), None if ok else 'unexpected arguments', **({} if ok else {'key': 'unpad-args'}))
    for fname in ('opus_multistream_packet_pad', 'opus_multistream_packet_unpad'):
        f = prog.fn(fname)
        rep.functions.add(fname)
        cf = cfgm.CFG(f)
        ln = ('param', f.param_index('len'))
        sinks = T.calls_to(cf, ('opus_packet_parse_impl',))
        if sinks:
            T.t_guard(rep, 'R07.3', f, cf, sinks[:1], [('len>=1', ('<=', I(1), ln))], 'first parse')
        # the input cursor advances by the parsed size of the sub-packet: `data += X; len -= X`
        # with X the packet_offset out-parameter of a dominating opus_packet_parse_impl(data, len, ...)
        pd = f.param_index('data')
        adv = [(b, i, n) for b, i, n in cf.find(lambda n: n[0] == 'cassign' and n[1] == '+' and sx.key(sx.strip(n[2])) == ('param', pd))]
        dec = [(b, i, n) for b, i, n in cf.find(lambda n: n[0] == 'cassign' and n[1] == '-' and sx.key(sx.strip(n[2])) == ln)]
        inst = '%s:%s advances the input by the parsed sub-packet size' % (prog.config, fname)
        if len(adv) != 1 or len(dec) != 1:
            rep.unresolved('R07.3', '%s: expected one `data += ..` and one `len -= ..` (found %d, %d)' % (fname, len(adv), len(dec)), f.where())
            continue
        ab, ai, an = adv[0]
        step = sx.strip(an[3])
        where = '%s:%s' % (f.file, sx.line(an))
        okp = False
        why = 'step `%s` is not the packet_offset written by opus_packet_parse_impl' % sx.show(step)
        if sx.kind(step) == 'local' and sx.key(sx.strip(dec[0][2][3])) == sx.key(step):
            for b, i, c in sinks:
                args = c[2]
                outp = [j for j, a in enumerate(args) if sx.kind(sx.strip(a)) == 'addr' and sx.key(sx.strip(sx.strip(a)[1])) == sx.key(step)]
                if outp == [7] and sx.key(sx.strip(args[0])) == ('param', pd) and sx.key(sx.strip(args[1])) == ln and cf.pos_dominates((b, i), (ab, ai)):
                    okp = True
                    why = 'packet_offset of the dominating parse of (data, len)'
        elif sx.kind(step) == 'local':
            why = '`data += %s` but `len -= %s`' % (sx.show(step), sx.show(dec[0][2][3]))
        (rep.holds if okp else rep.violated)('R07.3', inst, where, why, **({} if okp else {'key': '%s:advance' % fname}))


ERR_CALLEES = {'opus_repacketizer_cat', 'opus_repacketizer_cat_impl', 'opus_repacketizer_out_range_impl', 'opus_packet_parse_impl',
               'opus_packet_extensions_parse', 'opus_packet_extensions_generate', 'opus_packet_pad_impl', 'opus_packet_pad',
               'opus_packet_unpad', 'opus_repacketizer_out_range', 'opus_repacketizer_out', 'opus_packet_get_nb_frames'}
ERR_FUNCS = ['opus_repacketizer_cat_impl', 'opus_repacketizer_out_range_impl', 'opus_packet_pad_impl', 'opus_packet_pad', 'opus_packet_unpad',
             'opus_multistream_packet_pad', 'opus_multistream_packet_unpad', 'opus_repacketizer_cat', 'opus_repacketizer_out', 'opus_repacketizer_out_range']
ERR_EXCEPTIONS = {
    ('opus_packet_unpad', 'opus_repacketizer_out_range_impl', '*'): 'output budget equals the input length and padding was removed, so it cannot fail; asserted (celt_assert ret>0 && ret<=len) and returned',
}


def r07_4(rep, prog):
    n = 0
    for fname in ERR_FUNCS:
        f = prog.fn(fname)
        rep.functions.add(fname)
        n += T.t_err(rep, 'R07.4', prog, f, ERR_CALLEES, ERR_EXCEPTIONS, prog.config + ':')
    if n < 12:
        rep.unresolved('R07.4', 'only %d error-returning call sites found' % n)


PAD_DOMAIN = 70000      # > 254*255 = 64770: one full period of both divisors


def r07_5(rep, prog):
    """padding arithmetic of opus_repacketizer_out_range_impl, over the whole
    value range of the extension length (value-set analysis partitioned per
    value; the expressions are taken from the source): the padding amount
    chosen for ext_len bytes of extensions leaves a non-negative 0x01 filler
    region that ends exactly where the extensions begin, and the length bytes
    written (nb_255s times 255, then the remainder) describe exactly
    pad_amount bytes with a final byte below 255."""
    f = prog.fn('opus_repacketizer_out_range_impl')
    rep.functions.add(f.name)
    is_l = lambda name: (lambda x: sx.kind(x) == 'local' and x[1] == name)
    is_p = lambda name: (lambda x: sx.kind(x) == 'param' and x[2] == name)
    pa = decide.find_assign(f, 'pad_amount', lambda e: decide.mentions(e, is_l('ext_len')) and not decide.mentions(e, is_p('maxlen')))
    nb = decide.find_assign(f, 'nb_255s')
    ob = decide.find_assign(f, 'ones_begin', lambda e: sx.int_val(e) is None)
    oe = decide.find_assign(f, 'ones_end', lambda e: sx.int_val(e) is None)
    eb = decide.find_assign(f, 'ext_begin', lambda e: sx.int_val(e) is None)
    last = [n for n in f.all_nodes() if n[0] == 'assign' and sx.kind(sx.strip_paren(n[1])) == 'deref'
            and decide.mentions(n[2], is_l('pad_amount')) and decide.mentions(n[2], is_l('nb_255s'))]
    if not (len(pa) == len(nb) == len(ob) == len(oe) == len(eb) == len(last) == 1):
        rep.unresolved('R07.5', 'padding expressions not found (pad_amount %d nb_255s %d ones_begin %d ones_end %d ext_begin %d last byte %d)' %
                       (len(pa), len(nb), len(ob), len(oe), len(eb), len(last)), f.where())
        return
    K = lambda name: next(sx.key(lv) for lv, e in (pa + nb + ob + oe + eb) if lv[1] == name)
    kext = next((sx.key(x) for x in sx.walk(pa[0][1]) if is_l('ext_len')(x)), None)
    ktot = next((sx.key(x) for x in sx.walk(ob[0][1]) if is_l('tot_size')(x)), None)
    if kext is None or ktot is None:
        rep.unresolved('R07.5', 'ext_len / tot_size not found in the padding expressions', f.where())
        return
    where = '%s:%s' % (f.file, sx.line(pa[0][1]) or f.line)

    def layout(P, ext, tot):
        v = {K('pad_amount'): P, kext: ext, ktot: tot}
        n255 = decide.ev3(nb[0][1], v)
        if n255 is None:
            return None
        v[K('nb_255s')] = n255
        b, e, x, l = (decide.ev3(t, v) for t in (ob[0][1], oe[0][1], eb[0][1], last[0][2]))
        if None in (b, e, x, l):
            return None
        return n255, b, e, x, l

    bad = None
    for ext in range(0, PAD_DOMAIN):
        P = decide.ev3(pa[0][1], {kext: ext})
        r = layout(P, ext, 9) if P is not None else None
        if r is None:
            rep.unresolved('R07.5', 'cannot evaluate the padding expressions for ext_len=%d' % ext, where)
            return
        n255, b, e, x, l = r
        if not (P >= 1 and e - b >= 0 and x == e and 0 <= l <= 254 and 255 * n255 + 1 + l == P and P - (n255 + 1) >= ext):
            bad = (ext, P, n255, b - 9, e - 9, x - 9, l)
            break
    inst = '%s:padding chosen for the extensions leaves a well-formed filler region (no-pad case)' % prog.config
    if bad:
        rep.violated('R07.5', inst, where, 'ext_len=%d: pad_amount `%s` = %d, nb_255s=%d, 0x01 filler [%d,%d) , extensions at %d, last length byte %d - the extensions overlap the length bytes / frame data' %
                     ((bad[0], sx.show(pa[0][1])) + bad[1:]), key='pad-amount')
    else:
        rep.holds('R07.5', inst, where, 'ext_len in [0,%d): filler length >= 0, ext_begin = ones_end, last length byte in [0,254], 255*nb+1+last = pad_amount' % PAD_DOMAIN, n=PAD_DOMAIN)
    bad = None
    for P in range(1, PAD_DOMAIN):
        r = layout(P, 0, 9)
        if r is None:
            rep.unresolved('R07.5', 'cannot evaluate the padding length bytes for pad_amount=%d' % P, where)
            return
        n255, b, e, x, l = r
        if not (0 <= l <= 254 and 255 * n255 + 1 + l == P):
            bad = (P, n255, l)
            break
    inst = '%s:padding length bytes describe exactly pad_amount bytes (pad case)' % prog.config
    if bad:
        rep.violated('R07.5', inst, '%s:%s' % (f.file, sx.line(last[0])), 'pad_amount=%d: nb_255s=%d, last byte %d' % bad, key='pad-length-bytes')
    else:
        rep.holds('R07.5', inst, '%s:%s' % (f.file, sx.line(last[0])), 'pad_amount in [1,%d)' % PAD_DOMAIN, n=PAD_DOMAIN)


def r07_6(rep, prog):
    """range-relative indexing: inside out_range_impl the frame table of the
    repacketizer is addressed only through the begin-shifted views
    (len = rp->len+begin, frames = rp->frames+begin); a direct rp->len[..] /
    rp->frames[..] would index from frame 0 instead of `begin`"""
    f = prog.fn('opus_repacketizer_out_range_impl')
    cf = cfgm.CFG(f)
    pb = f.param_index('begin')
    nviews = 0
    # (rp->paddings / padding_len are not per-frame tables: the extension region of a packet is stored with that packet's
    #  first frame, which may lie before `begin`; the selection of extensions by frame range is decided by C16's R16.6)
    for fld in ('len', 'frames'):
        uses = [(b, i, n) for b, i, n in cf.find(lambda n: sx.kind(n) == 'field' and n[2] == 'OpusRepacketizer' and n[3] == fld)]
        if not uses:
            continue
        # statements that use the field: must be `local = rp->fld + begin` or an index rp->fld[begin+..]/[i] with i ranging from begin
        for b, i, n in uses:
            stmt = cf.f.block_exprs(cf.blocks[b])[i]
            where = '%s:%s' % (f.file, sx.line(stmt) if isinstance(stmt, list) else f.line)
            inst = '%s:out_range_impl uses rp->%s relative to begin (`%s`)' % (prog.config, fld, sx.show(stmt)[:50])
            ok = False
            for m in sx.walk(stmt):
                if m[0] in ('assign',) and sx.kind(m[1]) == 'local':
                    r = sx.strip(m[2])
                    if sx.kind(r) == 'bin' and r[1] == '+' and sx.A(r).get('ptr') and \
                            {sx.key(sx.strip(r[2])), sx.key(sx.strip(r[3]))} == {sx.key(n), ('param', pb)}:
                        ok = True
                if m[0] == 'idx' and sx.key(sx.strip(m[1])) == sx.key(n):
                    ix = sx.strip(m[2])
                    if any(sx.key(x) == ('param', pb) for x in sx.walk(ix)):
                        ok = True
                    elif sx.kind(ix) == 'local':
                        # loop variable whose (latest dominating) initialisation is `begin`
                        defs = [(b2, i2, a) for b2, i2, a in cf.find(lambda a: a[0] == 'assign' and sx.key(a[1]) == sx.key(ix))
                                if cf.pos_dominates((b2, i2), (b, i)) and (b2, i2) != (b, i)]
                        last = [d for d in defs if all(cf.pos_dominates((o[0], o[1]), (d[0], d[1])) for o in defs)]
                        if last and sx.key(sx.strip(last[0][2][2])) == ('param', pb):
                            ok = True
            if ok:
                nviews += 1
                rep.holds('R07.6', inst, where, 'offset by begin')
            else:
                rep.violated('R07.6', inst, where, 'rp->%s is indexed from frame 0, not from `begin`: for begin>0 the decision is taken on frames outside the requested range' % fld,
                             key='abs-index:%s' % fld)
    if nviews < 2:
        rep.unresolved('R07.6', 'begin-shifted views of rp->len / rp->frames not found')


def r07_78(rep, prog):
    """R07.7 both places of out_range_impl that account for the self-delimiting size prefix use the
    size of the LAST frame of the range (len[count-1]); R07.8 opus_packet_unpad and
    opus_multistream_packet_unpad return a length only after the packet went through the repacketizer
    (parse + validate + canonical re-emission): no success return bypasses it."""
    f = prog.fn('opus_repacketizer_out_range_impl')
    cf = cfgm.CFG(f)
    psd = f.param_index('self_delimited')
    sites = []
    for b, i, n in cf.find(lambda n: n[0] in ('assign', 'cassign') and sx.kind(sx.strip_paren(n[1] if n[0] == 'assign' else n[2])) == 'local'
                           and sx.strip_paren(n[1] if n[0] == 'assign' else n[2])[1] == 'tot_size'):
        rhs = n[2] if n[0] == 'assign' else n[3]
        cmps = [m for m in sx.walk(rhs) if m[0] == 'bin' and m[1] in ('>=', '<=', '<', '>') and (sx.int_val(m[2]) in (252, 251) or sx.int_val(m[3]) in (252, 251))]
        facts = T.stable_facts(cf, b, i)
        if cmps and any(a == ('!=', ('param', psd), ('int', 0)) for a in facts):
            sites.append((b, i, n, cmps[0]))
    for b, i, n, c in sites:
        other = sx.strip(c[2]) if sx.int_val(c[3]) is not None else sx.strip(c[3])
        ok = sx.kind(other) == 'idx' and sx.kind(sx.strip(other[2])) == 'bin' and sx.strip(other[2])[1] == '-' and sx.int_val(sx.strip(other[2])[3]) == 1 and \
            sx.kind(sx.strip(sx.strip(other[2])[2])) == 'local' and sx.strip(sx.strip(other[2])[2])[1] == 'count'
        where = '%s:%s' % (f.file, sx.line(n))
        inst = '%s:out_range_impl counts the self-delimiting prefix from the size of the last frame (`%s`)' % (prog.config, sx.show(n)[:50])
        (rep.holds if ok else rep.violated)('R07.7', inst, where, 'size tested: `%s`' % sx.show(other), **({} if ok else {'key': 'selfdelim-size:%s' % sx.show(other)}))
    # sibling agreement: every plain (re)initialisation of the running size that can execute under self-delimited
    # framing accounts for the two-byte form of the length prefix, as its siblings do
    dropped = 0
    for b, i, n in cf.find(lambda n: n[0] == 'assign' and sx.kind(sx.strip_paren(n[1])) == 'local' and sx.strip_paren(n[1])[1] == 'tot_size'):
        if any(x[0] == b and x[1] == i for x in sites):
            continue
        facts = T.stable_facts(cf, b, i)
        if any(a == ('==', ('param', psd), ('int', 0)) for a in facts):
            continue
        if any(m[0] == 'bin' and m[1] in ('>=', '<=', '<', '>') and (sx.int_val(m[2]) in (252, 251) or sx.int_val(m[3]) in (252, 251)) for m in sx.walk(n[2])):
            continue
        if sites:
            dropped += 1
            rep.violated('R07.7', '%s:out_range_impl every (re)initialisation of the running size under self-delimited framing counts the length prefix like its siblings (`%s`)' % (prog.config, sx.show(n)[:50]),
                         '%s:%s' % (f.file, sx.line(n)),
                         'this initialisation can run with self_delimited != 0 but never adds the second prefix byte for a last frame of 252 bytes or more, while the initialisation at line %s does: the two passes disagree on the packet size, and the size returned to the multistream encoder is one byte short' % sx.line(sites[0][2]),
                         key='selfdelim-init:%s' % sx.show(n)[:40])
    if len(sites) + dropped < 2:
        rep.unresolved('R07.7', 'expected two accountings of the self-delimiting size prefix, found %d' % len(sites))
    for fname, gate in (('opus_packet_unpad', 'opus_repacketizer_cat'), ('opus_multistream_packet_unpad', 'opus_repacketizer_cat_impl')):
        g = prog.fn(fname)
        cg = cfgm.CFG(g)
        gates = {b for b, i, c in T.calls_to(cg, (gate,))}
        bad = []
        nret = 0
        for b, i, s_ in T.returns_of(cg):
            v = T.const_ret(s_)
            if v is not None and v < 0:
                continue
            facts = T.stable_facts(cg, b, i)
            e = sx.strip(s_[1]) if s_[1] is not None else None
            # propagated error codes
            if e is not None and sx.kind(e) == 'local' and any(a[0] == '<' and a[1] == sx.key(e) and a[2] == ('int', 0) for a in facts):
                continue
            nret += 1
            if e is not None and sx.kind(e) == 'local' and any(cg.blocks[x].get('term', {}).get('kind') in ('ForStmt', 'WhileStmt') for x in cg.blocks):
                # accumulated over a loop (one sub-packet per stream): every contribution to the
                # returned length must come after the gate of its iteration
                contrib = [(b2, i2) for b2, i2, m in cg.find(lambda m: m[0] in ('assign', 'cassign') and sx.key(sx.strip_paren(m[1] if m[0] == 'assign' else m[2])) == sx.key(e)
                                                          and sx.int_val(m[2] if m[0] == 'assign' else m[3]) is None)]
                if not contrib or not all(any(cg.dominates(gb, b2) for gb in gates) for b2, i2 in contrib):
                    bad.append(sx.line(s_))
            elif not cg.must_pass_live(cg.entry, {b}, gates):
                bad.append(sx.line(s_))
        inst = '%s:%s reports a length only for packets that went through %s' % (prog.config, fname, gate)
        if bad:
            rep.violated('R07.8', inst, '%s:%s' % (g.file, bad[0]), 'the return at line %s can be reached without parsing / re-emitting the packet: invalid or non-canonical input is reported as successfully unpadded' % bad[0], key=fname + ':bypass')
        elif nret and gates:
            rep.holds('R07.8', inst, g.where(), '%d success return(s)' % nret)
        else:
            rep.unresolved('R07.8', '%s: no success return / no %s call found' % (fname, gate))


# ------------------------------------------------------------------ R07.9
def r07_9(rep, prog):
    """what cat() accepted can be emitted: out_range_impl fails only for reasons the caller controls - an illegal
    range (OPUS_BAD_ARG) or too small a buffer (OPUS_BUFFER_TOO_SMALL, its own or the extension generator's).  It
    has no return of OPUS_INTERNAL_ERROR or OPUS_INVALID_PACKET: the stored frames were validated by cat(), and
    the stored padding may hold any bytes (RFC 6716 3.2.5), so a padding that does not parse as extensions is padding,
    not an error."""
    f = prog.fn('opus_repacketizer_out_range_impl')
    cf = cfgm.CFG(f)
    rep.functions.add(f.name)
    bad = []
    n = 0
    for b, i, s_ in T.returns_of(cf):
        n += 1
        v = sx.int_val(sx.strip(s_[1])) if len(s_) > 1 else None
        if v in (-3, -4):
            g = [sx.show(c) for c, pol, gb in cfgm.guards_of(cf, b) if c is not None][:2]
            bad.append((sx.line(s_), v, g))
    inst = '%s:opus_repacketizer_out_range_impl fails only for an illegal range or a too small buffer' % prog.config
    if bad:
        rep.violated('R07.9', inst, '%s:%s' % (f.file, bad[0][0]), 'returns %s at line %s under %s: the contents of a packet that cat() accepted make out / out_range / pad fail' % (
            'OPUS_INTERNAL_ERROR' if bad[0][1] == -3 else 'OPUS_INVALID_PACKET', bad[0][0], bad[0][2]), key='out-range-content-error')
    elif n < 5:
        rep.unresolved('R07.9', inst + ': only %d returns found' % n)
    else:
        rep.holds('R07.9', inst, f.where(), '%d return sites: BAD_ARG, BUFFER_TOO_SMALL, the generator\'s result, the size' % n)


# ------------------------------------------------------------------ R07.10
def r07_10(rep, prog):
    """the documented sufficient output size - 1277 bytes per selected frame - covers frames, TOC / count / length bytes
    and nothing else.  If the size out_range_impl needs also grows with the extension bytes it carries over from the
    STORED padding of the input packets (not only with extensions the caller passes in), 1277 x frames no longer
    suffices for packets that cat() accepted."""
    from .. import decide
    f = prog.fn('opus_repacketizer_out_range_impl')
    rep.functions.add(f.name)
    tot = [l for l in f.locals.values() if l['name'] == 'tot_size']
    inst = '%s:1277 bytes per selected frame suffice for opus_repacketizer_out_range_impl' % prog.config
    if not tot:
        rep.unresolved('R07.10', inst + ': tot_size not found')
        return
    seen, calls, work = set(), set(), [['local', 'tot_size', tot[0]['id']]]
    while work:
        x = work.pop()
        for y in sx.walk(x):
            if sx.kind(y) == 'call':
                calls.add(sx.callee_name(y))
            if sx.kind(y) == 'local' and y[2] not in seen:
                seen.add(y[2])
                for n in f.all_nodes():
                    if n[0] in ('assign', 'cassign') and sx.key(sx.strip(n[1] if n[0] == 'assign' else n[2])) == ('local', y[2]):
                        work.append(n[2] if n[0] == 'assign' else n[3])
    carries = any(sx.callee_name(c) == 'opus_packet_extensions_parse' and any(sx.kind(y) == 'field' and y[3] == 'paddings' for a in c[2] for y in sx.walk(a)) for c in f.calls())
    if 'opus_packet_extensions_generate' in calls and carries:
        rep.violated('R07.10', inst, f.where(), 'tot_size depends on the result of opus_packet_extensions_generate over extensions parsed from the stored padding: a 1275-byte frame with a 9-byte extension region needs 1287 bytes, '
                     'so out(maxlen = 1277) returns OPUS_BUFFER_TOO_SMALL', key='1277-bound-with-extensions')
    else:
        rep.holds('R07.10', inst, f.where(), 'the size does not depend on carried-over extension bytes')


# ------------------------------------------------------------------ R07.11
def r07_11(rep, prog):
    """padding works in place: opus_packet_pad_impl saves the packet, then lets out_range_impl write the padded form
    over it.  out_range_impl may store header bytes before its last size check (harmless for a separate output buffer),
    so when it refuses, the in-place caller must put the saved packet back: after the call, under `ret < 0`, the saved
    copy is copied back over `data`.  Otherwise a refused pad leaves a corrupted packet behind an error code."""
    f = prog.fn('opus_packet_pad_impl')
    rep.functions.add(f.name)
    cf = cfgm.CFG(f)
    pd = f.param_index('data')
    calls = [(b, i, c) for b, i, c in T.calls_to(cf, 'opus_repacketizer_out_range_impl') if any(sx.key(sx.strip(a)) == ('param', pd) for a in c[2])]
    inst = '%s:opus_packet_pad_impl restores the packet when the padded form is refused' % prog.config
    if not calls:
        rep.unresolved('R07.11', inst + ': in-place call of out_range_impl not found')
        return
    cb, ci, cc = calls[0]
    # the local buffer the packet was saved into
    saves = [sx.strip(c[2][0]) for b, i, c in T.calls_to(cf, ('memcpy', 'memmove')) if sx.kind(sx.strip(c[2][0])) == 'local' and sx.key(sx.strip(c[2][1])) == ('param', pd)]
    backs = []
    for b, i, c in T.calls_to(cf, ('memcpy', 'memmove')):
        if sx.key(sx.strip(c[2][0])) == ('param', pd) and any(sx.key(sx.strip(c[2][1])) == sx.key(sv) for sv in saves) and (b == cb and i > ci or b in cf.reachable_from(cb)):
            facts = T.stable_facts(cf, b, i)
            if any(a[0] == '<' and isinstance(a[1], tuple) and a[1][0] == 'local' and a[2] == ('int', 0) for a in facts):
                backs.append((b, i, c))
    where = '%s:%s' % (f.file, sx.line(cc))
    if backs:
        rep.holds('R07.11', inst, where, 'copy-back `%s` under a negative result' % sx.show(backs[0][2])[:60])
    else:
        rep.violated('R07.11', inst, where, 'out_range_impl writes over the caller\'s packet and can still refuse (it stores header bytes before its last size check); no copy-back of the saved packet follows under `ret < 0`: '
                     'a refused opus_packet_pad leaves the buffer corrupted', key='pad-in-place-no-restore')


def check(rep, prog, tier):
    r07_11(rep, prog)
    r07_10(rep, prog)
    r07_9(rep, prog)
    r07_78(rep, prog)
    r07_5(rep, prog)
    r07_6(rep, prog)
    r07_1(rep, prog)
    r07_2(rep, prog)
    r07_3(rep, prog)
    r07_4(rep, prog)
