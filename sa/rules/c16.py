"""C16 — packet extensions: generate / parse / iterate / repacketize.

R16.1 generator stores stay inside the buffer: at every data[pos] store the
      tracked difference len-pos is >= 1 (interval analysis of the ghost
      variable len-pos through the len-pos<k checks and every pos update);
      symbolic-length sinks (lacing loop, payload copy, padding move) are
      covered by a dominating len-pos check whose bound is built from the
      same terms as the loop bound / copy length.
R16.2 dry run = real run: `data != NULL` controls nothing but stores through
      data (no pos/written/curr_frame update, no return, under it).
R16.3 argument validation dominates indexing of the 48-entry frame tables;
      all constant-bound subscripts in the generator are in range.
R16.4 iterator / skip functions read bytes only under a positive-length fact.
R16.5 an extension is reported only after its payload length was validated
      and every change of the frame counter is range-checked before a report.
R16.6 repacketizer carriage: count pass and parse pass agree, renumbering
      covers the collected extensions.
"""
from .. import decide, sx, cfg as cfgm, guards, templates as T, absint
from ..guards import I
from ..compdb import AnalysisBroken

EXPLANATION = (
    'Decided: R16.1 every byte store of the extension generator happens with len-pos >= 1 (ghost-difference interval '
    'analysis) or, for symbolic lengths, under a dominating len-pos check built from the loop/copy length terms, and a '
    'failing check returns OPUS_BUFFER_TOO_SMALL; R16.2 the dry-run predicate data!=NULL controls only stores through '
    'data, so the dry-run size equals the written size; R16.3 nb_frames<=48, 0<=frame<nb_frames and 3<=id<=127 are '
    'rejected before use and all subscripts of the 48-entry tables are in range; R16.4 the iterator and skip helpers '
    'dereference packet bytes only under a positive-length fact; R16.5 an extension is reported only after the payload '
    'skip succeeded (curr_len>=0) and frame-counter updates are range-checked before any report; R16.6 the '
    'repacketizer counts and parses the same paddings and renumbers every collected extension. '
    'NOT decided: parse(generate(x)) = x, the fixed point of re-generation, per-frame ordering.')

CONFIGS = {'quick': ['float'], 'thorough': ['float', 'fixed']}
GEN_FUNCS = ['write_extension', 'write_extension_payload', 'opus_packet_extensions_generate']


def setup(rep, tier):
    rep.minimum('R16.1', 10)
    rep.minimum('R16.2', 8)
    rep.minimum('R16.3', 10)
    rep.minimum('R16.4', 5)
    rep.minimum('R16.5', 4)
    rep.minimum('R16.6', 3)
    rep.minimum('R16.7', 2)
    rep.minimum('R16.8', 8)
    rep.minimum('R16.9', 1)
    rep.minimum('R16.10', 8)
    rep.minimum('R16.11', 1)
    rep.minimum('R16.12', 1)


def _pos_key(f):
    i = f.param_index('pos')
    if i is not None:
        return ('param', i)
    ids = [l['id'] for l in f.locals.values() if l['name'] == 'pos']
    if len(ids) != 1:
        raise AnalysisBroken('%s: no pos variable' % f.name)
    return ('local', ids[0])


def data_rooted(f, e):
    r, path = sx.lvalue_root(e)
    return sx.kind(r) == 'param' and r[1] == f.param_index('data')


def r16_1(rep, prog):
    for fname in GEN_FUNCS:
        f = prog.fn(fname)
        rep.functions.add(fname)
        ln = ('param', f.param_index('len'))
        pos = _pos_key(f)
        an = absint.Analyzer(prog, f, diffs=[(ln, pos)])
        cf = an.cf
        dk = ('diff', ln, pos)
        sinks = []
        for b, i, n in cf.find(lambda n: n[0] in ('assign', 'cassign', 'call')):
            if n[0] == 'call':
                cn = sx.callee_name(n)
                if cn in ('memcpy', 'memmove', '__builtin_memcpy', '__builtin_memmove', '__memcpy_chk', '__memmove_chk',
                          '__builtin___memcpy_chk', '__builtin___memmove_chk') and data_rooted(f, n[2][0]):
                    sinks.append((b, i, n, 'copy'))
                continue
            lv = sx.strip_paren(n[1] if n[0] == 'assign' else n[2])
            if sx.kind(lv) in ('idx', 'deref') and data_rooted(f, lv):
                sinks.append((b, i, n, 'store'))
        for b, i, n, kind_ in sinks:
            st = an.state_before_node(b, i, n)
            where = '%s:%s' % (f.file, sx.line(n))
            inst = '%s:%s `%s`' % (prog.config, fname, sx.show(n)[:44])
            if st is None:
                rep.holds('R16.1', inst, where, 'unreachable')
                continue
            slack = st.get(dk, absint.TOP)
            idx_is_pos = kind_ == 'store' and sx.kind(sx.strip_paren(n[1])) == 'idx' and sx.key(sx.strip(sx.strip_paren(n[1])[2])) == pos
            if idx_is_pos and absint.lo(slack) >= 1:
                rep.holds('R16.1', inst, where, 'len-pos in %s at the store' % absint.show(slack))
                continue
            # symbolic sinks: need a dominating len-pos check that returns BUFFER_TOO_SMALL
            budget = None
            for cond, pol, gb in cfgm.guards_of(cf, b):
                for a in guards.atoms(cond, pol):
                    if a[0] in ('<=', '<') and _is_slack(a[2], ln, pos) and T.failing_edge_action(cf, gb, pol) == ('return', -2):
                        budget = (a, gb)
                    if a[0] == '<' and a[1] == pos and a[2] == ln:
                        budget = (a, gb)
            if budget is None:
                rep.violated('R16.1', inst, where, 'len-pos is %s here and no dominating len-pos check returns OPUS_BUFFER_TOO_SMALL' % absint.show(slack), key='%s:%s' % (fname, sx.show(n)[:40]))
                continue
            bound = budget[0][1]
            terms = _terms(f, bound)
            # the symbolic length of this sink must be one of the terms of the bound
            need = _sink_length_terms(cf, f, b, i, n, kind_)
            # i < padding with the single definition padding = len - pos, under pos < len: index < len
            if need is not None and budget[0] == ('<', pos, ln):
                for l_ in f.locals.values():
                    if need == {'l%d' % l_['id']}:
                        defs = [sx.key(m[2]) for m in f.all_nodes() if m[0] == 'assign' and sx.key(m[1]) == ('local', l_['id'])]
                        defs += [sx.key(d[3]) for m in f.all_nodes() if m[0] == 'decls' for d in m[1] if d[0] == 'decl' and d[2] == l_['id'] and d[3] is not None]
                        if defs == [('bin', '-', ln, pos)]:
                            need = set(terms)
            if need is not None and all(t in terms for t in need):
                rep.holds('R16.1', inst, where, 'under check len-pos >= %s whose terms cover %s' % (T.show_atom(budget[0]), sorted(need)))
            else:
                rep.violated('R16.1', inst, where, 'dominating budget %s (terms %s) does not cover the length of this write (%s)' % (T.show_atom(budget[0]), sorted(terms), need), key='%s:%s' % (fname, sx.show(n)[:40]))
        # failing budget checks return BUFFER_TOO_SMALL (not another code)
        for b in cf.blocks:
            c = cf.cond(b)
            if c is None:
                continue
            for pol in (True, False):
                for a in guards.atoms(c, pol):
                    if a[0] == '<' and _is_slack(a[1], ln, pos):
                        act = None
                        for s_, p_ in cf.edges(b):
                            if p_ == pol:
                                act = T._block_action(cf, s_, 0)
                        inst = '%s:%s check `%s`' % (prog.config, fname, sx.show(c))
                        if act == ('return', -2):
                            rep.holds('R16.1', inst, '%s:%s' % (f.file, cf.blocks[b]['term'].get('l')), 'too-small buffer -> OPUS_BUFFER_TOO_SMALL')
                        else:
                            rep.violated('R16.1', inst, '%s:%s' % (f.file, cf.blocks[b]['term'].get('l')), 'too-small buffer leads to %s' % (act,), key='%s:budget-action' % fname)


def _is_slack(k, ln, pos):
    return isinstance(k, tuple) and k[:2] == ('bin', '-') and k[2] == ln and k[3] == pos


def _terms(f, key):
    """additive terms of an expression key, with single-definition locals
    expanded once (length_bytes = 1 + ext->len/255)"""
    out = set()

    def add(k):
        if isinstance(k, tuple) and k[0] == 'bin' and k[1] == '+':
            add(k[2])
            add(k[3])
        elif isinstance(k, tuple) and k[0] == 'local':
            out.add(_kshow(k))
            defs = [sx.key(n[2]) for n in f.all_nodes() if n[0] == 'assign' and sx.key(n[1]) == k]
            for d in defs:
                if isinstance(d, tuple) and d[0] == 'bin':
                    add(d)
        else:
            out.add(_kshow(k))
    add(key)
    return out


def _kshow(k):
    if not isinstance(k, tuple):
        return str(k)
    if k[0] == 'int':
        return str(k[1])
    if k[0] == 'field':
        return _kshow(k[1]) + '.' + k[2]
    if k[0] == 'param':
        return 'p%d' % k[1]
    if k[0] == 'local':
        return 'l%d' % k[1]
    if k[0] == 'bin':
        return '(%s%s%s)' % (_kshow(k[2]), k[1], _kshow(k[3]))
    return str(k[0])


def _sink_length_terms(cf, f, b, i, n, kind_):
    if kind_ == 'copy':
        # OPUS_COPY(&data[pos], src, n): n = (len_expr)*sizeof + 0*...
        ln = sx.strip(n[2][2])
        for m in sx.walk(ln):
            if sx.kind(m) == 'field':
                return {_kshow(sx.key(m))}
            if sx.kind(m) in ('local', 'param') and sx.A(m) is not None and sx.kind(m) == 'local':
                return {_kshow(sx.key(m))}
        return None
    # store inside a counted loop: trip count expression
    for cond, pol, gb in cfgm.guards_of(cf, b):
        for a in guards.atoms(cond, pol):
            if a[0] == '<' and a[1][0] == 'local':
                return {_kshow(a[2])}
    # straight-line store right after the loop (the "+1" of length_bytes)
    return {'1'}


def r16_2(rep, prog):
    for fname in GEN_FUNCS:
        f = prog.fn(fname)
        cf = cfgm.CFG(f)
        pd = f.param_index('data')
        found = 0
        for g in cf.blocks:
            c = cf.cond(g)
            if c is None:
                continue
            e = sx.strip(c)
            if not (sx.kind(e) == 'param' and e[1] == pd):
                continue
            found += 1
            tsucc = [s for s, p in cf.edges(g) if p is True]
            fsucc = [s for s, p in cf.edges(g) if p is False]
            if not tsucc or not fsucc:
                continue
            # region executed only when data != NULL
            region = {b for b in cf.blocks if cf.edge_dominates(g, tsucc[0], b) and b in (cf.reachable_from(g) | {tsucc[0]})}
            region -= {x for x in region if cf.postdominates(x, g)}
            bad = []
            assigned_locals = set()
            for b in region:
                for s in f.block_exprs(cf.blocks[b]):
                    if sx.kind(s) == 'ret':
                        bad.append('return inside the data!=NULL region (line %s)' % sx.line(s))
                    for n in sx.walk(s):
                        if n[0] in ('assign', 'cassign', 'inc'):
                            lv = sx.strip_paren(n[1] if n[0] == 'assign' else (n[2] if n[0] == 'cassign' else n[3]))
                            if data_rooted(f, lv):
                                continue
                            if sx.kind(lv) == 'local':
                                assigned_locals.add((lv[2], lv[1], sx.line(n)))
                            else:
                                bad.append('`%s` (line %s)' % (sx.show(n)[:40], sx.line(n)))
            # locals assigned in the region must be dead outside it (re-defined before any use)
            for lid, name, line_ in assigned_locals:
                for b2 in cf.blocks:
                    if b2 in region:
                        continue
                    if b2 not in cf.reachable_from(g):
                        continue
                    for j, s in enumerate(f.block_exprs(cf.blocks[b2])):
                        reads = [m for m in sx.walk(s) if sx.kind(m) == 'local' and m[2] == lid]
                        writes = [m for m in sx.walk(s) if m[0] == 'assign' and sx.kind(m[1]) == 'local' and m[1][2] == lid]
                        if reads and not _redefined_before(cf, f, g, b2, j, lid, region):
                            bad.append('local %s assigned under data!=NULL (line %s) is read afterwards (line %s)' % (name, line_, sx.line(reads[0]) or '?'))
                            break
            inst = '%s:%s data!=NULL region at line %s' % (prog.config, fname, cf.blocks[g]['term'].get('l'))
            where = '%s:%s' % (f.file, cf.blocks[g]['term'].get('l'))
            if bad:
                rep.violated('R16.2', inst, where, 'the dry-run predicate controls more than stores through data: ' + '; '.join(sorted(set(bad))[:3]), key='%s:dryrun' % fname)
            else:
                rep.holds('R16.2', inst, where, '%d block(s): only stores through data' % len(region))
        if not found:
            rep.unresolved('R16.2', 'no `if (data)` test found in %s' % fname)


def _redefined_before(cf, f, g, b2, j, lid, region):
    """is local lid assigned on every path from the region's exit to (b2,j)
    outside the region?  conservative: an assignment in b2 before j, or in a
    block outside the region that dominates b2 and is reachable from g"""
    for s in f.block_exprs(cf.blocks[b2])[:j + 1]:
        for m in sx.walk(s):
            if m[0] == 'assign' and sx.kind(m[1]) == 'local' and m[1][2] == lid:
                return True
    for b3 in cf.blocks:
        if b3 in region or b3 == b2 or b3 not in cf.reachable_from(g):
            continue
        if cf.dominates(b3, b2):
            for s in f.block_exprs(cf.blocks[b3]):
                for m in sx.walk(s):
                    if m[0] == 'assign' and sx.kind(m[1]) == 'local' and m[1][2] == lid:
                        return True
    return False


def r16_3(rep, prog):
    f = prog.fn('opus_packet_extensions_generate')
    nbf = ('param', f.param_index('nb_frames'))
    an = absint.Analyzer(prog, f)
    cf = an.cf
    n_idx = 0
    for b, i, n in cf.find(lambda n: n[0] == 'idx' and 'bound' in sx.A(n)):
        base = sx.strip(n[1])
        if sx.kind(base) != 'local':
            continue
        n_idx += 1
        st = an.state_before_node(b, i, n)
        where = '%s:%s' % (f.file, sx.line(n))
        inst = '%s:generate %s[%s] bound %d' % (prog.config, base[1], sx.show(n[2])[:24], sx.A(n)['bound'])
        if st is None:
            continue
        v = an.ev(n[2], st)
        bound = sx.A(n)['bound']
        if absint.lo(v) >= 0 and absint.hi(v) < bound:
            rep.holds('R16.3', inst, where, 'index in %s' % absint.show(v))
        elif absint.is_top(v) or absint.hi(v) >= absint.INF or absint.lo(v) <= -absint.INF or absint.hi(v) >= (1 << 31) - 1 or absint.lo(v) <= -(1 << 31):
            # the domain lost the value: fall back to a dominating guard on the index expression
            known = T.stable_facts(cf, b, i)
            k = sx.key(sx.strip(n[2]))
            if guards.implies(known, ('<', k, nbf)) or guards.implies(known, ('<', k, I(bound))):
                rep.holds('R16.3', inst, where, 'guarded: index < nb_frames <= 48')
            else:
                rep.unresolved('R16.3', 'cannot bound index %s of %s (value %s)' % (sx.show(n[2]), base[1], absint.show(v)), where)
        else:
            rep.violated('R16.3', inst, where, 'index may be %s, array has %d entries' % (absint.show(v), bound), key='idx:%s:%s' % (base[1], sx.show(n[2])[:24]))
    if n_idx < 8:
        rep.unresolved('R16.3', 'only %d frame-table subscripts found' % n_idx)
    # id range and frame range rejected with BAD_ARG
    rets = [T.const_ret(s) for b, i, s in T.returns_of(cf)]
    for what, pred in (('nb_frames > 48 -> BAD_ARG', lambda a: a[0] == '<' and a[1] == I(48) and a[2] == nbf),
                       ('id < 3 -> BAD_ARG', lambda a: a[0] == '<' and a[2] == I(3)),
                       ('id > 127 -> BAD_ARG', lambda a: a[0] == '<' and a[1] == I(127))):
        ok = False
        for b in cf.blocks:
            c = cf.cond(b)
            if c is None:
                continue
            for pol in (True, False):
                if any(pred(a) for a in guards.atoms(c, pol)):
                    for s_, p_ in cf.edges(b):
                        if p_ == pol and T._block_action(cf, s_, 0) == ('return', -1):
                            ok = True
        (rep.holds if ok else rep.violated)('R16.3', '%s:generate %s' % (prog.config, what), f.where(), None if ok else 'check not found', **({} if ok else {'key': what}))
    # short extensions: len in {0,1}; long: len >= 0
    f2 = prog.fn('write_extension_payload')
    cf2 = cfgm.CFG(f2)
    found = []
    for b in cf2.blocks:
        c = cf2.cond(b)
        if c is None:
            continue
        for pol in (True, False):
            for a in guards.atoms(c, pol):
                if a[0] == '<' and a[1][0] == 'field' and a[1][2] == 'len' and a[2] == I(0):
                    for s_, p_ in cf2.edges(b):
                        if p_ == pol and T._block_action(cf2, s_, 0) == ('return', -1):
                            found.append('len<0')
                if a[0] == '<' and a[1] == I(1) and a[2][0] == 'field' and a[2][2] == 'len':
                    for s_, p_ in cf2.edges(b):
                        if p_ == pol and T._block_action(cf2, s_, 0) == ('return', -1):
                            found.append('len>1')
    ok = found.count('len<0') >= 2 and 'len>1' in found
    (rep.holds if ok else rep.violated)('R16.3', '%s:write_extension_payload rejects negative / oversize short payload lengths' % prog.config, f2.where(), str(found), **({} if ok else {'key': 'payload-len'}))


def r16_4(rep, prog):
    # (function, pointer expression predicate, paired length key builder)
    def run(fname, pairs):
        f = prog.fn(fname)
        rep.functions.add(fname)
        cf = cfgm.CFG(f)
        an = absint.Analyzer(prog, f)
        n = 0
        for b, i, node in cf.find(lambda n: n[0] in ('deref', 'idx') and sx.A(n).get('t') == 's' and sx.A(n).get('w') == 8):
            base = node[1]
            bk = sx.key(sx.strip(base[3] if sx.kind(base) == 'inc' else base))
            if bk not in pairs:
                continue
            # writes are handled elsewhere; here: reads of packet bytes
            n += 1
            lenkey, need_extra = pairs[bk]
            need = 1 + (sx.int_val(node[2]) or 0 if node[0] == 'idx' else 0)
            where = '%s:%s' % (f.file, sx.line(node))
            inst = '%s:%s read `%s` needs %d byte(s)' % (prog.config, fname, sx.show(node)[:30], need)
            st = an.state_before_node(b, i, node)
            v = None
            if st is not None:
                v = st.get(lenkey)
            known = T.stable_facts(cf, b, i)
            ok = (v is not None and absint.lo(v) >= need) or guards.implies(known, ('<=', I(need), lenkey)) or guards.implies(known, ('<', I(need - 1), lenkey))
            exc = FROZEN_READS.get((fname, sx.show(node)))
            if ok:
                rep.holds('R16.4', inst, where, 'length fact: %s' % (absint.show(v) if v is not None else [T.show_atom(a) for a in known][:3]))
            elif exc:
                g0 = guards.implies(known, ('<=', I(0), lenkey)) or guards.implies(known, ('<', I(-1), lenkey)) or (v is not None and absint.lo(v) >= 0)
                if exc[1] is None or g0:
                    rep.holds('R16.4', inst + ' (frozen exception)', where, exc[0])
                else:
                    rep.violated('R16.4', inst, where, 'the inter-procedural justification (%s) needs the callee result test, which no longer dominates' % exc[0], key='%s:%s' % (fname, sx.show(node)))
            else:
                rep.violated('R16.4', inst, where, 'no fact %s >= %d dominates the read (value %s)' % (T.show_atom(('==', lenkey, I(0)))[:-5], need, absint.show(v) if v is not None else 'unknown'), key='%s:%s' % (fname, sx.show(node)))
        return n
    total = 0
    f = prog.fn('skip_extension_payload')
    d = [l['id'] for l in f.locals.values() if l['name'] == 'data'][0]
    total += run('skip_extension_payload', {('local', d): (('param', f.param_index('len')), 0)})
    f = prog.fn('skip_extension')
    d = [l['id'] for l in f.locals.values() if l['name'] == 'data'][0]
    total += run('skip_extension', {('local', d): (('param', f.param_index('len')), 0)})
    f = prog.fn('opus_extension_iterator_next')
    it = ('param', 0)
    c0 = [l['id'] for l in f.locals.values() if l['name'] == 'curr_data0']
    pairs = {('field', it, 'src_data'): (('field', it, 'src_len'), 0)}
    for cid in c0:
        pairs[('local', cid)] = (('field', it, 'curr_len'), 0)
    total += run('opus_extension_iterator_next', pairs)
    if total < 5:
        rep.unresolved('R16.4', 'only %d packet-byte reads found in the iterator/skip helpers' % total)


FROZEN_READS = {
    ('opus_extension_iterator_next', 'curr_data0[1]'):
        ('id==1 with L==1 is a short extension with a 1-byte payload: skip_extension() returned a non-negative length for it, so the byte after the id lies inside the buffer', 'needs curr_len>=0'),
}


def r16_5(rep, prog):
    f = prog.fn('opus_extension_iterator_next')
    cf = cfgm.CFG(f)
    it = ('param', 0)
    n1 = 0
    for b, i, s in T.returns_of(cf):
        if T.const_ret(s) != 1:
            continue
        n1 += 1
        known = T.stable_facts(cf, b, i)
        ok = guards.implies(known, ('<=', I(0), ('field', it, 'curr_len')))
        where = '%s:%s' % (f.file, sx.line(s))
        (rep.holds if ok else rep.violated)('R16.5', '%s:iterator_next `return 1` after payload validated' % prog.config, where,
                                            'curr_len >= 0 established by the INVALID_PACKET test' if ok else 'no dominating test curr_len<0 -> OPUS_INVALID_PACKET; known %s' % [T.show_atom(a) for a in known][:4],
                                            **({} if ok else {'key': 'ret1:%s' % sx.line(s)}))
    if n1 < 2:
        rep.unresolved('R16.5', 'expected two `return 1` sites in opus_extension_iterator_next, found %d' % n1)
    # every change of curr_frame is compared with nb_frames before an extension can be reported
    report_blocks = {b for b, i, s in T.returns_of(cf) if T.const_ret(s) == 1}
    checks = set()
    for b in cf.blocks:
        c = cf.cond(b)
        if c is not None and any(sx.kind(x) == 'field' and x[3] == 'curr_frame' for x in sx.walk(c)) and any(sx.kind(x) == 'field' and x[3] == 'nb_frames' for x in sx.walk(c)):
            checks.add(b)
    for b, i, n in T.stores_where(cf, lambda lv, n: sx.kind(lv) == 'field' and lv[3] == 'curr_frame'):
        where = '%s:%s' % (f.file, sx.line(n))
        ok = b in checks or cf.must_pass(b, report_blocks, checks)
        (rep.holds if ok else rep.violated)('R16.5', '%s:iterator_next `%s` range-checked before a report' % (prog.config, sx.show(n)[:30]), where,
                                            'every path to `return 1` compares curr_frame with nb_frames first' if ok else 'a report is reachable without comparing curr_frame with nb_frames',
                                            **({} if ok else {'key': 'curr_frame:%s' % sx.show(n)[:30]}))
    # repeated extensions: frame = repeat_frame inside a loop bounded by nb_frames
    for b, i, n in cf.find(lambda n: n[0] == 'assign' and sx.kind(sx.strip_paren(n[1])) == 'field' and sx.strip_paren(n[1])[3] == 'frame'):
        rhs = sx.strip(n[2])
        if sx.kind(rhs) == 'field' and rhs[3] == 'repeat_frame':
            known = T.stable_facts(cf, b, i)
            ok = guards.implies(known, ('<', ('field', it, 'repeat_frame'), ('field', it, 'nb_frames')))
            (rep.holds if ok else rep.violated)('R16.5', '%s:iterator_next repeated extension frame < nb_frames' % prog.config, '%s:%s' % (f.file, sx.line(n)),
                                                None if ok else 'loop bound missing', **({} if ok else {'key': 'repeat_frame'}))
    # count_ext indexes nb_frame_exts[ext.frame] - relies on the above; parse returns BUFFER_TOO_SMALL when full
    f2 = prog.fn('opus_packet_extensions_parse')
    cf2 = cfgm.CFG(f2)
    st_ = T.stores_where(cf2, lambda lv, n: sx.kind(lv) == 'idx' and sx.kind(sx.strip(lv[1])) == 'param')
    for b, i, n in st_:
        known = T.stable_facts(cf2, b, i)
        ok = any(a[0] == '!=' and a[1][0] == 'local' and a[2][0] == 'deref' for a in known)
        (rep.holds if ok else rep.violated)('R16.5', '%s:extensions_parse stores below *nb_extensions' % prog.config, '%s:%s' % (f2.file, sx.line(n)),
                                            'count != *nb_extensions before extensions[count] = ext' if ok else 'capacity test missing; known %s' % [T.show_atom(a) for a in known][:3],
                                            **({} if ok else {'key': 'parse-capacity'}))


def r16_6(rep, prog):
    f = prog.fn('opus_repacketizer_out_range_impl')
    cf = cfgm.CFG(f)
    cnt = [n for n in f.calls() if sx.callee_name(n) == 'opus_packet_extensions_count']
    par = [n for n in f.calls() if sx.callee_name(n) == 'opus_packet_extensions_parse']
    if len(cnt) != 1 or len(par) != 1:
        rep.unresolved('R16.6', 'expected one count and one parse call in out_range_impl')
        return
    a = [sx.key(x) for x in cnt[0][2][:3]]
    b = [sx.key(par[0][2][0]), sx.key(par[0][2][1]), sx.key(par[0][2][4])]
    ok = a == b
    (rep.holds if ok else rep.violated)('R16.6', '%s:out_range_impl count pass and parse pass read the same (padding, len, nb_frames)' % prog.config,
                                        '%s:%s' % (f.file, sx.line(par[0])), None if ok else 'count(%s) vs parse(%s)' % ([sx.show(x) for x in cnt[0][2][:3]], [sx.show(par[0][2][k]) for k in (0, 1, 4)]),
                                        **({} if ok else {'key': 'count-vs-parse'}))
    # both loops run i = begin .. end-1
    loops = []
    for call in (cnt[0], par[0]):
        for b_, i_, n_ in cf.find(lambda n: n is call):
            known = T.stable_facts(cf, b_, i_)
            loops.append(sorted(T.show_atom(x) for x in known if x[0] == '<' and x[1][0] == 'local' and x[2] == ('param', f.param_index('end'))))
    ok = len(loops) == 2 and loops[0] == loops[1] and loops[0]
    (rep.holds if ok else rep.violated)('R16.6', '%s:out_range_impl both passes iterate i < end' % prog.config, f.where(), str(loops), **({} if ok else {'key': 'loops'}))
    # renumbering and selection: an extension stored with frame index k of the packet that starts at repacketizer frame i
    # belongs to output frame k + i - begin, and is carried over only when that frame is selected (0 <= . < count)
    pb = f.param_index('begin')
    stores = [(b_, i_, n) for b_, i_, n in cf.find(lambda n: n[0] in ('assign', 'cassign') and sx.kind(sx.strip_paren(n[1] if n[0] == 'assign' else n[2])) == 'field'
                                                  and sx.strip_paren(n[1] if n[0] == 'assign' else n[2])[3] == 'frame')]
    inst = '%s:out_range_impl renumbers collected extensions by i-begin' % prog.config
    inst2 = '%s:out_range_impl carries over only the extensions of the selected frames' % prog.config
    if len(stores) != 1:
        rep.violated('R16.6', inst, f.where(), '%d stores into the frame field' % len(stores), key='renumber')
    else:
        b_, i_, n = stores[0]
        val = n[2] if n[0] == 'assign' else n[3]
        vloc = sx.strip(val)
        if n[0] == 'assign' and sx.kind(vloc) == 'local':
            ds = [r for lv, r in decide.find_assign(f, vloc[1])]
            val = ds[0] if len(ds) == 1 else val
        has_begin = any(sx.kind(x) == 'bin' and x[1] == '-' and sx.key(sx.strip(x[3])) == ('param', pb) for x in sx.walk(val))
        has_old = n[0] == 'cassign' or any(sx.kind(x) == 'field' and x[3] == 'frame' for x in sx.walk(val))
        ok = has_begin and has_old
        (rep.holds if ok else rep.violated)('R16.6', inst, '%s:%s' % (f.file, sx.line(n)), 'new frame = `%s`' % sx.show(val)[:60], **({} if ok else {'key': 'renumber'}))
        # the renumbered frame goes into the slot the extension was just copied to
        lvf = sx.strip_paren(n[1] if n[0] == 'assign' else n[2])
        slot = sx.strip(sx.strip(lvf[1])[2]) if sx.kind(sx.strip(lvf[1])) == 'idx' else None
        copies = [x for x in cf.f.block_exprs(cf.blocks[b_]) for x in sx.walk(x) if x[0] == 'assign' and sx.kind(sx.strip(x[1])) == 'idx' and sx.kind(sx.strip(x[2])) == 'idx'
                  and sx.key(sx.strip(sx.strip(x[1])[1])) == sx.key(sx.strip(sx.strip(x[2])[1]))]
        if copies and slot is not None:
            dst = sx.strip(sx.strip(copies[0][1])[2])
            okc = sx.key(dst) == sx.key(slot)
            (rep.holds if okc else rep.violated)('R16.6', '%s:out_range_impl writes the new frame number into the slot it keeps the extension in' % prog.config, '%s:%s' % (f.file, sx.line(n)),
                                                 'element copied to [%s], frame stored in [%s]' % (sx.show(dst), sx.show(slot)), **({} if okc else {'key': 'renumber-slot'}))
        facts = T.stable_facts(cf, b_, i_)
        cnt_l = [l['id'] for l in f.locals.values() if l['name'] == 'count']
        upper = any(a[0] == '<' and a[2] == ('local', cnt_l[0]) for a in facts) if cnt_l else False
        lower = any(a[0] in ('<=', '<') and a[1][0] == 'int' and a[1][1] in (0, -1) for a in facts)
        if upper and lower:
            rep.holds('R16.6', inst2, '%s:%s' % (f.file, sx.line(n)), 'kept under %s' % [T.show_atom(a) for a in facts][:3])
        else:
            rep.violated('R16.6', inst2, '%s:%s' % (f.file, sx.line(n)), 'the renumbered frame is not tested against [0, count): an extension of a frame outside [begin, end) reaches the generator, which '
                         'rejects it (OPUS_BAD_ARG for a valid range), and extensions stored with a first frame before `begin` are lost', key='selection')
    T.t_err(rep, 'R16.6', prog, f, {'opus_packet_extensions_parse', 'opus_packet_extensions_generate'}, {}, prog.config + ':')


class _Renamed:
    """report adapter: records another module's rule under this property's rule id"""
    def __init__(self, rep, rule):
        self._rep, self._rule = rep, rule
        self.functions = rep.functions

    def holds(self, rule, *a, **k):
        self._rep.holds(self._rule, *a, **k)

    def violated(self, rule, *a, **k):
        self._rep.violated(self._rule, *a, **k)

    def unresolved(self, rule, *a, **k):
        self._rep.unresolved(self._rule, *a, **k)


def _chain(n):
    """`a = b = c = rhs` -> ([a, b, c], rhs)"""
    lvs = []
    while sx.kind(n) == 'assign':
        lvs.append(sx.strip_paren(n[1]))
        n = sx.strip_paren(n[2])
    return lvs, n


def _iter_fields_assigned(f, rec='OpusExtensionIterator'):
    """field -> list of final right-hand sides (chained assignments flattened)"""
    out = {}
    inner = set()
    for _, s in f.stmts():
        for n in sx.walk(s):
            if n[0] == 'assign' and id(n) not in inner:
                lvs, rhs = _chain(n)
                m = n
                while sx.kind(m) == 'assign':
                    inner.add(id(m))
                    m = sx.strip_paren(m[2])
                for lv in lvs:
                    if sx.kind(lv) == 'field' and lv[2] == rec:
                        out.setdefault(lv[3], []).append((rhs, [x[3] for x in lvs if sx.kind(x) == 'field']))
            elif n[0] in ('cassign', 'inc'):
                lv = sx.strip_paren(n[2] if n[0] == 'cassign' else n[3])
                if sx.kind(lv) == 'field' and lv[2] == rec:
                    out.setdefault(lv[3], []).append((None, [lv[3]]))
            elif n[0] == 'addr':
                lv = sx.strip_paren(n[1])
                if sx.kind(lv) == 'field' and lv[2] == rec:
                    out.setdefault(lv[3], []).append((None, [lv[3]]))
    return out


def r16_8(rep, prog):
    """iterator reset re-establishes the initial cursor: every field that
    iteration mutates is re-assigned by opus_extension_iterator_reset with the
    value opus_extension_iterator_init gives it, except the repeat-replay
    fields that are (re)assigned together whenever a repeat is armed"""
    need = ('opus_extension_iterator_init', 'opus_extension_iterator_reset', 'opus_extension_iterator_next')
    if not all(prog.has_fn(n) for n in need):
        rep.unresolved('R16.8', 'iterator functions not found')
        return
    init, reset = prog.fn(need[0]), prog.fn(need[1])
    rep.functions.update(need)
    A = _iter_fields_assigned(init)
    B = _iter_fields_assigned(reset)
    mut = {}
    for f in prog.functions_all:
        if f.name in (need[0], need[1], 'opus_extension_iterator_set_frame_max') or not f.file.endswith('extensions.c'):
            continue
        for fld, lst in _iter_fields_assigned(f).items():
            mut.setdefault(fld, []).append(f.name)
    if len(mut) < 6:
        rep.unresolved('R16.8', 'only %d iterator fields are mutated by iteration' % len(mut))
        return
    # repeat-replay fields: armed together with repeat_frame
    armed = set()
    for f in prog.functions_all:
        if not f.file.endswith('extensions.c'):
            continue
        cf = cfgm.CFG(f)
        for b in cf.blocks:
            flds = {}
            for s_ in cf.blocks[b]['stmts']:
                for n in sx.walk(s_):
                    if n[0] == 'assign':
                        lvs, rhs = _chain(n)
                        for lv in lvs:
                            if sx.kind(lv) == 'field' and lv[2] == 'OpusExtensionIterator':
                                flds[lv[3]] = rhs
            if 'repeat_frame' in flds and sx.int_val(flds['repeat_frame']) is None:
                armed = set(flds) if not armed else (armed & set(flds))
    for fld in sorted(mut):
        inst = '%s:iterator field %s (mutated by %s) is re-initialised by reset' % (prog.config, fld, sorted(set(mut[fld]))[0])
        where = reset.where()
        if fld in B:
            ia = A.get(fld)
            if not ia:
                rep.violated('R16.8', inst, where, 'reset assigns it but init does not', key='reset:' + fld)
                continue
            (irhs, igroup), (rrhs, rgroup) = ia[0], B[fld][0]
            same = sx.key(irhs) == sx.key(rrhs) or (sx.kind(rrhs) == 'field' and rrhs[3] in igroup)
            if same:
                rep.holds('R16.8', inst, where, 'reset: %s, init: %s' % (sx.show(rrhs), sx.show(irhs)))
            else:
                rep.violated('R16.8', inst, where, 'reset gives it `%s` but a fresh iterator has `%s`' % (sx.show(rrhs), sx.show(irhs)), key='reset-value:' + fld)
        elif fld in armed and fld != 'repeat_frame':
            rep.holds('R16.8', inst + ' (not needed)', where, 'assigned in the same block as every arming of repeat_frame (%s): dead while repeat_frame == 0' % sorted(armed))
        else:
            rep.violated('R16.8', inst, where, 'iteration changes %s but reset leaves the stale value; a rewound iterator differs from a fresh one' % fld, key='reset:' + fld)


# ------------------------------------------------------------------ R16.9
def r16_9(rep, prog):
    """the header size an extension skipper reports is the number of header (lacing) bytes it consumed: in the
    function that copies a local counter into its `pheader_size` out-parameter, every one-byte cursor read
    `*data++` is control-equivalent (same block, or mutually dominating / post-dominating blocks of the same
    loop) with exactly one increment of that counter, and vice versa.  The callers subtract the header size from
    the distance the cursor moved to obtain the payload pointer and length, so a miscount shifts every
    payload that has a multi-byte length."""
    n = 0
    for f in prog.functions_all:
        if not f.file.endswith('extensions.c'):
            continue
        cg = cfgm.CFG(f)
        counter = None
        for b, i, s_ in cg.positions():
            if s_[0] == 'assign' and sx.kind(sx.strip(s_[1])) == 'deref' and sx.kind(sx.strip(sx.strip(s_[1])[1])) == 'param' and \
                    'header_size' in str(sx.strip(sx.strip(s_[1])[1])) and sx.kind(sx.strip(s_[2])) == 'local':
                counter = sx.strip(s_[2])
        if counter is None:
            continue
        rep.functions.add(f.name)
        reads, incs = [], []
        for b, i, s_ in cg.positions():
            for x in sx.walk(s_):
                if sx.kind(x) == 'deref' and sx.kind(sx.strip(x[1])) == 'inc' and sx.kind(sx.strip(sx.strip(x[1])[3])) == 'local':
                    reads.append((b, i, x))
                if sx.kind(x) == 'inc' and sx.key(sx.strip(x[3])) == sx.key(counter):
                    incs.append((b, i, x))
                if x[0] == 'cassign' and sx.key(sx.strip(x[2])) == sx.key(counter):
                    incs.append((b, i, x))
        loops = cg.natural_loops()

        def loop_of(b):
            L = [x for x in loops if b in x[2]]
            return min(L, key=lambda x: len(x[2]))[0] if L else None

        def equiv(a, b):
            if a == b:
                return True
            if loop_of(a) != loop_of(b):
                return False
            return (cg.dominates(a, b) and cg.postdominates(b, a)) or (cg.dominates(b, a) and cg.postdominates(a, b))
        inst = '%s:%s counts one header byte per lacing byte it reads' % (prog.config, f.name)
        n += 1
        bad = []
        for b, i, x in reads:
            m = [j for j in incs if equiv(b, j[0])]
            if len(m) != 1:
                bad.append('the byte read at line %s has %d matching increments of `%s`' % (sx.line(x) or sx.line(cg.blocks[b]['stmts'][i]), len(m), counter[1]))
        for b, i, x in incs:
            m = [j for j in reads if equiv(b, j[0])]
            if len(m) != 1:
                bad.append('the increment of `%s` at line %s has %d matching byte reads' % (counter[1], sx.line(x) or sx.line(cg.blocks[b]['stmts'][i]), len(m)))
        if not reads and not incs:
            rep.unresolved('R16.9', inst + ': no byte reads / increments found')
        elif bad:
            rep.violated('R16.9', inst, f.where(), '; '.join(bad[:3]) + ': the reported header size differs from the bytes consumed whenever the length takes more than one byte', key=f.name + ':header-size')
        else:
            rep.holds('R16.9', inst, f.where(), '%d byte read(s), %d increment(s), pairwise control-equivalent' % (len(reads), len(incs)))
    return n


# ------------------------------------------------------------------ R16.10
def r16_10(rep, prog):
    """the extension parsers walk bytes chosen by whoever made the packet: none of them may recurse, or the nesting depth -
    and with it the stack use - is chosen by the input (a run of `repeat these extensions` indicators nests one call per
    byte unless the compiler happens to turn the tail call into a jump)."""
    fs = [f for f in prog.functions_all if f.file.endswith('src/extensions.c')]
    names = {f.name: f for f in fs}
    calls = {f.name: {sx.callee_name(c) for c in f.calls() if sx.callee_name(c) in names} for f in fs}
    n = 0
    for f in fs:
        n += 1
        # reachability from f back to f inside the file
        seen, work = set(), list(calls[f.name])
        while work:
            x = work.pop()
            if x in seen:
                continue
            seen.add(x)
            work += list(calls.get(x, ()))
        inst = '%s:%s does not recurse' % (prog.config, f.name)
        if f.name in seen:
            site = [c for c in f.calls() if sx.callee_name(c) == f.name] or [c for c in f.calls() if sx.callee_name(c) in seen]
            rep.violated('R16.10', inst, '%s:%s' % (f.file, sx.line(site[0]) if site else f.line), 'calls itself%s: the recursion depth is one level per input byte of a suitable pattern' % ('' if any(sx.callee_name(c) == f.name for c in f.calls()) else ' through %s' % sorted(seen & set(calls[f.name]))),
                         key=f.name + ':recursion')
        else:
            rep.holds('R16.10', inst, f.where(), None)
    if n < 8:
        rep.unresolved('R16.10', 'only %d functions of src/extensions.c found' % n)
    return n


# ------------------------------------------------------------------ R16.11
def r16_11(rep, prog):
    """stack use must not be chosen by the packet: a variable-length array whose element count derives from counting
    the extensions found in packet padding (one `repeat these extensions` byte stands for up to 48 records of 24 bytes)
    needs a constant upper bound on that count.  Without it a packet of a few hundred bytes exhausts a thread stack."""
    n = 0
    for f in prog.functions_all:
        if not (f.file.endswith('src/repacketizer.c') or f.file.endswith('src/extensions.c')):
            continue
        cf = None
        for b_ in f.blocks.values():
            for s_ in b_['stmts']:
                if sx.kind(s_) != 'decls':
                    continue
                for d in s_[1]:
                    if d[0] != 'decl' or 'vla' not in sx.A(d):
                        continue
                    dim = sx.A(d)['vla']
                    seen, calls, clamp, work = set(), set(), False, [dim]
                    while work:
                        x = work.pop()
                        for y in sx.walk(x):
                            if sx.kind(y) == 'call':
                                calls.add(sx.callee_name(y))
                            if sx.kind(y) == 'local' and y[2] not in seen:
                                seen.add(y[2])
                                for n_ in f.all_nodes():
                                    if n_[0] == 'decls':
                                        for d2 in n_[1]:
                                            if d2[0] == 'decl' and d2[2] == y[2] and d2[3] is not None:
                                                work.append(d2[3])
                                        continue
                                    if n_[0] in ('assign', 'cassign') and sx.key(sx.strip(n_[1] if n_[0] == 'assign' else n_[2])) == ('local', y[2]):
                                        r = n_[2] if n_[0] == 'assign' else n_[3]
                                        mm = T_minmax(r) if 'T_minmax' in globals() else None
                                        if mm and mm[0] == 'min' and (sx.int_val(mm[1]) is not None or sx.int_val(mm[2]) is not None):
                                            clamp = True
                                        work.append(r)
                    if not ({'opus_packet_extensions_count', 'opus_packet_extensions_parse', 'opus_packet_extensions_count_ext'} & calls):
                        continue
                    n += 1
                    rep.functions.add(f.name)
                    inst = '%s:%s bounds the number of extension records it puts on the stack (`%s`)' % (prog.config, f.name, d[1])
                    where = '%s:%s' % (f.file, sx.A(d).get('l') or f.line)
                    if clamp:
                        rep.holds('R16.11', inst, where, 'count clamped by a constant')
                    else:
                        rep.violated('R16.11', inst, where, 'the array `%s[%s]` is sized by the number of extensions counted in the stored padding, with no constant bound: a well-formed packet of a few hundred bytes (repeat indicators) asks for megabytes of stack' % (d[1], sx.show(dim)),
                                     key='%s:%s:unbounded-vla' % (f.name, d[1]))
    if n == 0:
        rep.holds('R16.11', '%s:no stack array is sized by a count of parsed extensions' % prog.config, None, None)
    return n


# ------------------------------------------------------------------ R16.12
def r16_12(rep, prog):
    """lacing: the length of a long extension that is not the last one is written as a run of 255s closed by one byte
    BELOW 255 - the parser stops at the first byte that is not 255.  In the generator, the store that follows the loop of
    255-stores must therefore hold a value the interval analysis bounds to 0..254; a closing byte that can be 255 makes a
    payload of exactly 255*k bytes run into the next extension."""
    from .. import absint
    n = 0
    for f in prog.functions_all:
        if not f.file.endswith('extensions.c'):
            continue
        cf = cfgm.CFG(f)
        loops = cf.natural_loops()
        if not loops:
            continue
        # loops whose body stores the constant 255 through a byte pointer
        for h, latch, body in loops:
            st255 = [(b, i, x) for b, i, x in cf.find(lambda x: x[0] == 'assign' and sx.kind(sx.strip_paren(x[1])) == 'idx' and sx.int_val(sx.strip(x[2])) == 255) if b in body]
            if not st255:
                continue
            base = sx.key(sx.strip(sx.strip_paren(st255[0][2][1])[1]))
            # the first store to the same array after the loop, on the loop's exit path
            after = [(b, i, x) for b, i, x in cf.find(lambda x: x[0] == 'assign' and sx.kind(sx.strip_paren(x[1])) == 'idx' and sx.key(sx.strip(sx.strip_paren(x[1])[1])) == base)
                     if b not in body and cf.dominates(h, b) and sx.int_val(sx.strip(x[2])) != 255]
            if not after:
                continue
            after.sort(key=lambda t: sx.line(t[2]) or 0)
            b, i, x = after[0]
            an = absint.Analyzer(prog, f)
            st = an.state_before_node(b, i, x)
            if st is None:
                continue
            v = an.ev(x[2], st)
            n += 1
            rep.functions.add(f.name)
            inst = '%s:%s closes the run of 255s with a byte below 255 (`%s`)' % (prog.config, f.name, sx.show(x)[:40])
            where = '%s:%s' % (f.file, sx.line(x))
            if not absint.is_top(v) and 0 <= absint.lo(v) and absint.hi(v) <= 254:
                rep.holds('R16.12', inst, where, 'value in %s' % absint.show(v))
            else:
                rep.violated('R16.12', inst, where, 'the closing lacing byte is in %s: when it is 255 the parser reads on, so a payload of exactly 255*k bytes swallows the header of the next extension' % absint.show(v),
                             key='%s:lacing-terminator' % f.name)
    return n


def check(rep, prog, tier):
    r16_12(rep, prog)
    r16_11(rep, prog)
    r16_10(rep, prog)
    r16_9(rep, prog)
    from . import c07
    c07.r07_5(_Renamed(rep, 'R16.7'), prog)
    r16_8(rep, prog)
    r16_1(rep, prog)
    r16_2(rep, prog)
    r16_3(rep, prog)
    r16_4(rep, prog)
    r16_5(rep, prog)
    r16_6(rep, prog)
