"""C10 — multistream / projection = per-stream coding + channel mapping.

R10.1 demixing x mixing = gain*I for every ambisonics order the projection
      encoder can select (constant data, exhaustive), the (rows, cols, size,
      data) arguments of each mapping_matrix_init are mutually consistent and
      the mixing/demixing branches select the same order.
R10.2 Vorbis (family 1) layouts: permutation, stream counts, the source's own
      validate_layout / validate_encoder_layout predicates, RFC 7845 table.
R10.3 one self-delimiting predicate (s != nb_streams-1) at every site.
R10.4 routing pairs: left->(buf,2) right->(buf+1,2) mono->(buf,1) muted->NULL,
      selector bodies partition 0..streams+coupled-1.
R10.5 creation guards dominate allocation / layout stores.
"""
from .. import decide, sx, cfg as cfgm, guards, templates as T, absint
from ..guards import K, I
from ..facts import flatten
from ..compdb import AnalysisBroken

EXPLANATION = (
    'Decided: R10.1 for all five built-in ambisonics orders g*D*M = I within 1e-3 (exhaustive over the constant '
    'matrices, column-major Q15, gain from the MappingMatrix headers), matrix headers/data/sizeof consistent and the '
    'encoder selects mixing and demixing of the same order; R10.2 the 8 Vorbis layouts are valid permutation layouts '
    'equal to RFC 7845 section 5.1.1.2; R10.3 encoder, decoder, validator and pad/unpad use the same self-delimited '
    'predicate s != nb_streams-1; R10.4 decoder/encoder routing pairs (selector, lane offset, stride) and the selector '
    'bodies; R10.5 creation/init argument guards dominate allocation and layout stores. '
    'NOT decided: bit-for-bit equality of multistream decoding with stand-alone decoders, equal duration of streams at run time.')

CONFIGS = {'quick': ['float'], 'thorough': ['float', 'fixed', 'nofloatapi']}

# RFC 7845 section 5.1.1.2 (channel mapping family 1): streams, coupled, mapping
RFC7845 = {
    1: (1, 0, [0]),
    2: (1, 1, [0, 1]),
    3: (2, 1, [0, 2, 1]),
    4: (2, 2, [0, 1, 2, 3]),
    5: (3, 2, [0, 4, 1, 2, 3]),
    6: (4, 2, [0, 4, 1, 2, 3, 5]),
    7: (4, 3, [0, 4, 1, 2, 3, 5, 6]),
    8: (5, 3, [0, 6, 1, 2, 3, 4, 5, 7]),
}


def setup(rep, tier):
    rep.minimum('R10.1', 15)
    rep.minimum('R10.2', 8)
    rep.minimum('R10.3', 5)
    rep.minimum('R10.4', 8)
    rep.minimum('R10.5', 8)
    rep.minimum('R10.6', 6)
    rep.minimum('R10.7', 4)
    rep.minimum('R10.8', 7)
    rep.minimum('R10.9', 2)
    rep.minimum('R10.10', 1)
    rep.minimum('R10.11', 2)
    rep.minimum('R10.12', 1)


# ---------------------------------------------------------------- R10.1

def _order_local(f):
    """the local that receives the ambisonics order: last out-argument of
    get_streams_from_channels"""
    for n in f.calls():
        if sx.callee_name(n) == 'get_streams_from_channels' and n[2]:
            a = sx.strip(n[2][-1])
            if sx.kind(a) == 'addr' and sx.kind(sx.strip(a[1])) == 'local':
                return ('local', sx.strip(a[1])[2])
    raise AnalysisBroken('%s: no get_streams_from_channels(..., &order) call' % f.name)


def _order_at(cf, f, b, i):
    ol = _order_local(f)
    for atom in T.stable_facts(cf, b, i):
        if atom[0] == '==' and atom[2][0] == 'int' and atom[1] == ol:
            return atom[2][1]
    return None


def _matrix_sites(prog, fname):
    f = prog.fn(fname)
    cf = cfgm.CFG(f)
    sites = []
    for b, i, n in T.calls_to(cf, 'mapping_matrix_init'):
        sites.append((f, b, i, n, _order_at(cf, f, b, i)))
    return sites


def _hdr(prog, e):
    """rows/cols/gain argument: a member of a const MappingMatrix object"""
    e = sx.strip(e)
    if sx.kind(e) == 'field' and sx.kind(sx.strip(e[1])) == 'global':
        g = prog.glob(sx.strip(e[1])[1])
        if isinstance(g.get('init'), dict) and e[3] in g['init']:
            return sx.strip(e[1])[1], e[3], g['init'][e[3]]
    v = sx.int_val(e)
    if v is not None:
        return None, None, v
    return None, None, None


def r10_1(rep, prog):
    if not prog.has_fn('opus_projection_ambisonics_encoder_init'):
        rep.unresolved('R10.1', 'opus_projection_ambisonics_encoder_init not found')
        return
    sites = _matrix_sites(prog, 'opus_projection_ambisonics_encoder_init')
    by_order = {}
    for f, b, i, n, order in sites:
        rep.functions.add(f.name)
        where = '%s:%s' % (f.file, sx.line(n))
        args = n[2]
        if len(args) != 6:
            rep.unresolved('R10.1', 'mapping_matrix_init arity changed', where)
            continue
        tgt = sx.show(args[0])
        hdrs = [_hdr(prog, a) for a in args[1:4]]
        data = sx.strip(args[4])
        size = sx.int_val(args[5])
        if any(h[2] is None for h in hdrs) or sx.kind(data) != 'global' or size is None or order is None:
            rep.unresolved('R10.1', 'cannot resolve mapping_matrix_init arguments / guarding order at ' + where)
            continue
        rows, cols, gain = hdrs[0][2], hdrs[1][2], hdrs[2][2]
        dvals = [x for x in flatten(prog.table(data[1]))]
        inst = '%s:order+1=%d %s' % (prog.config, order, tgt)
        problems = []
        if len({h[0] for h in hdrs}) != 1:
            problems.append('rows/cols/gain come from different header objects %s' % [h[0] for h in hdrs])
        if [h[1] for h in hdrs] != ['rows', 'cols', 'gain']:
            problems.append('header members passed in the wrong positions: %s' % [h[1] for h in hdrs])
        if rows * cols != len(dvals):
            problems.append('rows*cols=%d but %s has %d entries' % (rows * cols, data[1], len(dvals)))
        if size != 2 * len(dvals):
            problems.append('size argument %d != sizeof(%s)=%d' % (size, data[1], 2 * len(dvals)))
        want = order * order + 2
        if rows != want or cols != want:
            problems.append('dimensions %dx%d, expected %d=(order+1)^2+2 channels for this branch' % (rows, cols, want))
        if problems:
            rep.violated('R10.1', inst, where, '; '.join(problems), key='init:%d:%s' % (order, tgt))
        else:
            rep.holds('R10.1', inst, where, '%s %dx%d gain %d, size %d consistent' % (data[1], rows, cols, gain, size))
        by_order.setdefault(order, {})[tgt] = (rows, cols, gain, dvals, data[1], where)
    for order, d in sorted(by_order.items()):
        mix = [v for k, v in d.items() if 'demix' not in k]
        dem = [v for k, v in d.items() if 'demix' in k]
        inst = '%s:order+1=%d g*D*M=I' % (prog.config, order)
        if len(mix) != 1 or len(dem) != 1:
            rep.unresolved('R10.1', 'expected one mixing and one demixing init for order+1=%d, got %s' % (order, list(d)))
            continue
        (mr, mc, mg, mv, mname, mw), (dr, dc, dg, dv, dname, dw) = mix[0], dem[0]
        if mc != dr and mr != dc:
            rep.violated('R10.1', inst, dw, 'shapes do not compose: %dx%d and %dx%d' % (dr, dc, mr, mc), key='shape:%d' % order)
            continue
        g = 10.0 ** ((mg + dg) / 256.0 / 20.0)
        # column-major: element (row r, col c) at data[rows*c + r]
        n = mr
        worst = 0.0
        worst_at = None
        for r in range(dr):
            for c in range(mc):
                acc = 0
                for k in range(dc):
                    acc += dv[dr * k + r] * mv[mr * c + k]
                val = g * acc / (32768.0 * 32768.0)
                err = abs(val - (1.0 if r == c else 0.0))
                if err > worst:
                    worst, worst_at = err, (r, c)
        rep.count(dr * mc * dc)
        if worst > 1e-3:
            rep.violated('R10.1', inst, dw, 'max |g*D*M - I| = %.4g at %s (%s x %s, gain %d)' % (worst, worst_at, dname, mname, mg + dg), key='identity:%d' % order)
        else:
            rep.holds('R10.1', inst, dw, 'max |g*D*M - I| = %.3g over %dx%d (%s x %s, gain %d/256 dB)' % (worst, dr, mc, dname, mname, mg + dg))
    if sorted(by_order) != [2, 3, 4, 5, 6]:
        rep.unresolved('R10.1', 'orders found %s, expected 2..6' % sorted(by_order))
    # get_size uses the same header objects per order as init
    f = prog.fn('opus_projection_ambisonics_encoder_get_size')
    cf = cfgm.CFG(f)
    per = {}
    for b, i, n in T.stores_where(cf, lambda lv, n: sx.kind(lv) == 'local' and lv[1].endswith(('_rows', '_cols'))):
        if n[0] != 'assign':
            continue
        h = _hdr(prog, n[2])
        order = _order_at(cf, f, b, i)
        per.setdefault(order, []).append((n[1][1], h))
    for order, lst in sorted(per.items(), key=lambda x: str(x[0])):
        want = (order or 0) ** 2 + 2
        bad = [x for x in lst if x[1][2] != want]
        inst = '%s:get_size order+1=%s' % (prog.config, order)
        if bad or order is None:
            rep.violated('R10.1', inst, f.where(), 'size query uses dimensions %s, expected %d' % ([(a, h[0], h[2]) for a, h in bad], want), key='getsize:%s' % order)
        else:
            rep.holds('R10.1', inst, f.where(), 'rows/cols = %d from %s' % (want, sorted({h[0] for a, h in lst})))


# ---------------------------------------------------------------- R10.2

def r10_2(rep, prog):
    g = prog.glob('vorbis_mappings')
    tab = g['init']
    if len(tab) != 8:
        rep.violated('R10.2', '%s:vorbis_mappings length' % prog.config, g['loc'], '%d rows, expected 8' % len(tab), key='len')
        return
    for idx, row in enumerate(tab):
        n = idx + 1
        streams, coupled, mapping = row['nb_streams'], row['nb_coupled_streams'], row['mapping'][:n]
        inst = '%s:vorbis_mappings[%d] (%d channels)' % (prog.config, idx, n)
        problems = []
        if streams + coupled != n:
            problems.append('streams+coupled=%d != %d channels' % (streams + coupled, n))
        if sorted(mapping) != list(range(n)):
            problems.append('mapping %s is not a permutation of 0..%d' % (mapping, n - 1))
        if not (1 <= streams <= 255 and 0 <= coupled <= streams):
            problems.append('stream counts out of range')
        # validate_layout: every entry < streams+coupled (or 255)
        if any(m >= streams + coupled and m != 255 for m in mapping):
            problems.append('fails validate_layout')
        # validate_encoder_layout: each stream has its left/right or mono channel
        for s in range(streams):
            if s < coupled:
                if 2 * s not in mapping or 2 * s + 1 not in mapping:
                    problems.append('coupled stream %d lacks a left or right channel' % s)
            elif s + coupled not in mapping:
                problems.append('mono stream %d has no channel' % s)
        if (streams, coupled, mapping) != RFC7845[n]:
            problems.append('differs from RFC 7845 5.1.1.2: %s' % (RFC7845[n],))
        if n >= 6:
            # LFE is output channel 3 (5.1: index 5 in Vorbis order) carried by the last stream
            lfe_stream_channel = streams + coupled - 1
            if mapping.index(lfe_stream_channel) != {6: 5, 7: 6, 8: 7}[n]:
                problems.append('LFE channel is not mapped to the last (mono) stream')
        if any(x != 0 for x in row['mapping'][n:]):
            problems.append('trailing mapping entries are not zero')
        if problems:
            rep.violated('R10.2', inst, g['loc'], '; '.join(problems), key='vorbis:%d' % n)
        else:
            rep.holds('R10.2', inst, g['loc'], 'streams=%d coupled=%d mapping=%s' % (streams, coupled, mapping))
    # lfe_stream = nb_streams-1 for channels>=6 in the surround encoder
    if prog.has_fn('opus_multistream_surround_encoder_init'):
        f = prog.fn('opus_multistream_surround_encoder_init')
        cf = cfgm.CFG(f)
        st = T.stores_where(cf, lambda lv, n: sx.kind(lv) == 'field' and lv[3] == 'lfe_stream')
        forms = sorted({sx.show(n[2]) for b, i, n in st if n[0] == 'assign'})
        ok = forms == ['(*streams - 1)', '-1'] or forms == ['-1', '(*streams - 1)']
        (rep.holds if ok else rep.violated)('R10.2', '%s:lfe_stream assignments' % prog.config, f.where(),
                                            'lfe_stream takes %s' % forms, **({} if ok else {'key': 'lfe'}))


# ---------------------------------------------------------------- R10.3

SD_CALLEES = {'opus_packet_parse_impl': 2, 'opus_decode_native': 6, 'opus_repacketizer_out_range_impl': 5,
              'opus_repacketizer_cat_impl': 3}
SD_SITES = ['opus_multistream_packet_validate', 'opus_multistream_decode_native', 'opus_multistream_encode_native',
            'opus_multistream_packet_unpad', 'opus_multistream_packet_pad']


def _single_def(f, local):
    defs = []
    for n in f.all_nodes():
        if n[0] == 'assign' and sx.kind(n[1]) == 'local' and n[1][2] == local[2]:
            defs.append(n[2])
        if n[0] == 'decls':
            for d in n[1]:
                if d[0] == 'decl' and d[2] == local[2] and d[3] is not None:
                    defs.append(d[3])
    return defs[0] if len(defs) == 1 else None


def _nstreams(e):
    """is e the number of streams (param nb_streams or ...layout.nb_streams)?"""
    e = sx.strip(e)
    if sx.kind(e) == 'param' and 'streams' in e[2]:
        return True
    if sx.kind(e) == 'field' and e[3] == 'nb_streams':
        return True
    return False


def r10_3(rep, prog):
    for fname in SD_SITES:
        if not prog.has_fn(fname):
            rep.unresolved('R10.3', 'function %s not found' % fname)
            continue
        f = prog.fn(fname)
        rep.functions.add(fname)
        cf = cfgm.CFG(f)
        found = 0
        for b, i, n in T.calls_to(cf, tuple(SD_CALLEES)):
            cn = sx.callee_name(n)
            callee = prog.fn(cn)
            pi = callee.param_index('self_delimited')
            if pi is None:
                rep.unresolved('R10.3', '%s has no self_delimited parameter' % cn)
                continue
            a = sx.strip(n[2][pi])
            if sx.kind(a) == 'local':
                d = _single_def(f, a)
                a = sx.strip(d) if d is not None else a
            where = '%s:%s' % (f.file, sx.line(n))
            inst = '%s:%s -> %s(self_delimited)' % (prog.config, fname, cn)
            found += 1
            ok = False
            detail = sx.show(a)
            if sx.kind(a) == 'bin' and a[1] == '!=' and sx.kind(sx.strip(a[2])) == 'local':
                r = sx.strip(a[3])
                if sx.kind(r) == 'bin' and r[1] == '-' and _nstreams(r[2]) and sx.int_val(r[3]) == 1:
                    # s must be the stream loop counter bounded by the same count
                    s_id = sx.strip(a[2])[2]
                    for atom in T.stable_facts(cf, b, None):
                        if atom[0] == '<' and atom[1] == ('local', s_id) and atom[2] == sx.key(sx.strip(r[2])):
                            ok = True
                    if not ok:
                        detail += ' (but the stream index is not bounded by the same stream count here)'
            elif sx.int_val(a) == 1:
                # constant 1 is right only inside a loop s < nb_streams-1
                for atom in T.stable_facts(cf, b, None):
                    if atom[0] == '<' and atom[1][0] == 'local' and atom[2][0] == 'bin' and atom[2][1] == '-' and atom[2][3] == ('int', 1):
                        ok = True
                detail += ' under loop guard s < nb_streams-1' if ok else ' without a guard s < nb_streams-1'
            if ok:
                rep.holds('R10.3', inst, where, detail)
            else:
                rep.violated('R10.3', inst, where, 'self-delimited flag is %s, expected (s != nb_streams-1)' % detail, key='%s:%s' % (fname, cn))
        if not found:
            rep.unresolved('R10.3', 'no call with a self_delimited argument in %s' % fname)


# ---------------------------------------------------------------- R10.4

SEL = {'get_left_channel': ('left', 0, 2), 'get_right_channel': ('right', 1, 2), 'get_mono_channel': ('mono', 0, 1)}


def _lane(e):
    """(base, offset) of a source pointer: buf -> 0, buf+1 -> 1"""
    e = sx.strip(e)
    if sx.kind(e) == 'bin' and e[1] == '+':
        o = sx.int_val(e[3])
        if o is not None:
            return sx.key(sx.strip(e[2])), o
    if sx.int_val(e) == 0:
        return None, None
    return sx.key(e), 0


def r10_4(rep, prog):
    # selector bodies
    want = {'get_left_channel': lambda r, sid: sx.kind(r) == 'bin' and r[1] == '*' and sx.key(sx.strip(r[2])) == sid and sx.int_val(r[3]) == 2,
            'get_right_channel': lambda r, sid: sx.kind(r) == 'bin' and r[1] == '+' and sx.int_val(r[3]) == 1 and sx.kind(sx.strip(r[2])) == 'bin'
            and sx.strip(r[2])[1] == '*' and sx.key(sx.strip(sx.strip(r[2])[2])) == sid and sx.int_val(sx.strip(r[2])[3]) == 2,
            'get_mono_channel': lambda r, sid: sx.kind(r) == 'bin' and r[1] == '+' and sx.key(sx.strip(r[2])) == sid
            and sx.kind(sx.strip(r[3])) == 'field' and sx.strip(r[3])[3] == 'nb_coupled_streams'}
    for name, pred in want.items():
        f = prog.fn(name)
        rep.functions.add(name)
        cf = cfgm.CFG(f)
        sid = ('param', 1)
        conds = [cf.cond(b) for b in cf.blocks if cf.cond(b) is not None]
        eqs = [c for c in conds if sx.kind(c) == 'bin' and c[1] == '==']
        ok = len(eqs) == 1 and sx.kind(sx.strip(eqs[0][2])) == 'idx' and sx.strip(sx.strip(eqs[0][2])[1])[-2 if isinstance(sx.strip(sx.strip(eqs[0][2])[1])[-1], dict) else -1] in ('mapping', 0, 1) and pred(sx.strip(eqs[0][3]), sid)
        if len(eqs) == 1 and pred(sx.strip(eqs[0][3]), sid) and 'mapping' in sx.show(eqs[0][2]):
            rep.holds('R10.4', '%s:%s selects %s' % (prog.config, name, sx.show(eqs[0])), f.where(), 'selector body')
        else:
            rep.violated('R10.4', '%s:%s selector body' % (prog.config, name), f.where(),
                         'expected mapping[i]==%s, found %s' % ({'get_left_channel': 'stream_id*2', 'get_right_channel': 'stream_id*2+1', 'get_mono_channel': 'stream_id+nb_coupled_streams'}[name], [sx.show(c) for c in eqs]), key=name)
    # decoder routing
    f = prog.fn('opus_multistream_decode_native')
    rep.functions.add(f.name)
    cf = cfgm.CFG(f)
    cpi = f.param_index('copy_channel_out')
    seen = set()
    for b, i, n in cf.find(lambda n: n[0] == 'call' and sx.callee_name(n) is None):
        root = sx.strip(n[1])
        while sx.kind(root) in ('deref', 'paren'):
            root = sx.strip(root[1])
        if sx.kind(root) != 'param' or root[1] != cpi:
            continue
        args = n[2]
        where = '%s:%s' % (f.file, sx.line(n))
        sel = None
        coupled = None
        muted = False
        for cond, pol, gb in cfgm.guards_of(cf, b):
            for m in sx.walk(cond):
                if m[0] == 'call' and sx.callee_name(m) in SEL and pol:
                    sel = sel or sx.callee_name(m)
            for a in guards.atoms(cond, pol):
                if a[0] == '<' and a[1][0] == 'local' and a[2][0] == 'field' and a[2][2] == 'nb_coupled_streams':
                    coupled = True
                if a[0] == '<=' and a[2][0] == 'local' and a[1][0] == 'field' and a[1][2] == 'nb_coupled_streams':
                    coupled = False
                if a[0] == '==' and a[2] == ('int', 255):
                    muted = True
        base, off = _lane(args[3])
        stride = sx.int_val(args[4])
        if sel:
            kind_, woff, wstride = SEL[sel]
            wc = kind_ != 'mono'
            ok = (off == woff and stride == wstride and coupled == wc)
            inst = '%s:decoder %s -> src lane %s stride %s (coupled branch=%s)' % (prog.config, sel, off, stride, coupled)
            seen.add(kind_)
            (rep.holds if ok else rep.violated)('R10.4', inst, where, 'expected lane %d stride %d coupled=%s' % (woff, wstride, wc),
                                                **({} if ok else {'key': 'dec:' + kind_}))
        elif muted:
            ok = base is None and stride == 0
            seen.add('muted')
            (rep.holds if ok else rep.violated)('R10.4', '%s:decoder muted channel -> NULL source' % prog.config, where,
                                                'source %s stride %s' % (sx.show(args[3]), stride), **({} if ok else {'key': 'dec:muted'}))
        else:
            rep.unresolved('R10.4', 'copy_channel_out call not under a selector loop or the mapping==255 test', where)
    if seen != {'left', 'right', 'mono', 'muted'}:
        rep.unresolved('R10.4', 'decoder routing sites found: %s' % sorted(seen))
    # encoder routing
    f = prog.fn('opus_multistream_encode_native')
    rep.functions.add(f.name)
    cf = cfgm.CFG(f)
    cpi = f.param_index('copy_channel_in')
    seen = set()
    for b, i, n in cf.find(lambda n: n[0] == 'call' and sx.callee_name(n) is None):
        root = sx.strip(n[1])
        while sx.kind(root) in ('deref', 'paren'):
            root = sx.strip(root[1])
        if sx.kind(root) != 'param' or root[1] != cpi:
            continue
        args = n[2]
        where = '%s:%s' % (f.file, sx.line(n))
        ch = sx.strip(args[4])
        d = _single_def(f, ch) if sx.kind(ch) == 'local' else None
        sel = sx.callee_name(sx.strip(d)) if d is not None else None
        base, off = _lane(args[0])
        stride = sx.int_val(args[1])
        if sel in SEL:
            kind_, woff, wstride = SEL[sel]
            ok = off == woff and stride == wstride
            seen.add(kind_)
            (rep.holds if ok else rep.violated)('R10.4', '%s:encoder %s -> dst lane %s stride %s' % (prog.config, sel, off, stride), where,
                                                'expected lane %d stride %d' % (woff, wstride), **({} if ok else {'key': 'enc:' + kind_}))
        else:
            rep.unresolved('R10.4', 'copy_channel_in channel argument %s is not the result of a selector' % sx.show(ch), where)
    if seen != {'left', 'right', 'mono'}:
        rep.unresolved('R10.4', 'encoder routing sites found: %s' % sorted(seen))


# ---------------------------------------------------------------- R10.5

def r10_5(rep, prog):
    # (function, sinks, required atoms by parameter name)
    def P(f, n):
        i = f.param_index(n)
        if i is None:
            raise AnalysisBroken('parameter %s of %s not found' % (n, f.name))
        return ('param', i)
    specs = [
        ('opus_multistream_decoder_init', 'layout-store'),
        ('opus_multistream_decoder_create', 'alloc'),
        ('opus_multistream_encoder_init_impl', 'layout-store'),
        ('opus_multistream_encoder_create', 'alloc'),
    ]
    for fname, sinkkind in specs:
        f = prog.fn(fname)
        rep.functions.add(fname)
        cf = cfgm.CFG(f)
        if sinkkind == 'alloc':
            sinks = T.calls_to(cf, ('opus_alloc', 'malloc'))
        else:
            sinks = T.stores_where(cf, lambda lv, n: sx.kind(lv) == 'field' and lv[3] in ('nb_channels', 'nb_streams', 'nb_coupled_streams'))
        ch, st_, cs = P(f, 'channels'), P(f, 'streams'), P(f, 'coupled_streams')
        req = [('channels<=255', ('<=', ch, I(255))), ('channels>=1', ('<=', I(1), ch)),
               ('coupled<=streams', ('<=', cs, st_)), ('streams>=1', ('<=', I(1), st_)), ('coupled>=0', ('<=', I(0), cs)),
               ('streams<=255-coupled', ('<=', st_, ('bin', '-', I(255), cs)))]
        T.t_guard(rep, 'R10.5', f, cf, sinks[:1], req, sinkkind)
    # validate_layout failure -> BAD_ARG before any sub-decoder init
    for fname, callee in (('opus_multistream_decoder_init', 'opus_decoder_init'), ('opus_multistream_encoder_init_impl', 'opus_encoder_init')):
        f = prog.fn(fname)
        cf = cfgm.CFG(f)
        sinks = T.calls_to(cf, callee)
        vk = None
        for n in f.calls():
            if sx.callee_name(n) == 'validate_layout':
                vk = sx.key(n)
        if vk is None:
            rep.violated('R10.5', '%s: validate_layout called' % fname, f.where(), 'no call to validate_layout', key=fname + ':validate')
            continue
        T.t_guard(rep, 'R10.5', f, cf, sinks, [('validate_layout(...) != 0', ('!=', vk, I(0)))], callee)
    # projection decoder: matrix dims checked against channel counts before use
    if prog.has_fn('opus_projection_decoder_init'):
        f = prog.fn('opus_projection_decoder_init')
        cf = cfgm.CFG(f)
        sinks = T.calls_to(cf, 'mapping_matrix_init')
        known = T.stable_facts(cf, sinks[0][0], sinks[0][1]) if sinks else []
        pi = f.param_index('demixing_matrix_size')
        ok = False
        for a in known:
            if a[0] == '==' and a[2] == ('param', pi) and a[1][0] == 'local':
                d = None
                for l in f.locals.values():
                    if l['id'] == a[1][1]:
                        d = _single_def(f, ['local', l['name'], l['id']])
                # expected size = streams-sum * channels * sizeof(opus_int16)
                txt = sx.show(d) if d is not None else ''
                ok = d is not None and 'channels' in txt and sx.int_val(sx.strip(sx.strip(d)[3] if sx.kind(sx.strip(d)) == 'bin' else d)) == 2
        (rep.holds if ok else rep.violated)('R10.5', '%s:opus_projection_decoder_init matrix size guard' % prog.config, f.where(),
                                            'facts before mapping_matrix_init: %s' % [T.show_atom(a) for a in known][:5],
                                            **({} if ok else {'key': 'projdec'}))


def r10_6(rep, prog):
    """every channel search starts from the beginning of the mapping: the
    cursor passed to get_left/right/mono_channel is -1 when its loop is
    entered (reaching definitions), so that no channel mapped to the stream
    is skipped whatever the order of the mapping table"""
    sel = ('get_left_channel', 'get_right_channel', 'get_mono_channel')
    n = 0
    for fname in ('opus_multistream_decode_native', 'opus_multistream_encode_native', 'opus_multistream_surround_encoder_init', 'surround_rate_allocation', 'validate_encoder_layout'):
        if not prog.has_fn(fname):
            continue
        f = prog.fn(fname)
        cf = cfgm.CFG(f)
        for b, i, c in cf.find(lambda c: c[0] == 'call' and sx.callee_name(c) in sel):
            cur = sx.strip(c[2][2])
            where = '%s:%s' % (f.file, sx.line(c))
            inst = '%s:%s %s search starts at -1' % (prog.config, fname, sx.callee_name(c))
            n += 1
            if sx.int_val(cur) == -1:
                rep.holds('R10.6', inst, where, 'constant -1')
                continue
            if sx.kind(cur) != 'local':
                rep.unresolved('R10.6', 'cursor argument `%s` is not a local' % sx.show(cur), where)
                continue
            ds, defs = cfgm.defs_at(cf, cur[2], b, i)
            # definitions inside the loop that contains the call (they are the `prev = chan` advance) are fine
            loop = {x for x in cf.reachable_from(b) if b in cf.reachable_from(x)} | {b}
            outside = [defs[d] for d in ds if defs[d][0] not in loop or not cf.dominates(b, defs[d][0])]
            bad = [d for d in outside if sx.int_val(d[2][2]) != -1]
            if outside and not bad:
                rep.holds('R10.6', inst, where, 'entered with %s' % sorted({sx.show(d[2]) for d in outside}))
            else:
                rep.violated('R10.6', inst, where, 'the loop can be entered with the cursor left by %s: channels mapped to this stream at lower indices are never visited' %
                             (sorted({'`%s` (line %s)' % (sx.show(d[2]), sx.line(d[2])) for d in bad}) or 'no definition'), key='%s:%s:cursor' % (fname, sx.callee_name(c)))
    if n < 6:
        rep.unresolved('R10.6', 'only %d channel-selector calls found' % n)


# ------------------------------------------------------------------ R10.7 / R10.8
def r10_7(rep, prog):
    """encoder layout validation visits every stream id in its own role: left/right for ids [0, coupled),
    mono for ids [coupled, streams).  Interval analysis of validate_encoder_layout partitioned over small
    concrete (streams, coupled) pairs; the hull of the id passed at each call site is compared."""
    from .. import absint
    f = prog.fn('validate_encoder_layout')
    rep.functions.add(f.name)
    cg = cfgm.CFG(f)
    kl = ('param', 0)
    want = {'get_left_channel': 'coupled', 'get_right_channel': 'coupled', 'get_mono_channel': 'mono'}
    sites = [(b, i, c) for b, i, c in T.calls_to(cg, tuple(want))]
    inst = '%s:validate_encoder_layout asks every stream id for its channels in the right role' % prog.config
    if len(sites) < 3:
        rep.unresolved('R10.7', inst + ': only %d channel queries found' % len(sites))
        return
    bad = []
    n = 0
    for NS in range(1, 5):
        for NC in range(0, NS + 1):
            entry = {('field', kl, 'nb_streams'): absint.const(NS), ('field', kl, 'nb_coupled_streams'): absint.const(NC)}
            an = absint.Analyzer(prog, f, entry_state=entry, call_summary=lambda *a, **k: None, havoc_fields_on_call=False)
            for b, i, c in sites:
                n += 1
                role = want[sx.callee_name(c)]
                exp = (0, NC - 1) if role == 'coupled' else (NC, NS - 1)
                st = an.state_at(b, i)
                if st is None:
                    got = None
                else:
                    v = an.ev(c[2][1], st)
                    got = None if not v else (absint.lo(v), absint.hi(v))
                if exp[0] > exp[1]:
                    if got is not None:
                        bad.append((NS, NC, sx.callee_name(c), got, 'not reached'))
                elif got != exp:
                    bad.append((NS, NC, sx.callee_name(c), got, exp))
    # each query refuses the layout on its own: the branch taken when the answer is -1 returns 0 at once (a missing left
    # channel is not excused by a present right one)
    for b, i, c in sites:
        cb = [bb for bb in cg.blocks if cg.cond(bb) is not None and any(x is c for x in sx.walk(cg.cond(bb)))]
        inst2 = '%s:validate_encoder_layout refuses the layout when %s finds no channel (line %s)' % (prog.config, sx.callee_name(c), sx.line(c))
        if not cb:
            rep.unresolved('R10.7', inst2 + ': the answer is not tested in a branch condition')
            continue
        cnd = sx.strip_paren(cg.cond(cb[0]))
        pol_missing = None
        if sx.kind(cnd) == 'bin' and cnd[1] in ('==', '!=') and any(sx.int_val(sx.strip(y)) == -1 for y in (cnd[2], cnd[3])):
            pol_missing = cnd[1] == '=='
        if pol_missing is None:
            rep.unresolved('R10.7', inst2 + ': test `%s` not recognised' % sx.show(cnd)[:40])
            continue
        act = T.failing_edge_action(cg, cb[0], not pol_missing)
        if act == ('return', 0):
            rep.holds('R10.7', inst2, '%s:%s' % (f.file, sx.line(c)), 'a missing channel returns 0 directly')
        else:
            rep.violated('R10.7', inst2, '%s:%s' % (f.file, sx.line(c)), 'when the query answers -1 the function goes on (%s) instead of returning 0: a coupled stream with only one side fed is accepted, and encoding reads input channel -1' % (act,),
                         key='validate-encoder-layout:%s' % sx.callee_name(c))
    if bad:
        b0 = bad[0]
        rep.violated('R10.7', inst, f.where(), 'with %d streams of which %d coupled, %s is asked for stream ids %s, expected %s (%d of %d cases differ): some stream is accepted without an input channel' % (
            b0[0], b0[1], b0[2], b0[3], b0[4], len(bad), n), key='validate-encoder-layout-ids')
    else:
        rep.holds('R10.7', inst, f.where(), '%d (streams, coupled, call site) cases' % n)


def r10_8(rep, prog):
    """a mapping matrix is stored column after column with ITS OWN row count as the stride: every subscript of
    the data pointer of matrix M multiplies by M->rows (never by a channel / stream count, which is smaller
    for the matrices that carry more rows than the layout uses)."""
    n = 0
    for f in prog.functions_all:
        if not f.file.startswith('src/'):
            continue
        datap = {}
        for lv, r in [(lv, r) for l in f.locals.values() for lv, r in decide.find_assign(f, l['name'])]:
            rr = sx.strip(r)
            if sx.kind(rr) == 'call' and sx.callee_name(rr) == 'mapping_matrix_get_data' and lv is not None and sx.kind(sx.strip(lv)) == 'local':
                datap[sx.strip(lv)[2]] = sx.strip(rr[2][0])
        if not datap:
            continue
        rep.functions.add(f.name)
        cg = cfgm.CFG(f)
        seen = set()
        for b, i, s_ in cg.positions():
            for x in sx.walk(s_):
                if sx.kind(x) == 'idx' and sx.kind(sx.strip(x[1])) == 'local' and sx.strip(x[1])[2] in datap:
                    M = datap[sx.strip(x[1])[2]]
                    ix = sx.strip(x[2])
                    if sx.kind(ix) == 'local':
                        cur, defs = cfgm.defs_at(cg, ix[2], b, i)
                        if len(cur) == 1 and defs[next(iter(cur))][2][0] == 'assign':
                            ix = sx.strip(defs[next(iter(cur))][2][2])
                    k = (sx.key(ix), sx.key(M))
                    if k in seen:
                        continue
                    seen.add(k)
                    strides = []
                    for y in sx.walk(ix):
                        if sx.kind(y) == 'bin' and y[1] == '*':
                            strides += [sx.strip(y[2]), sx.strip(y[3])]
                    if not strides:
                        continue    # flat walk over the whole array (initialisation copy), not 2-D addressing
                    n += 1
                    ok = any(sx.kind(t) == 'field' and t[3] == 'rows' and sx.key(sx.strip(t[1])) == sx.key(M) for t in strides)
                    inst = '%s:%s indexes the data of `%s` with that matrix\'s row count as stride' % (prog.config, f.name, sx.show(M))
                    where = '%s:%s' % (f.file, sx.line(x) or sx.line(s_))
                    if ok:
                        rep.holds('R10.8', inst, where, 'index `%s`' % sx.show(ix))
                    else:
                        rep.violated('R10.8', inst, where, 'index `%s` does not multiply by %s->rows: for matrices with more rows than the layout uses the wrong coefficients are read' % (sx.show(ix), sx.show(M)),
                                     key='%s:%s' % (f.name, sx.show(ix)))
    return n


# ------------------------------------------------------------------ R10.9
def r10_9(rep, prog):
    """the packet-does-not-fit refusal (OPUS_BUFFER_TOO_SMALL) belongs to normal decoding only.  With decode_fec set a
    frame_size shorter than the packet is a legal request (the decoder conceals frame_size samples); the single-stream
    decoder returns from its FEC branch before that test, so the multistream decoder - which must equal stand-alone
    decoding stream by stream - may not reach its own copy of the test when decode_fec is non-zero."""
    n = 0
    for fname in ('opus_decode_native', 'opus_multistream_decode_native'):
        if not prog.has_fn(fname):
            continue
        f = prog.fn(fname)
        pi = f.param_index('decode_fec')
        if pi is None:
            continue
        cf = cfgm.CFG(f)
        rets = [(b, i, s_) for b, i, s_ in T.returns_of(cf) if len(s_) > 1 and sx.int_val(sx.strip(s_[1])) == -2]
        if not rets:
            continue
        rep.functions.add(fname)
        feas = decide.feasible_blocks(cf, {('param', pi): 1}, entry=True)
        for b, i, s_ in rets:
            # only the refusals that compare a packet duration with frame_size
            g = cfgm.guards_of(cf, b)
            if not any(c is not None and any(sx.kind(y) == 'param' and y[2] == 'frame_size' for y in sx.walk(c)) for c, pol, gb in g[:3]):
                continue
            n += 1
            inst = '%s:%s refuses a packet longer than frame_size only in normal decoding' % (prog.config, fname)
            where = '%s:%s' % (f.file, sx.line(s_))
            if b in feas:
                rep.violated('R10.9', inst, where, 'the OPUS_BUFFER_TOO_SMALL return under `%s` is reachable with decode_fec != 0: a FEC request shorter than the packet is refused here while the single-stream decoder conceals it' % ' && '.join(sx.show(c) for c, pol, gb in g[:2] if c is not None)[:80],
                             key=fname + ':fec-capacity')
            else:
                rep.holds('R10.9', inst, where, 'not reachable with decode_fec != 0')
    return n


# ------------------------------------------------------------------ R10.10
def r10_10(rep, prog):
    """equal duration of the streams of one multistream packet: the per-stream duration that
    opus_multistream_packet_validate compares and returns is the duration of the whole stream packet - it depends on
    the packet's frame count (opus_packet_get_nb_samples, or frame count x samples per frame), not on the TOC alone."""
    if not prog.has_fn('opus_multistream_packet_validate'):
        rep.unresolved('R10.10', '%s: opus_multistream_packet_validate not found' % prog.config)
        return 0
    f = prog.fn('opus_multistream_packet_validate')
    rep.functions.add(f.name)
    cf = cfgm.CFG(f)
    rets = [(b, i, s_) for b, i, s_ in T.returns_of(cf) if len(s_) > 1 and sx.kind(sx.strip(s_[1])) == 'local']
    inst = '%s:opus_multistream_packet_validate measures each stream by its whole duration' % prog.config
    if not rets:
        rep.unresolved('R10.10', inst + ': no return of a local')
        return 0
    rets.sort(key=lambda r: sx.line(r[2]) or 0)
    rets = [rets[-1]]      # the success return at the end (earlier ones pass an error code on)
    loc = sx.strip(rets[0][2][1])
    seen, calls, work = set(), set(), [loc]
    uses_count = False
    while work:
        x = work.pop()
        for y in sx.walk(x):
            if sx.kind(y) == 'call':
                calls.add(sx.callee_name(y))
            if sx.kind(y) == 'local' and y[2] not in seen:
                seen.add(y[2])
                if y[1] == 'count':
                    uses_count = True
                work += [r for lv, r in decide.find_assign(f, y[1])]
    ok = 'opus_packet_get_nb_samples' in calls or ('opus_packet_get_samples_per_frame' in calls and uses_count and 'opus_packet_parse_impl' in calls)
    where = '%s:%s' % (f.file, sx.line(rets[0][2]))
    if ok:
        rep.holds('R10.10', inst, where, 'returned value derives from %s' % sorted(c for c in calls if c))
    else:
        rep.violated('R10.10', inst, where, 'the returned duration derives from %s only: the frame count is ignored, so streams of different duration (2 x 20 ms next to 1 x 20 ms) pass validation' % sorted(c for c in calls if c),
                     key='validate-duration')
    return 1


# ------------------------------------------------------------------ R10.11
def _null_unsafe(prog, g, k, memo, depth=0):
    """(where, text) of a dereference of pointer parameter k of g that is reachable when the parameter is NULL at entry
    (interval analysis from that entry state: conditions on the parameter and on flags set under them are decided, the rest is unknown), directly or through a
    callee the parameter is handed to; None if there is none"""
    key = (g.name, k)
    if key in memo:
        return memo[key]
    memo[key] = None
    if depth > 6:
        return None
    pk = ('param', k)
    # interval analysis with the pointer parameter as the integer 0 at entry: constants stored under conditions on the
    # parameter (`if (len==0 || data==NULL) do_plc = 1;`) are propagated, unreachable blocks have no state
    an = absint.Analyzer(prog, g, entry_state={pk: absint.const(0)})
    cf = an.cf
    feas = {b for b in cf.blocks if an.IN.get(b) is not None}
    asg = set()
    for b in cf.blocks:
        for s_ in cf.blocks[b]['stmts']:
            for n in sx.walk(s_):
                if n[0] == 'assign' and sx.key(sx.strip_paren(n[1])) == pk:
                    asg.add(b)            # `data += n` / `data++` keep an invalid pointer invalid; only a plain re-assignment ends the tracking
    stale = set()
    for a in asg:
        stale |= {a} | cf.reachable_from(a)
    out = None
    for b in sorted(feas - stale, reverse=True):
        items = list(cf.blocks[b]['stmts'])
        c = cf.cond(b)
        if c is not None:
            items.append(c)
        for s_ in items:
            for n in sx.walk(s_):
                if sx.kind(n) in ('deref', 'idx') and sx.key(sx.strip(n[1])) == pk:
                    out = ('%s:%s' % (g.file, sx.line(n) or sx.line(s_)), '`%s` in %s' % (sx.show(n)[:30], g.name))
                    break
                if sx.kind(n) == 'call':
                    for ai, a in enumerate(n[2]):
                        if sx.key(sx.strip(a)) == pk:
                            fs, ext, ok = prog.callees(g, n)
                            for h in fs:
                                if ai < len(h.params):
                                    r = _null_unsafe(prog, h, ai, memo, depth + 1)
                                    if r:
                                        out = ('%s:%s' % (g.file, sx.line(n)), '%s(%s) -> %s' % (h.name, sx.show(a)[:12], r[1]))
                                        break
                if out:
                    break
            if out:
                break
        if out:
            break
    memo[key] = out
    return out


def r10_11(rep, prog):
    """"Use a NULL pointer to indicate packet loss" (opus.h, opus_multistream.h, opus_projection.h): a decode call with
    data == NULL conceals, whatever len says.  The stand-alone decoder tests `len==0 || data==NULL`; the multistream
    decoder must equal it stream by stream, so a NULL payload may not reach a parser there either."""
    n = 0
    memo = {}
    for fname in ('opus_decode_native', 'opus_multistream_decode_native'):
        if not prog.has_fn(fname):
            continue
        f = prog.fn(fname)
        k = f.param_index('data')
        if k is None:
            continue
        rep.functions.add(fname)
        n += 1
        inst = '%s:%s conceals when data == NULL, whatever len is' % (prog.config, fname)
        r = _null_unsafe(prog, f, k, memo)
        if r is None:
            rep.holds('R10.11', inst, f.where(), 'no dereference of the payload pointer (directly or through %d analysed callees) is reachable with data == NULL' % max(0, len(memo) - 1))
        else:
            rep.violated('R10.11', inst, r[0], 'with data == NULL and len > 0 the payload pointer reaches %s: the call crashes where the stand-alone decoder conceals' % r[1], key=fname + ':null-payload')
    return n


# ------------------------------------------------------------------ R10.12
def r10_12(rep, prog):
    """projection decoder: the multistream decoder only delivers the decoded channels that occur in its mapping, and the
    projection callback uses that index as the COLUMN of the demixing matrix.  So the identity mapping built at
    initialisation must cover every column: its length must be the matrix's column count (the same expression, or
    equality established by a dominating test)."""
    fname = 'opus_projection_decoder_init'
    if not prog.has_fn(fname):
        rep.unresolved('R10.12', '%s: %s not found' % (prog.config, fname))
        return 0
    f = prog.fn(fname)
    rep.functions.add(fname)
    cf = cfgm.CFG(f)
    inits = T.calls_to(cf, 'mapping_matrix_init')
    inst = '%s:%s identity mapping covers every column of the demixing matrix' % (prog.config, fname)
    if len(inits) != 1:
        rep.unresolved('R10.12', inst + ': expected one mapping_matrix_init call')
        return 0
    cols = sx.strip(inits[0][2][2][2])

    def resolve(e):
        e = sx.strip(e)
        if sx.kind(e) == 'local':
            defs = decide.find_assign(f, e[1])
            if len(defs) == 1:
                return sx.strip(defs[0][1])
        return e
    cols_r = resolve(cols)
    # the loop storing mapping[i] = i
    stores = [(b, i, n) for b, i, n in cf.find(lambda n: n[0] == 'assign' and sx.kind(sx.strip_paren(n[1])) == 'idx'
                                              and sx.key(sx.strip(sx.strip_paren(n[1])[2])) == sx.key(sx.strip(n[2])) and sx.kind(sx.strip(n[2])) == 'local')]
    if len(stores) != 1:
        rep.unresolved('R10.12', inst + ': identity mapping store not found (%d candidates)' % len(stores))
        return 0
    b, i, n = stores[0]
    ik = sx.key(sx.strip(n[2]))
    bound = None
    for c, pol, gb in cfgm.guards_of(cf, b):
        if c is not None and sx.kind(sx.strip_paren(c)) == 'bin' and sx.strip_paren(c)[1] == '<' and sx.key(sx.strip(sx.strip_paren(c)[2])) == ik and pol:
            bound = sx.strip(sx.strip_paren(c)[3])
            break
    where = '%s:%s' % (f.file, sx.line(n))
    if bound is None:
        rep.unresolved('R10.12', inst + ': loop bound of the identity mapping not found', where)
        return 0
    bound_r = resolve(bound)
    same = sx.key(bound_r) == sx.key(cols_r) or sx.show(bound_r) == sx.show(cols_r)
    eq = False
    if not same:
        facts = T.stable_facts(cf, b, i)
        kb, kc = sx.key(bound), sx.key(cols)
        eq = any(a[0] == '==' and {a[1], a[2]} == {kb, kc} for a in facts)
    if same or eq:
        rep.holds('R10.12', inst, where, 'mapping length `%s` is the column count `%s`%s' % (sx.show(bound), sx.show(cols), '' if same else ' by a dominating equality test'))
    else:
        rep.violated('R10.12', inst, where, 'the mapping has `%s` entries but the matrix has `%s` = `%s` columns and no test equates them: with fewer output channels than decoded channels the columns beyond `%s` are decoded and dropped' %
                     (sx.show(bound), sx.show(cols), sx.show(cols_r), sx.show(bound)), key=fname + ':mapping-covers-columns')
    return 1


def check(rep, prog, tier):
    r10_12(rep, prog)
    r10_11(rep, prog)
    r10_10(rep, prog)
    r10_9(rep, prog)
    r10_7(rep, prog)
    r10_8(rep, prog)
    r10_6(rep, prog)
    r10_1(rep, prog)
    r10_2(rep, prog)
    r10_3(rep, prog)
    r10_4(rep, prog)
    r10_5(rep, prog)
