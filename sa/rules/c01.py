"""C01 — decoding is total and memory-safe for arbitrary packets and histories.

Structural necessary conditions (the whole-decoder theorem is out of reach):

R01.1 capacity / argument guards dominate every write into the caller's PCM:
      the public wrappers reject frame_size <= 0; opus_decode_native rejects
      bad decode_fec / negative len and returns OPUS_BUFFER_TOO_SMALL unless
      count*packet_frame_size <= frame_size; its frame loop hands the frame
      decoder exactly the remaining capacity at the matching offset; the frame
      decoder rejects frame_size < 2.5 ms, clamps frame_size before any stack
      allocation and never produces more than audiosize <= frame_size; the
      CELT decoder rejects len outside [0,1275] and a NULL pcm; multistream
      rejects frame_size <= 0, len < 0, too-short packets and packets longer
      than the buffer.
R01.2 packet bytes are read only under a length bound: the C06 parser rules
      (reads within len, <= 48 slots) re-evaluated; every read through a
      frames[] pointer returned by the parser is guarded by its size[] entry.
R01.4 range-decoder reads are guarded and zero-filled (the C08 rules).
R01.5 every iCDF table reaching a decoder call terminates (the C17 rule).
R01.6 decoded symbols index constant tables in range: interval analysis of
      the SILK / CELT side-information decoders with the range decoder's
      results bounded by the tables themselves (ec_dec_icdf(T) < symbols(T),
      ...), field summaries over the decoder functions and parameter binding
      from all call sites.
R01.7 decode errors are not dropped.
R01.8 every success return of opus_decode_native sets last_packet_duration to
      the count returned.
R01.9 the decoded CELT band energy is clamped before it is exponentiated
      (float build), so a corrupt packet cannot produce Inf/NaN gains.
"""
import json, os
from .. import sx, cfg as cfgm, guards, templates as T, absint, roles, decide
from ..guards import I
from ..facts import flatten
from ..pts import PointsTo
from ..compdb import AnalysisBroken, VERIF

EXPLANATION = (
    'Decided (necessary conditions of memory safety and totality): R01.1 the argument / capacity guards dominate every '
    'write into the caller\'s PCM and every stack allocation sized by frame_size, and the frame loop passes exactly the '
    'remaining capacity; R01.2 packet bytes are read only under a length bound (parser: linear ghost analysis shared '
    'with C06; helper reads through frames[] guarded by size[]); R01.4 range-decoder byte reads are guarded and '
    'zero-filled; R01.5 every iCDF table reaching a decoder call is strictly decreasing and zero-terminated; R01.6 '
    'every decoded symbol that subscripts a constant table is proved inside it by interval analysis (decoder results '
    'bounded by their own tables, field summaries, parameter binding); R01.7 no decode error is dropped; R01.8 '
    'last_packet_duration equals the returned count; R01.9 CELT band energy is clamped before exponentiation. '
    'NOT decided: in-bounds access and termination of the WHOLE decoder for all packets (CELT band loops, PLC buffers, '
    'resampler), finiteness of every sample, absence of OPUS_INTERNAL_ERROR - these need a relational whole-program '
    'analysis that is not in reach.')

CONFIGS = {'quick': ['float', 'custom'], 'thorough': ['float', 'fixed', 'custom']}     # custom: R01.12 only (signalling byte)

SITES = os.path.join(VERIF, 'spec', 'c01_index_sites.json')


def setup(rep, tier):
    rep.minimum('R01.1', 14)
    rep.minimum('R01.2', 10)
    rep.minimum('R01.4', 5)
    rep.minimum('R01.5', 20)
    rep.minimum('R01.6', 15)
    rep.minimum('R01.7', 12)
    rep.minimum('R01.8', 2)
    rep.minimum('R01.9', 1)
    rep.minimum('R01.10', 20)
    rep.minimum('R01.12', 2)


class Px:
    """report adapter: another property's rule recorded under this property's id"""
    def __init__(self, rep, rule, cap=40):
        self._rep, self._rule = rep, rule
        self.functions = rep.functions
        self.extra = {}
        self.trusted = rep.trusted
        self.assumptions = rep.assumptions
        self.n = 0
        self.cap = cap

    def holds(self, rule, *a, **k):
        self.n += 1
        if self.n <= self.cap:
            self._rep.holds(self._rule, *a, **k)
        else:
            self._rep.count(k.get('n', 1))

    def violated(self, rule, *a, **k):
        self._rep.violated(self._rule, *a, **k)

    def unresolved(self, rule, *a, **k):
        self._rep.unresolved(self._rule, *a, **k)

    def count(self, n=1):
        self._rep.count(n)

    def note(self, s):
        pass

    def minimum(self, *a):
        pass

    def used(self, *a, **k):
        pass


# ------------------------------------------------------------------ R01.1
def _kp(f, name):
    i = f.param_index(name)
    if i is None:
        raise AnalysisBroken('%s has no parameter %s' % (f.name, name))
    return ('param', i)


def r01_1(rep, prog):
    fdec = roles.frame_decoders(prog)
    fnames = {g.name for g in fdec}
    # public wrappers: frame_size <= 0 rejected before the native call / the stack image
    for name in ('opus_decode', 'opus_decode24', 'opus_decode_float', 'opus_multistream_decode_native'):
        if not prog.has_fn(name):
            continue
        f = prog.fn(name)
        rep.functions.add(name)
        cf = cfgm.CFG(f)
        kfs_ = _kp(f, 'frame_size')
        sinks = {b for b, i, n in cf.find(lambda n: n[0] == 'call' and sx.callee_name(n) in ('opus_decode_native', 'opus_multistream_packet_validate', 'opus_decoder_get_nb_samples'))}
        sinks |= {b for b, i, s in cf.positions() if sx.kind(s) == 'decls' and any(d[0] == 'decl' and 'vla' in sx.A(d) for d in s[1])}
        ok, gb, detail = guard_edge(cf, lambda a: a in (('<=', kfs_, ('int', 0)), ('<', kfs_, ('int', 1))), sinks)
        (rep.holds if ok else rep.violated)('R01.1', '%s:%s rejects frame_size <= 0 before any stack allocation or decoding' % (prog.config, name), f.where(), detail, **({} if ok else {'key': name + ':frame-size'}))
    # opus_decode_native
    f = prog.fn('opus_decode_native')
    rep.functions.add(f.name)
    cf = cfgm.CFG(f)
    kfs, klen, kfec, kpcm = _kp(f, 'frame_size'), _kp(f, 'len'), _kp(f, 'decode_fec'), _kp(f, 'pcm')
    loop = [(b, i, c) for b, i, c in cf.find(lambda c: c[0] == 'call' and sx.callee_name(c) in fnames) if sx.int_val(c[2][1]) != 0 and sx.int_val(c[2][5]) == 0 and b in cf.reachable_from(b)]
    if len(loop) != 1:
        rep.unresolved('R01.1', 'opus_decode_native: frame loop not found (%d candidates)' % len(loop), f.where())
    else:
        b, i, c = loop[0]
        where = '%s:%s' % (f.file, sx.line(c))
        facts = T.stable_facts(cf, b, i)
        # count*packet_frame_size <= frame_size
        okcap = any(a[0] == '<=' and a[2] == kfs and isinstance(a[1], tuple) and a[1][0] == 'bin' and a[1][1] == '*' for a in facts)
        (rep.holds if okcap else rep.violated)('R01.1', '%s:opus_decode_native frame loop runs only when count*packet_frame_size <= frame_size' % prog.config, where,
                                               [T.show_atom(a) for a in facts if a[2] == kfs][:3], **({} if okcap else {'key': 'native-capacity'}))
        okfec = any(a == ('<=', I(0), kfec) or a == ('<', I(-1), kfec) for a in facts) and any(a == ('<=', kfec, I(1)) or a == ('<', kfec, I(2)) for a in facts)
        oklen = any(a in (('<=', I(0), klen), ('<', I(-1), klen)) for a in facts) or any(a == ('<', I(0), klen) for a in facts)
        (rep.holds if okfec and oklen else rep.violated)('R01.1', '%s:opus_decode_native rejects decode_fec outside {0,1} and negative len before decoding' % prog.config, where,
                                                         'decode_fec in [0,1]: %s, len >= 0: %s' % (okfec, oklen), **({} if okfec and oklen else {'key': 'native-args'}))
        # cursor / capacity
        from .c09 import _ptr_offset, _times_channels
        off = _ptr_offset(c[2][3], kpcm)
        cur = _times_channels(off) if off is not None else None
        cap = sx.strip(c[2][4])
        okc = cur is not None and sx.kind(sx.strip(cur)) == 'local' and sx.kind(cap) == 'bin' and cap[1] == '-' and sx.key(sx.strip(cap[2])) == kfs and sx.key(sx.strip(cap[3])) == sx.key(sx.strip(cur))
        (rep.holds if okc else rep.violated)('R01.1', '%s:opus_decode_native hands each frame the remaining capacity at the matching offset' % prog.config, where,
                                             'output `%s`, capacity `%s`' % (sx.show(c[2][3]), sx.show(cap)), **({} if okc else {'key': 'native-cursor'}))
    # frame decoder body
    body = roles.holding(fdec, lambda n: n[0] == 'call' and sx.callee_name(n) in ('silk_Decode',))
    if len(body) != 1:
        rep.unresolved('R01.1', 'frame decoder body not unique')
    else:
        g = body[0]
        rep.functions.add(g.name)
        cg = cfgm.CFG(g)
        gfs = _kp(g, 'frame_size')
        # first write into pcm / first sub-decoder call
        sinks = [s for s in cg.find(lambda n: n[0] == 'call' and sx.callee_name(n) in ('silk_Decode', 'celt_decode_with_ec', 'celt_decode_with_ec_dred'))]
        an = absint.Analyzer(prog, g, call_summary=absint.inline_summary(prog), havoc_fields_on_call=False)
        # audiosize <= frame_size at the SILK / CELT calls that decode a packet (data != NULL paths are guarded by audiosize > frame_size -> return)
        aud = [l['id'] for l in g.locals.values() if l['name'] == 'audiosize']
        nchecked = 0
        if aud:
            ka = ('local', aud[0])
            pk = {b for b, i, c in sinks if sx.int_val(c[2][1]) != 0 or sx.callee_name(c) == 'silk_Decode'}
            ok, gb, detail = guard_edge(cg, lambda a: a == ('<', gfs, ka), {b for b, i, c in sinks})
            (rep.holds if ok else rep.violated)('R01.1', '%s:%s never decodes more than the caller\'s capacity (audiosize > frame_size is refused before every sub-decoder call)' % (prog.config, g.name), g.where(), detail,
                                                **({} if ok else {'key': g.name + ':audiosize'}))
        # frame_size >= 2.5 ms and clamp before any VLA
        F25 = [l['id'] for l in g.locals.values() if l['name'] == 'F2_5']
        first = [s for s in sinks if not any(cg.pos_dominates((o[0], o[1]), (s[0], s[1])) and o is not s for o in sinks)]
        if F25:
            ok, gb, detail = guard_edge(cg, lambda a: a == ('<', gfs, ('local', F25[0])), {b for b, i, c in sinks})
            (rep.holds if ok else rep.violated)('R01.1', '%s:%s refuses frame_size below 2.5 ms' % (prog.config, g.name), g.where(), detail, **({} if ok else {'key': g.name + ':min-frame'}))
        clamp = [(b, i, n) for b, i, n in cg.find(lambda n: n[0] == 'assign' and sx.key(sx.strip(n[1])) == gfs and T_minmax(n[2]) is not None and T_minmax(n[2])[0] == 'min')]
        vlas = [(b, i, d) for b, i, s in cg.positions() if sx.kind(s) == 'decls' for d in s[1] if d[0] == 'decl' and 'vla' in sx.A(d)]
        okv = bool(clamp) and all(cg.pos_dominates((clamp[0][0], clamp[0][1]), (b, i)) for b, i, d in vlas) and len(vlas) >= 3
        (rep.holds if okv else rep.violated)('R01.1', '%s:%s clamps frame_size before every stack allocation' % (prog.config, g.name), g.where(),
                                             '%d clamp(s) `frame_size = min(frame_size, .)`, %d variable-length arrays' % (len(clamp), len(vlas)), **({} if okv else {'key': 'frame-clamp'}))
        # the SILK bounce buffer: used exactly when the caller's capacity is below the buffer's own size
        vla = {d[2]: sx.A(d).get('vla') for b, i, s_ in cg.positions() if sx.kind(s_) == 'decls' for d in s_[1] if d[0] == 'decl' and 'vla' in sx.A(d)}
        for b, i, c in [s for s in sinks if sx.callee_name(s[2]) == 'silk_Decode']:
            outp = sx.strip(c[2][5]) if len(c[2]) > 5 else None
            if outp is None or sx.kind(outp) != 'local':
                continue
            defs = decide.find_assign(g, outp[1])
            bounce = [sx.strip(r) for lv, r in defs if sx.kind(sx.strip(r)) == 'local' and sx.strip(r)[2] in vla]
            if not bounce:
                continue
            # size of the bounce buffer: K * channels  (through the size local)
            size_local = vla[bounce[0][2]]
            kexprs = []
            for lv, r in decide.find_assign(g, sx.strip(size_local)[1]) if sx.kind(sx.strip(size_local)) == 'local' else []:
                rr = sx.strip(r)
                if sx.kind(rr) == 'bin' and rr[1] == '*':
                    kexprs += [x for x in (sx.strip(rr[2]), sx.strip(rr[3])) if sx.kind(x) == 'local']
            # the flag that selects the bounce buffer
            flags = [cond for cond, pol, gb in cfgm.guards_of(cg, [b2 for b2, i2, n2 in cg.find(lambda n2: n2[0] == 'assign' and sx.key(n2[1]) == sx.key(outp) and sx.key(sx.strip(n2[2])) == sx.key(bounce[0]))][0]) if cond is not None]
            flagdefs = []
            for fl_ in flags:
                if sx.kind(sx.strip(fl_)) == 'local':
                    flagdefs += [r for lv, r in decide.find_assign(g, sx.strip(fl_)[1])]
            ok = False
            for r in flagdefs:
                at = guards.atoms(r, True)
                if len(at) == 1 and at[0][0] == '<' and at[0][1] == gfs and kexprs and at[0][2] == sx.key(kexprs[0]):
                    ok = True
            inst = '%s:%s decodes SILK into its bounce buffer exactly when frame_size is below the buffer\'s size' % (prog.config, g.name)
            (rep.holds if ok else rep.violated)('R01.1', inst, '%s:%s' % (g.file, sx.line(c)), 'bounce buffer of %s samples per channel, selected by `%s`' % ([sx.show(k) for k in kexprs], [sx.show(r) for r in flagdefs]),
                                                **({} if ok else {'key': g.name + ':bounce'}))
    # CELT decoder entry guards
    cd = [x for x in prog.functions_all if x.name == 'celt_decode_with_ec_dred']
    if cd:
        g = cd[0]
        rep.functions.add(g.name)
        cg = cfgm.CFG(g)
        sinks = T.calls_to(cg, ('ec_dec_init', 'celt_synthesis', 'unquant_coarse_energy'))
        klen_, kpcm_ = _kp(g, 'len'), _kp(g, 'pcm')
        s_ = [s for s in sinks if sx.callee_name(s[2]) == 'unquant_coarse_energy'][:1] or sinks[:1]
        T.t_guard(rep, 'R01.1', g, cg, s_, [('len >= 0', [('<=', I(0), klen_), ('<', I(-1), klen_)]), ('len <= 1275', [('<=', klen_, I(1275)), ('<', klen_, I(1276))]),
                                            ('pcm != NULL', ('!=', kpcm_, I(0)))], 'energy decoding')
    # multistream
    if prog.has_fn('opus_multistream_decode_native'):
        g = prog.fn('opus_multistream_decode_native')
        cg = cfgm.CFG(g)
        sinks = T.calls_to(cg, 'opus_decode_native')
        klen_ = _kp(g, 'len')
        ok, gb, detail = guard_edge(cg, lambda a: a in (('<', klen_, ('int', 0)), ('<=', klen_, ('int', -1))), {b for b, i, c in sinks})
        (rep.holds if ok else rep.violated)('R01.1', '%s:multistream decode rejects negative len before the per-stream decode' % prog.config, g.where(), detail, **({} if ok else {'key': 'ms-len'}))
        # the per-stream scratch image is sized from the very capacity handed to the stream decoders
        vla = [(d, sx.A(d).get('vla')) for b, i, s_ in cg.positions() if sx.kind(s_) == 'decls' for d in s_[1] if d[0] == 'decl' and 'vla' in sx.A(d)]
        for b, i, c in sinks:
            outp, cap = sx.strip(c[2][3]), sx.strip(c[2][4])
            mine = [dim for d, dim in vla if sx.kind(outp) == 'local' and d[2] == outp[2]]
            if not mine:
                continue
            dim = sx.strip(mine[0])
            ok = sx.kind(dim) == 'bin' and dim[1] == '*' and ((sx.int_val(dim[2]) == 2 and sx.key(sx.strip(dim[3])) == sx.key(cap)) or (sx.int_val(dim[3]) == 2 and sx.key(sx.strip(dim[2])) == sx.key(cap)))
            (rep.holds if ok else rep.violated)('R01.1', '%s:multistream scratch image holds 2 x the capacity passed to each stream decoder' % prog.config, '%s:%s' % (g.file, sx.line(c)),
                                                'buffer dimension `%s`, capacity argument `%s`' % (sx.show(dim), sx.show(cap)), **({} if ok else {'key': 'ms-scratch'}))
            break
        v = T.calls_to(cg, 'opus_multistream_packet_validate')
        ok = False
        if v:
            # result > frame_size -> BUFFER_TOO_SMALL
            for b in cg.blocks:
                c = cg.cond(b)
                if c is not None:
                    for a in guards.atoms(c, True):
                        if a[0] == '<' and a[1] == _kp(g, 'frame_size') and isinstance(a[2], tuple) and a[2][0] == 'local':
                            act = None
                            for s2, pol in cg.edges(b):
                                if pol is True:
                                    act = T._block_action(cg, s2, 0)
                                    # `ret > frame_size && !decode_fec`: the refusal may be restricted to normal decoding - with
                                    # decode_fec each stream decoder enforces its own capacity (R01.1 on opus_decode_native, C10 R10.9)
                                    c2 = cg.cond(s2)
                                    if act != ('return', -2) and c2 is not None and any(sx.kind(y) == 'param' and y[2] == 'decode_fec' for y in sx.walk(c2)):
                                        for s3, pol3 in cg.edges(s2):
                                            if T._block_action(cg, s3, 0) == ('return', -2):
                                                act = ('return', -2)
                            ok = ok or act == ('return', -2)
        (rep.holds if ok else rep.violated)('R01.1', '%s:multistream decode returns OPUS_BUFFER_TOO_SMALL when the validated duration exceeds frame_size (in normal decoding)' % prog.config, g.where(), None if ok else 'check not found',
                                            **({} if ok else {'key': 'ms-capacity'}))


def guard_edge(cf, atom_pred, sinks, want_negative=True):
    """a branch whose TRUE edge returns an error (negative constant) when atom_pred holds, and whose FALSE edge
    lies on every path to each sink.  Returns (ok, guard block or None, detail)"""
    for gb in cf.blocks:
        c = cf.cond(gb)
        if c is None:
            continue
        for pol in (True, False):
            ats = guards.atoms(c, pol)
            if not any(atom_pred(a) for a in ats):
                continue
            fail = [s_ for s_, p_ in cf.edges(gb) if p_ is pol]
            cont = [s_ for s_, p_ in cf.edges(gb) if p_ is (not pol)]
            if not fail or not cont:
                continue
            act = T._block_action(cf, fail[0], 0)
            if act is None or act[0] != 'return' or (want_negative and not (isinstance(act[1], int) and act[1] < 0)):
                continue
            if all(cf.edge_dominates(gb, cont[0], sb) for sb in sinks):
                return True, gb, 'guard at line %s returns %s' % (cf.blocks[gb]['term'].get('l'), act[1])
    return False, None, 'no branch that returns an error under the condition and dominates the sink(s)'


def T_minmax(e):
    e = sx.strip(e)
    if sx.kind(e) != 'cond':
        return None
    c = sx.strip(e[1])
    if sx.kind(c) != 'bin' or c[1] not in ('<', '>', '<=', '>='):
        return None
    a, b = sx.key(sx.strip(c[2])), sx.key(sx.strip(c[3]))
    x, y = sx.key(sx.strip(e[2])), sx.key(sx.strip(e[3]))
    if (x, y) == (a, b):
        return ('min' if c[1] in ('<', '<=') else 'max', sx.strip(c[2]), sx.strip(c[3]))
    if (x, y) == (b, a):
        return ('max' if c[1] in ('<', '<=') else 'min', sx.strip(c[2]), sx.strip(c[3]))
    return None


# ------------------------------------------------------------------ R01.2
def r01_2(rep, prog):
    from . import c06
    px = Px(rep, 'R01.2', cap=25)
    f, an, pd, pl = c06.r06_1(px, prog)
    c06.r06_2(px, prog, f, an, pd, pl)
    c06.r06_3(px, prog, f, an, pd, pl)
    # reads through frames[] / parsed frame pointers outside the parser: guarded by the frame's size
    n = 0
    for g in prog.functions_all:
        if not g.file.startswith('src/') or g.name in ('opus_packet_parse_impl',):
            continue
        cg = None
        parse_calls = [c for c in g.calls() if sx.callee_name(c) in ('opus_packet_parse', 'opus_packet_parse_impl')]
        if not parse_calls:
            continue
        # local arrays handed to the parser as frames / size
        fr, sz = set(), set()
        for c in parse_calls:
            fi, si = (3, 4) if sx.callee_name(c) == 'opus_packet_parse' else (4, 5)
            for idx, bag in ((fi, fr), (si, sz)):
                a = sx.strip(c[2][idx])
                if sx.kind(a) == 'local':
                    bag.add(a[2])
        if not fr:
            continue
        cg = cfgm.CFG(g)
        for b, i, node in cg.find(lambda x: x[0] in ('idx', 'deref') and sx.kind(sx.strip(x[1])) == 'idx' and sx.kind(sx.strip(sx.strip(x[1])[1])) == 'local' and sx.strip(sx.strip(x[1])[1])[2] in fr):
            n += 1
            slot = sx.strip(sx.strip(node[1])[2])
            facts = T.stable_facts(cg, b, i)
            where = '%s:%s' % (g.file, sx.line(node) or g.line)
            inst = '%s:%s reads `%s` only when that frame is not empty' % (prog.config, g.name, sx.show(node)[:30])
            ok = False
            for a in facts:
                for x, y, op in ((a[1], a[2], a[0]), (a[2], a[1], {'<': '>', '<=': '>=', '!=': '!=', '==': '=='}[a[0]])):
                    if isinstance(x, tuple) and x[0] == 'idx' and isinstance(x[1], tuple) and x[1][0] == 'local' and x[1][1] in sz and x[2] == sx.key(slot) and y[0] == 'int':
                        if (op == '!=' and y[1] == 0) or (op == '>' and y[1] >= 0) or (op == '>=' and y[1] >= 1):
                            ok = True
            (rep.holds if ok else rep.violated)('R01.2', inst, where, 'facts: %s' % [T.show_atom(a) for a in facts][:4] if not ok else 'size[] > 0 established by a dominating branch',
                                                **({} if ok else {'key': '%s:frames-read' % g.name}))
    if n < 1:
        rep.unresolved('R01.2', 'no read through a parsed frame pointer found outside the parser (opus_packet_has_lbrr expected)')


# ------------------------------------------------------------------ R01.4 / R01.5
def r01_45(rep, prog, pt):
    from . import c08, c17
    px = Px(rep, 'R01.4', cap=12)
    c08.r08_2(px, prog)
    px5 = Px(rep, 'R01.5', cap=40)
    c17.r17_1(px5, prog, pt)


# ------------------------------------------------------------------ R01.6
DEC_FUNCS = ['silk_decode_indices', 'silk_decode_parameters', 'silk_decode_pulses', 'silk_shell_decoder', 'decode_split', 'silk_decode_signs', 'silk_stereo_decode_pred',
             'silk_stereo_decode_mid_only', 'silk_NLSF_unpack', 'silk_NLSF_decode', 'silk_decode_pitch', 'silk_decode_frame', 'silk_Decode', 'silk_decode_core',
             'silk_decoder_set_fs', 'silk_PLC_conceal', 'silk_CNG', 'tf_decode', 'unquant_coarse_energy', 'unquant_fine_energy', 'unquant_energy_finalise',
             'celt_decode_with_ec_dred']


def longest_run(vals):
    run = best = 0
    for v in vals:
        run += 1
        if v == 0:
            best = max(best, run)
            run = 0
    return best


def make_dec_summary(prog, pt):
    def dec_summary(an, e, st):
        nm = sx.callee_name(e)
        if nm in ('ec_dec_icdf', 'ec_dec_icdf16'):
            objs = sorted(pt.pts(an.f, e[2][1]))
            if not objs:
                return absint.mk(0, 255)
            mx = 0
            for o in objs:
                g = prog.globals.get(o)
                vals = [x for x in flatten(g['init'])] if g and 'init' in g else None
                if vals is None or any(not isinstance(v, int) for v in vals):
                    return absint.mk(0, 255)
                mx = max(mx, longest_run(vals))
            return absint.mk(0, max(0, mx - 1))
        if nm == 'ec_dec_bit_logp':
            return absint.mk(0, 1)
        if nm == 'ec_dec_uint':
            v = an.ev(e[2][1], st)
            return absint.mk(0, max(0, absint.hi(v) - 1)) if absint.hi(v) < absint.INF else absint.mk(0, 2 ** 32 - 1)
        if nm == 'ec_dec_bits':
            v = an.ev(e[2][1], st)
            return absint.mk(0, (1 << min(32, max(0, absint.hi(v)))) - 1) if absint.hi(v) < 64 else None
        return None
    return dec_summary


def mode_field_summary(prog):
    fs = {}
    for name, g in prog.globals.items():
        if g.get('elem_record') == 'OpusCustomMode' and isinstance(g.get('init'), dict):
            for k, v in g['init'].items():
                if isinstance(v, int):
                    key = ('OpusCustomMode', k)
                    fs[key] = absint.join(fs.get(key, absint.BOT), absint.const(v))
    return fs


def index_analysis(prog, pt):
    """field summaries + parameter bindings over the decoder functions, then
    the value of every subscript of a constant global table.  Returns
    {(function, table, subscript text): (dim, value, proved)}"""
    summ = absint.inline_summary(prog, extra=make_dec_summary(prog, pt))
    funcs = [prog.fn(n) for n in DEC_FUNCS if prog.has_fn(n)]
    if len(funcs) < 18:
        raise AnalysisBroken('only %d of the decoder side-information functions found' % len(funcs))
    fs = mode_field_summary(prog)
    base_fs = dict(fs)
    params = {}
    names = {f.name for f in funcs}
    for rnd in range(4):
        new = dict(base_fs)
        newp = {}
        for f in funcs:
            entry = {('param', i): v for (fn_, i), v in params.items() if fn_ == f.name}
            an = absint.Analyzer(prog, f, entry_state=entry, call_summary=summ, field_summary=fs, havoc_fields_on_call=False)
            for b, i, s in an.cf.positions():
                for n in sx.walk(s):
                    if n[0] == 'assign':
                        lv = sx.strip_paren(n[1])
                        base = lv
                        while sx.kind(base) == 'idx':
                            base = sx.strip(base[1])
                        if sx.kind(base) == 'field':
                            st = an.state_before_node(b, i, n)
                            if st is None:
                                continue
                            k = (base[2], base[3])
                            new[k] = absint.join(new.get(k, absint.BOT), an.ev(n[2], st))
                    if n[0] in ('cassign', 'inc'):
                        lv = sx.strip_paren(n[2] if n[0] == 'cassign' else n[3])
                        base = lv
                        while sx.kind(base) == 'idx':
                            base = sx.strip(base[1])
                        if sx.kind(base) == 'field':
                            new[(base[2], base[3])] = absint.TOP
                    if n[0] == 'call' and sx.callee_name(n) in names and sx.callee_name(n) != f.name:
                        st = an.state_before_node(b, i, n)
                        if st is None:
                            continue
                        for j, a in enumerate(n[2]):
                            k = (sx.callee_name(n), j)
                            newp[k] = absint.join(newp.get(k, absint.BOT), an.ev(a, st))
        stable = new == fs and newp == params
        fs, params = new, newp
        if stable:
            break
    res = {}
    for f in funcs:
        entry = {('param', i): v for (fn_, i), v in params.items() if fn_ == f.name}
        an = absint.Analyzer(prog, f, entry_state=entry, call_summary=summ, field_summary=fs, havoc_fields_on_call=False)
        # local pointers into a constant table: p = &G[e]  (offset e evaluated where p is defined)
        ptrs = {}
        for b, i, s in an.cf.positions():
            for n in sx.walk(s):
                if n[0] == 'assign' and sx.kind(n[1]) == 'local':
                    r = sx.strip(n[2])
                    if sx.kind(r) == 'addr' and sx.kind(sx.strip(r[1])) == 'idx' and sx.kind(sx.strip(sx.strip(r[1])[1])) == 'global':
                        gname = sx.strip(sx.strip(r[1])[1])[1]
                        g_ = prog.globals.get(gname)
                        st_ = an.state_before_node(b, i, n)
                        if g_ and g_.get('const') and g_.get('dims') and len(g_['dims']) == 1 and st_ is not None:
                            off = an.ev(sx.strip(r[1])[2], st_)
                            old_ = ptrs.get(n[1][2])
                            ptrs[n[1][2]] = (gname, absint.join(old_[1], off) if old_ and old_[0] == gname else off) if (old_ is None or old_[0] == gname) else ('?', absint.TOP)
                    elif n[1][2] in ptrs:
                        ptrs[n[1][2]] = ('?', absint.TOP)
        for b, i, s in an.cf.positions():
            for n in sx.walk(s):
                if n[0] != 'idx':
                    continue
                base = sx.strip(n[1])
                if sx.kind(base) == 'local' and base[2] in ptrs and ptrs[base[2]][0] != '?':
                    gname, off = ptrs[base[2]]
                    st = an.state_before_node(b, i, n)
                    if st is None:
                        continue
                    v = absint.add(off, an.ev(n[2], st))
                    dim = prog.globals[gname]['dims'][0]
                    proved = absint.lo(v) >= 0 and absint.hi(v) < dim
                    k = (f.name, gname, 'via %s: %s' % (base[1], sx.show(n[2])[:40]))
                    old = res.get(k)
                    if old is None or (old[2] and not proved):
                        res[k] = (dim, v, proved, '%s:%s' % (f.file, sx.line(n) or f.line))
                    continue
                if sx.kind(base) != 'global':
                    continue
                g = prog.globals.get(base[1])
                if not g or not g.get('dims') or not g.get('const'):
                    continue
                dim = g['dims'][0]
                st = an.state_before_node(b, i, n)
                if st is None:
                    continue
                v = an.ev(n[2], st)
                proved = absint.lo(v) >= 0 and absint.hi(v) < dim
                k = (f.name, base[1], sx.show(n[2])[:50])
                old = res.get(k)
                if old is None or (old[2] and not proved):
                    res[k] = (dim, v, proved, '%s:%s' % (f.file, sx.line(n) or f.line))
    return res, fs, params


def r01_6(rep, prog, pt):
    res, fs, params = index_analysis(prog, pt)
    if os.environ.get('VERIF_C01_WRITE_SITES'):
        json.dump({'comment': 'decoder subscripts of constant tables that the interval analysis proves in range on the pinned tree (function, table); a site that stops being provable is reported', 'sites': sorted({'%s:%s' % (k[0], k[1]) for k, v in res.items() if v[2]})},
                  open(SITES, 'w'), indent=1)
    try:
        frozen = set(json.load(open(SITES))['sites'])
    except (OSError, ValueError, KeyError):
        raise AnalysisBroken('spec/c01_index_sites.json missing')
    proved_sites = {}
    for (fn, tab, txt), (dim, v, ok, where) in sorted(res.items()):
        key = '%s:%s' % (fn, tab)
        proved_sites.setdefault(key, []).append((txt, dim, v, ok, where))
    for key in sorted(frozen | set(proved_sites)):
        fn, tab = key.split(':', 1)
        ents = proved_sites.get(key)
        inst = '%s:%s subscripts %s inside its bounds' % (prog.config, fn, tab)
        if not ents:
            if key in frozen:
                rep.unresolved('R01.6', 'frozen subscript site %s no longer exists' % key)
            continue
        bad = [e for e in ents if not e[3]]
        if not bad:
            rep.holds('R01.6', inst, ents[0][4], '; '.join('[%s] in %s of %d' % (e[0], absint.show(e[2]), e[1]) for e in ents)[:200])
        elif key in frozen:
            e = bad[0]
            finite = absint.hi(e[2]) < 2 ** 31 - 1 and absint.lo(e[2]) > -2 ** 31
            msg = 'index `%s` can be %s, the table has %d entries' % (e[0], absint.show(e[2]), e[1])
            if finite:
                rep.violated('R01.6', inst, e[4], msg + ': a decodable symbol value reads outside the table', key='index:' + key)
            else:
                rep.violated('R01.6', inst, e[4], msg + ' (the bound that was provable on the reference tree - a mask, clamp or table size - is gone)', key='index:' + key)
        # sites never proved are not claimed
    rep.extra['index_sites_not_decided'] = sorted(k for k, ents in proved_sites.items() if any(not e[3] for e in ents) and k not in frozen)
    rep.extra['decoder_field_ranges'] = {'%s.%s' % k: absint.show(v) for k, v in sorted(fs.items()) if k[0] in ('SideInfoIndices',)}
    # paired selectors: the LTP codebook and its iCDF are selected by the same index field
    di, dp = prog.fn('silk_decode_indices'), prog.fn('silk_decode_parameters')

    def selector_of(f, table):
        for n in f.all_nodes():
            if n[0] == 'idx' and sx.kind(sx.strip(n[1])) == 'global' and sx.strip(n[1])[1] == table:
                ix = sx.strip(n[2])
                return ix[3] if sx.kind(ix) == 'field' else sx.show(ix)
        return None
    a, b = selector_of(di, 'silk_LTP_gain_iCDF_ptrs'), selector_of(dp, 'silk_LTP_vq_ptrs_Q7')
    ok = a is not None and a == b
    (rep.holds if ok else rep.violated)('R01.6', '%s:LTP filter iCDF and codebook are selected by the same index field' % prog.config, dp.where(), '%s / %s' % (a, b), **({} if ok else {'key': 'ltp-selector'}))


# ------------------------------------------------------------------ R01.7 / R01.8 / R01.9
ERR_CALLEES = {'opus_packet_parse_impl', 'opus_decode_native', 'opus_decode_frame', 'opus_decode_frame_nogain', 'celt_decode_with_ec', 'celt_decode_with_ec_dred', 'silk_Decode',
               'opus_multistream_packet_validate', 'opus_decoder_get_nb_samples', 'opus_packet_get_nb_samples', 'opus_packet_get_nb_frames', 'silk_InitDecoder', 'celt_decoder_init',
               'silk_Get_Decoder_Size', 'opus_decoder_init', 'opus_multistream_decoder_init'}
ERR_FUNCS = ['opus_decode_native', 'opus_decode', 'opus_decode24', 'opus_decode_float', 'opus_multistream_decode_native', 'opus_multistream_packet_validate', 'opus_decoder_init',
             'opus_decoder_create', 'opus_multistream_decoder_init', 'opus_multistream_decoder_create', 'opus_packet_get_nb_samples', 'opus_decoder_get_nb_samples',
             'opus_projection_decoder_init', 'opus_projection_decoder_create']


ERR_EXC = {
    ('opus_multistream_packet_validate', 'opus_packet_get_nb_samples', '*'): 'a negative count is copied into `samples` and returned to the caller, which tests it',
}


def _optional_audio(f, call):
    """concealment / redundancy decodes whose failure leaves the (already produced) main audio in place"""
    n = sx.callee_name(call)
    if n in ('celt_decode_with_ec', 'celt_decode_with_ec_dred') and any(sx.kind(sx.strip(a)) == 'local' and 'redundant' in sx.strip(a)[1] for a in call[2]):
        return 'redundancy frame: optional audio by RFC 6716 (decoders may ignore it), decoded into a scratch buffer'
    if n.startswith('opus_decode_frame') and sx.int_val(call[2][1]) == 0 and any(sx.kind(sx.strip(a)) == 'local' and 'transition' in sx.strip(a)[1] for a in call[2]):
        return 'transition concealment into a scratch buffer: cannot fail (mode != 0, frame_size >= 2.5 ms) and its audio only feeds a cross-fade'
    if n in ('celt_decode_with_ec', 'celt_decode_with_ec_dred') and sx.int_val(call[2][2]) == 2 and sx.kind(sx.strip(call[2][1])) == 'local' and 'silence' in sx.strip(call[2][1])[1]:
        return 'two-byte silence frame decoded to fade the MDCT out: always a valid payload'
    if n in ('celt_decode_with_ec', 'celt_decode_with_ec_dred') and sx.int_val(call[2][1]) == 0 and sx.int_val(call[2][2]) in (0, 2):
        return 'CELT concealment / state flush with a NULL or 2-byte silence payload: result is the sample count'
    return None


def r01_789(rep, prog):
    n = 0
    fl = list(ERR_FUNCS) + [g.name for g in roles.frame_decoders(prog)]
    for name in fl:
        if prog.has_fn(name):
            f = prog.fn(name)
            rep.functions.add(name)
            n += T.t_err(rep, 'R01.7', prog, f, ERR_CALLEES - {name}, ERR_EXC, config=prog.config + ':', ignore=_optional_audio)
    if n < 12:
        rep.unresolved('R01.7', 'only %d fallible decode call sites found' % n)
    # R01.8
    f = prog.fn('opus_decode_native')
    cf = cfgm.CFG(f)
    rets = [(b, i, s) for b, i, s in T.returns_of(cf) if s[1] is not None and sx.int_val(s[1]) is None and sx.kind(sx.strip(s[1])) in ('local', 'param')]
    nok = 0
    for b, i, s in rets:
        rk = sx.key(sx.strip(s[1]))
        durs = [(bb, ii) for bb, ii, n_ in cf.find(lambda n_: n_[0] == 'assign' and sx.kind(sx.strip_paren(n_[1])) == 'field' and sx.strip_paren(n_[1])[3] == 'last_packet_duration' and sx.key(sx.strip(n_[2])) == rk)]
        # propagated error codes (count / ret < 0) are returned as they are
        facts = T.stable_facts(cf, b, i)
        is_err = any(a[0] == '<' and a[1] == rk and a[2] == ('int', 0) for a in facts)
        if is_err:
            continue
        ok = any(cf.pos_dominates(d, (b, i)) for d in durs)
        nok += 1
        inst = '%s:opus_decode_native success return `%s` records it as last_packet_duration' % (prog.config, sx.show(s[1]))
        (rep.holds if ok else rep.violated)('R01.8', inst, '%s:%s' % (f.file, sx.line(s)), 'dominated by `st->last_packet_duration = %s`' % sx.show(s[1]) if ok else 'no dominating store of the same value',
                                            **({} if ok else {'key': 'duration:%s' % sx.show(s[1])}))
    if nok < 2:
        rep.unresolved('R01.8', 'fewer than two success returns found in opus_decode_native')
    # R01.9
    if prog.has_fn('denormalise_bands'):
        f = prog.fn('denormalise_bands')
        calls = [c for c in f.calls() if sx.callee_name(c) in ('celt_exp2_db', 'celt_exp2')]
        floatb = not any('FIXED_POINT' in d for u in prog.unit_flags.values() for d in u.get('D', []))
        if floatb:
            inst = '%s:denormalise_bands clamps the decoded log energy before exponentiation' % prog.config
            if not calls:
                # celt_exp2_db may be a macro around exp(): look for the exp call
                calls = [c for c in f.calls() if (sx.callee_name(c) or '').startswith(('exp', '__builtin_exp'))]
            ok = bool(calls) and all(any(T_minmax(x) is not None and T_minmax(x)[0] == 'min' and any(sx.kind(sx.strip(y)) in ('flt', 'int') for y in T_minmax(x)[1:]) for x in sx.walk(c)) for c in calls)
            (rep.holds if ok else rep.violated)('R01.9', inst, f.where(), '%d exponentiation(s), each of min(constant, log energy)' % len(calls) if ok else
                                                'the argument of the exponentiation is not bounded above: maximal coarse energies in a corrupt packet give Inf/NaN samples that persist in the decoder state',
                                                **({} if ok else {'key': 'energy-clamp'}))
        else:
            rep.holds('R01.9', '%s:fixed-point denormalisation shifts and saturates (no exponentiation of an unbounded float)' % prog.config, f.where(), None)


# ------------------------------------------------------------------ R01.10
def r01_10(rep, prog):
    """the caller's interleaved PCM buffer has the layout of the OBJECT (st->channels), whatever the number
    of channels the current packet codes (st->stream_channels).  Every call in src/ that passes a pointer rooted at
    the `pcm` parameter together with a channel count, and every loop over such a pointer, uses st->channels.
    With stream_channels instead, a stereo object handling mono packets touches half the samples and a mono object
    handling stereo packets runs past the buffer."""
    n = 0
    for f in prog.functions_all:
        if not f.file.startswith('src/') or not any(q['name'] == 'pcm' for q in f.params):
            continue
        cg = None

        def rooted(a):
            b = sx.strip(a)
            while sx.kind(b) == 'bin' and b[1] in ('+', '-'):
                b = sx.strip(b[2])
            if sx.kind(b) == 'idx' or sx.kind(b) == 'addr':
                r, path = sx.lvalue_root(b if sx.kind(b) == 'idx' else sx.strip(b[1]))
                b = r if r is not None else b
            return sx.kind(b) == 'param' and b[2] == 'pcm'
        for c in f.calls():
            if not any(rooted(a) for a in c[2]):
                continue
            fl = [y[3] for a in c[2] for y in sx.walk(a) if sx.kind(y) == 'field' and y[3] in ('channels', 'stream_channels')]
            if not fl and sx.callee_name(c) in ('memcpy', 'memmove', 'memset') and rooted(c[2][0]) and \
                    any(sx.kind(y) == 'param' and y[2] == 'frame_size' or sx.kind(y) == 'local' for y in sx.walk(c[2][2])):
                # a block copy / clear of the interleaved buffer counted in samples per channel: the channel factor is missing
                n += 1
                rep.functions.add(f.name)
                rep.violated('R01.10', '%s:%s copies whole interleaved frames into the caller\'s PCM' % (prog.config, f.name), '%s:%s' % (f.file, sx.line(c)),
                             '`%s`: the length counts samples per channel and has no st->channels factor: with two channels half of the frame is left unwritten' % sx.show(c)[:100], key='%s:pcm-copy:%s' % (f.name, sx.line(c)))
                continue
            if not fl:
                continue
            n += 1
            rep.functions.add(f.name)
            inst = '%s:%s passes the caller\'s PCM to %s with the object\'s channel count' % (prog.config, f.name, sx.callee_name(c) or 'a function pointer')
            where = '%s:%s' % (f.file, sx.line(c))
            if 'stream_channels' in fl:
                rep.violated('R01.10', inst, where, '`%s` addresses the caller\'s interleaved buffer with st->stream_channels' % sx.show(c)[:100], key='%s:%s:%s' % (f.name, sx.callee_name(c), sx.line(c)))
            else:
                rep.holds('R01.10', inst, where, None)
        # loops over the buffer
        cg = cfgm.CFG(f)
        for h, latch, body in cg.natural_loops():
            conds = [cg.cond(b) for b in body if cg.cond(b) is not None and any(s2 not in body for s2 in cg.succ[b])]
            touches = any(sx.kind(x) == 'idx' and rooted(x[1]) for b in body for s_ in cg.blocks[b]['stmts'] for x in sx.walk(s_))
            if not touches:
                continue
            fl = [y[3] for c_ in conds for y in sx.walk(c_) if sx.kind(y) == 'field' and y[3] in ('channels', 'stream_channels')]
            if not fl:
                continue
            n += 1
            rep.functions.add(f.name)
            inst = '%s:%s walks the caller\'s PCM over the object\'s channel count (loop at line %s)' % (prog.config, f.name, cg.blocks[h].get('term', {}).get('l'))
            where = '%s:%s' % (f.file, cg.blocks[h].get('term', {}).get('l'))
            if 'stream_channels' in fl:
                rep.violated('R01.10', inst, where, 'loop bound `%s` uses st->stream_channels' % ' ; '.join(sx.show(c_) for c_ in conds)[:100], key='%s:loop:%s' % (f.name, cg.blocks[h].get('term', {}).get('l')))
            else:
                rep.holds('R01.10', inst, where, None)
    return n


# ------------------------------------------------------------------ R01.11
TOC_READERS = ('opus_packet_get_mode', 'opus_packet_get_bandwidth', 'opus_packet_get_samples_per_frame', 'opus_packet_get_nb_channels')


def _len_ge1(facts, kl, validated_locals):
    lo0 = any((a[0] == '<=' and a[1] == ('int', 0) and a[2] == kl) or (a[0] == '<' and a[1] == ('int', -1) and a[2] == kl) for a in facts)
    ne0 = any(a[0] == '!=' and ((a[1] == kl and a[2] == ('int', 0)) or (a[2] == kl and a[1] == ('int', 0))) for a in facts)
    ge1 = any((a[0] == '<=' and a[1] == ('int', 1) and a[2] == kl) or (a[0] == '<' and a[1] == ('int', 0) and a[2] == kl) for a in facts)
    via = any(a[0] in ('<=', '<') and a[1][0] == 'int' and a[1][1] >= -1 + (a[0] == '<=') * 1 - 1 and a[2] in validated_locals for a in facts)
    return ge1 or (lo0 and ne0) or via


def r01_11(rep, prog):
    """the TOC helpers (mode / bandwidth / samples per frame / channels) take no length and read data[0]: every function
    that receives (packet, len) and calls one of them on that packet does so only where len >= 1 is established - by its own
    test, or by the non-negative result of a callee that is itself shown to return non-negative values only under len >= 1."""
    # callees G(packet, len) whose non-negative returns are dominated by len >= 1
    validating = set()
    for g in prog.functions_all:
        if not g.file.startswith('src/'):
            continue
        pl = [i for i, q in enumerate(g.params) if q['name'] == 'len']
        if not pl:
            continue
        cg = cfgm.CFG(g)
        rets = T.returns_of(cg)
        ok = bool(rets)
        for b, i, s_ in rets:
            v = sx.int_val(sx.strip(s_[1])) if len(s_) > 1 else None
            if v is not None and v < 0:
                continue
            if not _len_ge1(T.stable_facts(cg, b, i), ('param', pl[0]), set()):
                ok = False
        if ok:
            validating.add(g.name)
    n = 0
    for f in prog.functions_all:
        if not f.file.startswith('src/'):
            continue
        pl = [i for i, q in enumerate(f.params) if q['name'] == 'len']
        if not pl:
            continue
        cg = cfgm.CFG(f)
        vloc = set()
        for l in f.locals.values():
            for lv, r in decide.find_assign(f, l['name']):
                rr = sx.strip(r)
                if sx.kind(rr) == 'call' and sx.callee_name(rr) in validating and any(sx.key(sx.strip(a)) == ('param', pl[0]) for a in rr[2]):
                    vloc.add(('local', l['id']))
        for b, i, c in T.calls_to(cg, TOC_READERS):
            if sx.kind(sx.strip(c[2][0])) != 'param':
                continue
            n += 1
            rep.functions.add(f.name)
            facts = T.stable_facts(cg, b, i)
            inst = '%s:%s reads the TOC byte (%s) only when the packet has one' % (prog.config, f.name, sx.callee_name(c))
            where = '%s:%s' % (f.file, sx.line(c))
            if _len_ge1(facts, ('param', pl[0]), vloc):
                rep.holds('R01.2', inst, where, 'len >= 1 from %s' % [T.show_atom(a) for a in facts][:3])
            else:
                rep.violated('R01.2', inst, where, 'no test of len precedes the read of data[0]: with len <= 0 one byte outside the packet is read (facts here: %s)' % [T.show_atom(a) for a in facts][:3],
                             key='%s:toc-read:%s' % (f.name, sx.callee_name(c)))
    return n


# ------------------------------------------------------------------ R01.12
def r01_12(rep, prog):
    """the CELT frame decoder reads the packet itself only in custom-modes builds (the signalling byte): every direct read
    `data[k]` / `*data` through its packet parameter happens with `len > k` established (interval analysis of len at the
    read; data and len are stepped together).  In the other configurations the function has no direct read and the rule records that."""
    f = prog.fn('celt_decode_with_ec_dred') if prog.has_fn('celt_decode_with_ec_dred') else prog.fn('celt_decode_with_ec')
    rep.functions.add(f.name)
    pd = f.param_index('data')
    pl = f.param_index('len')
    if pd is None or pl is None:
        rep.unresolved('R01.12', '%s: %s has no (data, len) parameters' % (prog.config, f.name))
        return 0
    kd, kl = ('param', pd), ('param', pl)
    an = absint.Analyzer(prog, f)
    n = 0
    for b, i, nd in an.cf.find(lambda x: sx.kind(x) in ('idx', 'deref')):
        base = sx.strip(nd[1])
        if sx.key(base) != kd:
            continue
        st = an.state_before_node(b, i, nd)
        if st is None:
            continue
        n += 1
        k = an.ev(nd[2], st) if sx.kind(nd) == 'idx' else absint.const(0)
        ln = st.get(kl)
        if ln is None:
            ln = an._key_range(kl)
        # len is decremented together with the pointer: what must hold is  index < len  for the current pair
        need = absint.hi(k) + 1
        where = '%s:%s' % (f.file, sx.line(nd))
        inst = '%s:%s reads `%s` only with len >= %d' % (prog.config, f.name, sx.show(nd)[:20], need)
        if absint.lo(ln) >= need:
            rep.holds('R01.12', inst, where, 'len in %s at the read' % absint.show(ln))
        else:
            rep.violated('R01.12', inst, where, 'len may be %s at the read: an empty packet (len == 0, data != NULL) is read one byte past its end' % absint.show(ln), key='%s:packet-read:%s' % (f.name, sx.show(nd)[:12]))
    if n == 0:
        rep.holds('R01.12', '%s:%s has no direct packet read (range decoder only)' % (prog.config, f.name), f.where(), 'no `data[k]` / `*data` through the packet parameter')
    return n


def check(rep, prog, tier):
    r01_12(rep, prog)
    if prog.config == 'custom':
        return
    if r01_11(rep, prog) < 8:
        rep.unresolved('R01.2', 'fewer than 8 TOC-helper calls on a (packet, len) pair found')
    r01_10(rep, prog)
    pt = PointsTo(prog)
    r01_1(rep, prog)
    # the concealment / FEC capacity skeleton (cursor and remaining-capacity rules shared with C09)
    from . import c09
    c09.r09_1(Px(rep, 'R01.1'), prog)
    r01_2(rep, prog)
    r01_45(rep, prog, pt)
    r01_6(rep, prog, pt)
    r01_789(rep, prog)
