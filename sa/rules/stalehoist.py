"""A value hoisted out of the loop that changes what it was computed from.

For every natural loop: a local that is USED inside the loop, whose reaching definitions at that use
all lie outside the loop, and whose defining expression reads a memory location (`*p`, `s->f`) that the
loop itself stores to, is stale from the second iteration on.  The save / restore idiom
(`tmp = s->f` before the loop, `s->f = tmp` inside it) is the one legitimate shape and is recognised.

In the SILK dequantisers this is the difference between "the double-step threshold follows the running
gain index" and "it is computed once per frame": the indices stay in range, but the decoder reconstructs
other gains than the encoder meant (C18), and nothing else in the code shape shows it.
"""
from .. import sx, cfg as cfgm


def _mem_key(lv):
    lv = sx.strip(lv)
    if sx.kind(lv) in ('deref', 'field'):
        return sx.key(lv)
    return None


def find(f):
    cg = cfgm.CFG(f)
    loops = cg.natural_loops()
    out = []
    nloops = 0
    if not loops:
        return out, 0
    stores = {}
    for b, i, s in cg.positions():
        for n in sx.walk(s):
            if n[0] in ('assign', 'cassign', 'inc'):
                lv = n[1] if n[0] == 'assign' else (n[2] if n[0] == 'cassign' else n[3])
                k = _mem_key(lv)
                if k:
                    stores.setdefault(b, set()).add(k)
    rdcache = {}
    seen = set()
    for h, latch, body in loops:
        st = set()
        for b in body:
            st |= stores.get(b, set())
        if not st:
            continue
        nloops += 1
        for b in body:
            blk = cg.blocks[b]
            items = list(enumerate(blk['stmts']))
            c = cg.cond(b)
            if c is not None:
                items.append((len(blk['stmts']), c))
            for i, s in items:
                # restores  M = tmp  of a saved value are legitimate uses
                restores = set()
                for n in sx.walk(s):
                    if n[0] == 'assign' and sx.kind(sx.strip(n[2])) == 'local' and _mem_key(n[1]):
                        restores.add((sx.strip(n[2])[2], _mem_key(n[1])))
                for x in sx.walk(s):
                    if sx.kind(x) != 'local':
                        continue
                    lid = x[2]
                    if lid not in rdcache:
                        rdcache[lid] = cfgm.reaching_defs(cg, lid)
                    cur, defs = cfgm.defs_at(cg, lid, b, i, rdcache[lid])
                    if not cur or any(defs[d][0] in body for d in cur):
                        continue
                    for d in cur:
                        db, di, dn = defs[d]
                        if dn[0] != 'assign':
                            continue
                        reads = {sx.key(y) for y in sx.walk(dn[2]) if sx.kind(y) in ('deref', 'field')}
                        for m in reads & st:
                            if (lid, m) in restores and sx.key(sx.strip(dn[2])) == m:
                                continue
                            k = (lid, sx.line(dn), m)
                            if k in seen:
                                continue
                            seen.add(k)
                            out.append((x[1], dn, s, m))
    return out, nloops


def check(rep, rule, prog, pred, what):
    n = 0
    for f in prog.functions_all:
        if not pred(f):
            continue
        hits, nloops = find(f)
        if not nloops:
            continue
        rep.functions.add(f.name)
        n += nloops
        for name, dn, use, m in hits:
            rep.violated(rule, '%s:%s recomputes `%s` whenever the loop changes what it is derived from' % (prog.config, f.name, name), '%s:%s' % (f.file, sx.line(dn)),
                         '`%s` is computed once before the loop from a location the loop stores to, and used inside it at line %s: from the second iteration on it is stale' % (sx.show(dn)[:90], sx.line(use)),
                         key='%s:%s:stale' % (f.name, name))
    rep.holds(rule, '%s:%s: no value is hoisted out of a loop that modifies what it was computed from' % (prog.config, what), None, '%d loops with memory stores examined' % n, n=n)
    return n
